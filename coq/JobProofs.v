(* JobProofs.v — proofs about the acceptor program (job_prog lim) (JobModel), for every environment:
   every list of answers to its calls, every placement of signal deliveries.            *)
From Coq Require Import List ZArith Bool Lia Arith.
From MV Require Import JobModel.
Import ListNotations.
Local Open Scope Z_scope.

(* ------------------------------------------------------------------------- *)
(* monitors                                                                   *)
(* ------------------------------------------------------------------------- *)
Lemma mon_app : forall M (step : M -> event -> option M) l1 l2 s,
  mon step s (l1 ++ l2) = match mon step s l1 with Some s' => mon step s' l2 | None => None end.
Proof.
  induction l1 as [|e l1 IH]; intros l2 s; cbn; [reflexivity|].
  destruct (step s e); [apply IH|reflexivity].
Qed.

Lemma mon_rev_spec : forall M (step : M -> event -> option M) t s0, mon step s0 (rev t) = mon_rev step s0 t.
Proof.
  induction t as [|e t IH]; intros s0; cbn; [reflexivity|].
  rewrite mon_app, IH. destruct (mon_rev step s0 t); cbn; [|reflexivity].
  destruct (step m e); reflexivity.
Qed.

Lemma mon_rev_cons : forall M (step : M -> event -> option M) s0 e t,
  mon_rev step s0 (e :: t) = match mon_rev step s0 t with Some s => step s e | None => None end.
Proof. reflexivity. Qed.

Lemma mon_rev_app : forall M (step : M -> event -> option M) s0 a t,
  mon_rev step s0 (a ++ t) = match mon_rev step s0 t with Some s => mon_rev step s a | None => None end.
Proof.
  induction a as [|e a IH]; intros t; cbn.
  - destruct (mon_rev step s0 t); reflexivity.
  - rewrite IH. destruct (mon_rev step s0 t); reflexivity.
Qed.

(* ------------------------------------------------------------------------- *)
(* signal delivery in closed form                                              *)
(* ------------------------------------------------------------------------- *)
Definition ft (l : list sig) (g : Z) : Z := fold_left (fun g s => match s with SIGHUP => g | _ => signo s end) l g.
Definition fr (l : list sig) (g : Z) : Z := fold_left (fun g s => match s with SIGHUP => signo s | _ => g end) l g.
Definition sigev (l : list sig) : list event := rev (map ESig l).

Lemma deliver_eq : forall l gt gr sd e ce ct le lt m nf cs rs n tr,
  deliver l (mks (mkv gt gr sd e ce ct le lt m nf) cs rs n tr) =
  mks (mkv (ft l gt) (fr l gr) sd e ce ct le lt m nf) cs rs n (sigev l ++ tr).
Proof.
  unfold deliver, ft, fr, sigev.
  induction l as [|s l IH]; intros; cbn [fold_left map rev app]; [reflexivity|].
  destruct s; unfold deliver1 at 2, handler, set_term, set_reconf;
    cbn [vs calls reads rdx trace g_term g_reconf v_sd v_errno v_cerrno v_ctime v_lerrno v_ltime v_msg v_nextfd signo];
    rewrite IH, <- app_assoc; reflexivity.
Qed.

Lemma mon_rev_sigev : forall M (step : M -> event -> option M),
  (forall m s, step m (ESig s) = Some m) ->
  forall l s0 t, mon_rev step s0 (sigev l ++ t) = mon_rev step s0 t.
Proof.
  intros M step H l s0 t. rewrite mon_rev_app. destruct (mon_rev step s0 t) as [m|]; [|reflexivity].
  unfold sigev. rewrite <- mon_rev_spec, rev_involutive.
  induction l as [|s l IH]; cbn; [reflexivity|]. rewrite H. exact IH.
Qed.

Lemma hstep_sig : forall m s, hstep m (ESig s) = Some m.
Proof. reflexivity. Qed.
Lemma bstep_sig : forall m s, bstep m (ESig s) = Some m.
Proof. reflexivity. Qed.

(* ------------------------------------------------------------------------- *)
(* loop rules                                                                  *)
(* ------------------------------------------------------------------------- *)
(* with a measure: the loop never reports a busy iteration *)
Lemma loop_rule_dec : forall (I : st -> Prop) (Q : ctl -> st -> Prop) c body,
  (forall x, I x ->
     match eval_cond c x with
     | (None, x') => Q KStuck x'
     | (Some false, x') => Q KNormal x'
     | (Some true, x') =>
         match exec body x' with
         | (KNormal, x'') | (KContinue, x'') => I x'' /\ (length (calls x'') < length (calls x))%nat
         | (KBreak, x'') => Q KNormal x''
         | (k, x'') => Q k x''
         end
     end) ->
  forall fuel x, I x -> (length (calls x) < fuel)%nat ->
  Q (fst (loop fuel c body x)) (snd (loop fuel c body x)).
Proof.
  intros I Q c body H. induction fuel as [|f IH]; intros x HI Hf; [lia|].
  cbn [loop]. specialize (H x HI).
  destruct (eval_cond c x) as [[[|]|] x']; cbn [fst snd]; try exact H.
  destruct (exec body x') as [k x'']; destruct k; cbn [fst snd]; try exact H.
  - destruct H as [HI' Hl]. destruct (Nat.ltb_spec (length (calls x'')) (length (calls x))); [|lia].
    apply IH; [exact HI'|lia].
  - destruct H as [HI' Hl]. destruct (Nat.ltb_spec (length (calls x'')) (length (calls x))); [|lia].
    apply IH; [exact HI'|lia].
Qed.

(* without: a busy iteration ends the run as KSpin *)
Lemma loop_rule : forall (I : st -> Prop) (Q : ctl -> st -> Prop) c body,
  (forall x, I x -> Q KSpin x) ->
  (forall x, I x ->
     match eval_cond c x with
     | (None, x') => Q KStuck x'
     | (Some false, x') => Q KNormal x'
     | (Some true, x') =>
         match exec body x' with
         | (KNormal, x'') | (KContinue, x'') => I x''
         | (KBreak, x'') => Q KNormal x''
         | (k, x'') => Q k x''
         end
     end) ->
  forall fuel x, I x -> Q (fst (loop fuel c body x)) (snd (loop fuel c body x)).
Proof.
  intros I Q c body Hs H. induction fuel as [|f IH]; intros x HI; [cbn; auto|].
  cbn [loop]. specialize (H x HI).
  destruct (eval_cond c x) as [[[|]|] x']; cbn [fst snd]; try exact H.
  destruct (exec body x') as [k x'']; destruct k; cbn [fst snd]; try exact H.
  - destruct (length (calls x'') <? length (calls x))%nat; [apply IH; exact H|cbn; auto].
  - destruct (length (calls x'') <? length (calls x))%nat; [apply IH; exact H|cbn; auto].
Qed.
Ltac model_red :=
  cbv beta iota zeta delta [exec eval_cond call void_call sync with_vars keep msgfd log_arg reads_flag
    set_term set_reconf set_sd set_errno set_cerrno set_ctime set_lerrno set_ltime set_msg set_nextfd
    vs calls reads rdx trace g_term g_reconf v_sd v_errno v_cerrno v_ctime v_lerrno v_ltime v_msg v_nextfd
    a_ret a_sigs seq job_prog p_pre p_cond p_body p_post clobber]; cbn [negb].

Ltac closed_errno :=
  repeat match goal with
  | |- context [existsb (errno_eqb ?e) ?l] =>
      let b := eval vm_compute in (existsb (errno_eqb e) l) in change (existsb (errno_eqb e) l) with b
  | |- context [errno_eqb ?a ?b] =>
      let b' := eval vm_compute in (errno_eqb a b) in change (errno_eqb a b) with b'
  end.

Ltac strip_negb b := lazymatch b with negb ?c => strip_negb c | _ => b end.

Ltac if_step :=
  match goal with
  | H : 0 <= ?nf |- context [?nf <? 0] => replace (nf <? 0) with false by (symmetry; apply Z.ltb_ge; exact H)
  | |- context [-1 <? 0] => change (-1 <? 0) with true
  | |- context [if ?b then _ else _] => lazymatch b with context [deliver _ _] => fail | _ => let c := strip_negb b in destruct c eqn:? end
  end.

Ltac sym_step :=
  first
  [ rewrite deliver_eq
  | match goal with
    | |- context [match ?cs with nil => _ | cons _ _ => _ end] => is_var cs; destruct cs as [|[? ?] ?]
    end
  | if_step ]; model_red.


(* ------------------------------------------------------------------------- *)
(* pre; while; post                                                            *)
(* ------------------------------------------------------------------------- *)
Definition at_loop (I : st -> Prop) (Q : ctl -> st -> Prop) (k : ctl) (x : st) : Prop :=
  match k with KNormal => I x | _ => Q k x end.

Lemma run_from_rule : forall (I0 I Ie : st -> Prop) (Q : ctl -> st -> Prop) p,
  (forall x, I0 x -> match exec (p_pre p) x with (KNormal, x') => I x' | (k, x') => Q k x' end) ->
  (forall x, I x -> Q KSpin x) ->
  (forall x, I x ->
     match eval_cond (p_cond p) x with
     | (None, x') => Q KStuck x'
     | (Some false, x') => Ie x'
     | (Some true, x') =>
         match exec (p_body p) x' with
         | (KNormal, x'') | (KContinue, x'') => I x''
         | (KBreak, x'') => Ie x''
         | (k, x'') => Q k x''
         end
     end) ->
  (forall x, Ie x -> Q (fst (exec (p_post p) x)) (snd (exec (p_post p) x))) ->
  forall x, I0 x -> Q (fst (run_from p x)) (snd (run_from p x)).
Proof.
  intros I0 I Ie Q p Hpre Hspin Hit Hpost x HI. unfold run_from.
  specialize (Hpre x HI). destruct (exec (p_pre p) x) as [k x1]. destruct k; cbn [fst snd]; try exact Hpre.
  assert (HL : at_loop Ie Q (fst (loop (S (length (calls x1))) (p_cond p) (p_body p) x1))
                           (snd (loop (S (length (calls x1))) (p_cond p) (p_body p) x1))).
  { apply loop_rule with (I := I); [exact Hspin| |exact Hpre].
    intros y Hy. specialize (Hit y Hy). destruct (eval_cond (p_cond p) y) as [[[|]|] y']; try exact Hit.
    destruct (exec (p_body p) y') as [k y'']; destruct k; exact Hit. }
  destruct (loop (S (length (calls x1))) (p_cond p) (p_body p) x1) as [k x2]. cbn [fst snd] in HL.
  destruct k; cbn [at_loop fst snd] in *; try exact HL. apply Hpost; exact HL.
Qed.

Lemma run_from_rule_dec : forall (I0 I Ie : st -> Prop) (Q : ctl -> st -> Prop) p,
  (forall x, I0 x -> match exec (p_pre p) x with (KNormal, x') => I x' | (k, x') => Q k x' end) ->
  (forall x, I x ->
     match eval_cond (p_cond p) x with
     | (None, x') => Q KStuck x'
     | (Some false, x') => Ie x'
     | (Some true, x') =>
         match exec (p_body p) x' with
         | (KNormal, x'') | (KContinue, x'') => I x'' /\ (length (calls x'') < length (calls x))%nat
         | (KBreak, x'') => Ie x''
         | (k, x'') => Q k x''
         end
     end) ->
  (forall x, Ie x -> Q (fst (exec (p_post p) x)) (snd (exec (p_post p) x))) ->
  forall x, I0 x -> Q (fst (run_from p x)) (snd (run_from p x)).
Proof.
  intros I0 I Ie Q p Hpre Hit Hpost x HI. unfold run_from.
  specialize (Hpre x HI). destruct (exec (p_pre p) x) as [k x1]. destruct k; cbn [fst snd]; try exact Hpre.
  assert (HL : at_loop Ie Q (fst (loop (S (length (calls x1))) (p_cond p) (p_body p) x1))
                           (snd (loop (S (length (calls x1))) (p_cond p) (p_body p) x1))).
  { apply loop_rule_dec with (I := I); [|exact Hpre|lia].
    intros y Hy. specialize (Hit y Hy). destruct (eval_cond (p_cond p) y) as [[[|]|] y']; try exact Hit.
    destruct (exec (p_body p) y') as [k y'']; destruct k; exact Hit. }
  destruct (loop (S (length (calls x1))) (p_cond p) (p_body p) x1) as [k x2]. cbn [fst snd] in HL.
  destruct k; cbn [at_loop fst snd] in *; try exact HL. apply Hpost; exact HL.
Qed.

(* ------------------------------------------------------------------------- *)
(* (A) hand-off                                                                *)
(* ------------------------------------------------------------------------- *)
Definition hm (x : st) := mon_rev hstep HIdle (trace x).
Definition hI (x : st) : Prop := 0 <= v_nextfd (vs x) /\ exists h, hm x = Some h /\ (forall f, h <> HConn f).
Definition hQ (k : ctl) (x : st) : Prop :=
  match hm x with Some (HConn _) => ended k = false | Some _ => True | None => False end.

Ltac h_leaves Hm Hh h :=
  repeat first [rewrite (mon_rev_sigev _ hstep hstep_sig) | rewrite mon_rev_cons];
  rewrite Hm; destruct h; try (exfalso; eapply Hh; reflexivity);
  cbn [hstep]; rewrite ?Z.eqb_refl; cbn [hstep ended];
  try exact I; try reflexivity;
  try (split; [lia | eexists; split; [reflexivity | intros; discriminate]]).

Lemma h_iter : forall lim x, hI x ->
     match eval_cond (p_cond (job_prog lim)) x with
     | (None, x') => hQ KStuck x'
     | (Some false, x') => hI x'
     | (Some true, x') =>
         match exec (p_body (job_prog lim)) x' with
         | (KNormal, x'') | (KContinue, x'') => hI x''
         | (KBreak, x'') => hI x''
         | (k, x'') => hQ k x''
         end
     end.
Proof.
  intros lim [[gt gr sd e ce ct le lt m nf] cs rs n tr] [Hnf [h [Hm Hh]]].
  unfold hI, hQ, hm in *. cbn [trace vs v_nextfd] in *.
  model_red. repeat sym_step.
  all: h_leaves Hm Hh h.
Qed.

Lemma h_pre : forall lim x, hI x -> match exec (p_pre (job_prog lim)) x with (KNormal, x') => hI x' | (k, x') => hQ k x' end.
Proof.
  intros lim [[gt gr sd e ce ct le lt m nf] cs rs n tr] [Hnf [h [Hm Hh]]].
  unfold hI, hQ, hm in *. cbn [trace vs v_nextfd] in *.
  model_red. repeat sym_step.
  all: h_leaves Hm Hh h.
Qed.

Lemma h_post : forall lim x, hI x -> hQ (fst (exec (p_post (job_prog lim)) x)) (snd (exec (p_post (job_prog lim)) x)).
Proof.
  intros lim [[gt gr sd e ce ct le lt m nf] cs rs n tr] [Hnf [h [Hm Hh]]].
  unfold hI, hQ, hm in *. cbn [trace vs v_nextfd] in *.
  model_red. repeat sym_step.
  all: cbn [fst snd trace]; h_leaves Hm Hh h.
Qed.

Lemma h_spin : forall x, hI x -> hQ KSpin x.
Proof. intros x [_ [h [Hm Hh]]]. unfold hQ. rewrite Hm. destruct h; auto. Qed.

Lemma init_eq : forall isigs cs rs,
  deliver isigs (init cs rs) = mks (mkv (ft isigs 0) (fr isigs 0) (-1) E0 E0 0 E0 0 None first_fd) cs rs 0%nat (sigev isigs ++ []).
Proof. intros. unfold init, init_vars. apply deliver_eq. Qed.

Theorem handoff : forall lim isigs cs rs, handoff_ok (snd (run (job_prog lim) isigs cs rs)) (fst (run (job_prog lim) isigs cs rs)) = true.
Proof.
  intros. unfold run.
  assert (H : hQ (fst (run_from (job_prog lim) (deliver isigs (init cs rs)))) (snd (run_from (job_prog lim) (deliver isigs (init cs rs))))).
  { apply run_from_rule with (I0 := hI) (I := hI) (Ie := hI); [exact (h_pre lim)|exact h_spin|exact (h_iter lim)|exact (h_post lim)|].
    rewrite init_eq. split; [cbn; unfold first_fd; lia|]. exists HIdle. unfold hm. cbn [trace].
    rewrite (mon_rev_sigev _ hstep hstep_sig). split; [reflexivity|intros; discriminate]. }
  destruct (run_from (job_prog lim) (deliver isigs (init cs rs))) as [k x]. cbn [fst snd] in *.
  unfold handoff_ok, hQ, hm in *. rewrite mon_rev_spec.
  destruct (mon_rev hstep HIdle (trace x)) as [[| | |]|]; try reflexivity; [|contradiction].
  rewrite H. reflexivity.
Qed.

(* ------------------------------------------------------------------------- *)
(* (B) backlog                                                                 *)
(* ------------------------------------------------------------------------- *)
Lemma in_shortage : forall e, existsb (errno_eqb e) [EMFILE; ENFILE; ENOBUFS; ENOMEM] = shortage e.
Proof. destruct e; reflexivity. Qed.
Lemma in_retryable : forall e, existsb (errno_eqb e) [ECONNABORTED; EINTR] = retryable e.
Proof. destruct e; reflexivity. Qed.
Lemma shortage_not_retryable : forall e, shortage e = true -> retryable e = false.
Proof. destruct e; cbn; congruence. Qed.

Lemma retryable_not_shortage : forall e, retryable e = true -> shortage e = false.
Proof. destruct e; cbn; congruence. Qed.

Definition bm (x : st) := mon_rev bstep BOk (trace x).
Definition bI (x : st) : Prop := 0 <= v_nextfd (vs x) /\ exists b, bm x = Some b /\ b <> BNeed.
Definition bQ (k : ctl) (x : st) : Prop := bm x <> None /\ k <> KSpin.

Ltac b_leaves Hm Hb b :=
  repeat first [rewrite (mon_rev_sigev _ bstep bstep_sig) | rewrite mon_rev_cons];
  rewrite Hm; destruct b; try (exfalso; apply Hb; reflexivity);
  cbn [bstep];
  try match goal with H : retryable ?e = true |- _ => rewrite (retryable_not_shortage _ H) end;
  repeat match goal with H : ?c = _ |- context [?c] => rewrite H end;
  cbn [bstep length];
  repeat split; try discriminate; try lia;
  try (eexists; split; [reflexivity | discriminate]).

Ltac b_red := model_red; rewrite ?in_shortage, ?in_retryable.

Lemma b_iter : forall lim x, bI x ->
     match eval_cond (p_cond (job_prog lim)) x with
     | (None, x') => bQ KStuck x'
     | (Some false, x') => bI x'
     | (Some true, x') =>
         match exec (p_body (job_prog lim)) x' with
         | (KNormal, x'') | (KContinue, x'') => bI x'' /\ (length (calls x'') < length (calls x))%nat
         | (KBreak, x'') => bI x''
         | (k, x'') => bQ k x''
         end
     end.
Proof.
  intros lim [[gt gr sd e ce ct le lt m nf] cs rs n tr] [Hnf [b [Hm Hb]]].
  unfold bI, bQ, bm in *. cbn [trace vs v_nextfd] in *.
  b_red. repeat (sym_step; rewrite ?in_shortage, ?in_retryable).
  all: b_leaves Hm Hb b.
Qed.

Definition bI0 (x : st) : Prop := 0 <= v_nextfd (vs x) /\ bm x = Some BOk.

Lemma b_pre : forall lim x, bI0 x -> match exec (p_pre (job_prog lim)) x with (KNormal, x') => bI x' | (k, x') => bQ k x' end.
Proof.
  intros lim [[gt gr sd e ce ct le lt m nf] cs rs n tr] [Hnf Hm].
  unfold bI, bQ, bm in *. cbn [trace vs v_nextfd] in *.
  model_red. repeat sym_step.
  all: repeat first [rewrite (mon_rev_sigev _ bstep bstep_sig) | rewrite mon_rev_cons]; rewrite Hm; cbn [bstep].
  all: repeat split; try discriminate; try lia; try (eexists; split; [reflexivity | discriminate]).
Qed.

Lemma b_post : forall lim x, bI x -> bQ (fst (exec (p_post (job_prog lim)) x)) (snd (exec (p_post (job_prog lim)) x)).
Proof.
  intros lim [[gt gr sd e ce ct le lt m nf] cs rs n tr] [Hnf [b [Hm Hb]]].
  unfold bI, bQ, bm in *. cbn [trace vs v_nextfd] in *.
  model_red. repeat sym_step.
  all: cbn [fst snd trace]; b_leaves Hm Hb b.
Qed.

Theorem backlog : forall lim isigs cs rs, backlog_ok (snd (run (job_prog lim) isigs cs rs)) (fst (run (job_prog lim) isigs cs rs)) = true.
Proof.
  intros. unfold run.
  assert (H : bQ (fst (run_from (job_prog lim) (deliver isigs (init cs rs)))) (snd (run_from (job_prog lim) (deliver isigs (init cs rs))))).
  { apply run_from_rule_dec with (I0 := bI0) (I := bI) (Ie := bI); [exact (b_pre lim)|exact (b_iter lim)|exact (b_post lim)|].
    rewrite init_eq. split; [cbn; unfold first_fd; lia|]. unfold bm. cbn [trace].
    rewrite (mon_rev_sigev _ bstep bstep_sig). reflexivity. }
  destruct (run_from (job_prog lim) (deliver isigs (init cs rs))) as [k x]. cbn [fst snd] in *.
  unfold backlog_ok, bQ, bm in *. rewrite mon_rev_spec. destruct H as [H1 H2].
  destruct (mon_rev bstep BOk (trace x)); [|congruence]. destruct k; try reflexivity. congruence.
Qed.

(* ------------------------------------------------------------------------- *)
(* which outcomes a statement can have                                         *)
(* ------------------------------------------------------------------------- *)
Fixpoint straight (s : stmt) : bool :=
  match s with
  | SSeq a b | SIf _ a b => straight a && straight b
  | SContinue | SBreak | SReturn => false
  | _ => true
  end.
Fixpoint no_jump (s : stmt) : bool :=
  match s with
  | SSeq a b | SIf _ a b => no_jump a && no_jump b
  | SBreak | SReturn => false
  | _ => true
  end.

Lemma void_call_ctl : forall ev upd x, fst (void_call ev upd x) = KNormal \/ fst (void_call ev upd x) = KStuck.
Proof. intros. unfold void_call, call. destruct (calls x); cbn; auto. Qed.

Lemma straight_ctl : forall s x, straight s = true ->
  fst (exec s x) = KNormal \/ fst (exec s x) = KStuck \/ fst (exec s x) = KFatal.
Proof.
  induction s; intros x Hs; cbn [straight] in Hs; try discriminate; cbn [exec]; cbn [fst]; auto.
  - apply andb_prop in Hs. destruct Hs as [Ha Hb]. specialize (IHs1 x Ha).
    destruct (exec s1 x) as [k x1]. cbn [fst] in IHs1. destruct IHs1 as [->|[->| ->]]; cbn [fst]; auto.
  - apply andb_prop in Hs. destruct Hs as [Ha Hb].
    destruct (eval_cond c x) as [[[|]|] x1]; cbn [fst]; auto.
  - destruct (void_call_ctl (fun v => ELog p t (log_arg t v)) (fun v => v) (if reads_flag t then sync x else x)) as [H|H]; auto.
  - destruct (void_call_ctl (fun _ => EGids) (fun v => v) x) as [H|H]; auto.
  - unfold call. destruct (calls x); cbn; auto.
  - unfold call. destruct (calls x); cbn; auto.
  - destruct (void_call_ctl (fun _ => EWait) (fun v => v) x) as [H|H]; auto.
  - destruct (void_call_ctl (fun v => EClose (v_sd v)) (fun v => v) x) as [H|H]; auto.
  - destruct (void_call_ctl (fun v => EDestroy (msgfd v)) (set_msg None) x) as [H|H]; auto.
  - destruct (void_call_ctl (fun _ => EFini dowait) (fun v => v) x) as [H|H]; auto.
Qed.

Lemma no_jump_ctl : forall s x, no_jump s = true ->
  fst (exec s x) <> KBreak /\ fst (exec s x) <> KReturn /\ fst (exec s x) <> KSpin.
Proof.
  induction s; intros x Hs; cbn [no_jump] in Hs; try discriminate; cbn [exec]; cbn [fst];
    try (repeat split; discriminate).
  - apply andb_prop in Hs. destruct Hs as [Ha Hb]. specialize (IHs1 x Ha).
    destruct (exec s1 x) as [k x1]. cbn [fst] in IHs1. destruct k; cbn [fst]; auto.
  - apply andb_prop in Hs. destruct Hs as [Ha Hb].
    destruct (eval_cond c x) as [[[|]|] x1]; cbn [fst]; auto. repeat split; discriminate.
  - destruct (void_call_ctl (fun v => ELog p t (log_arg t v)) (fun v => v) (if reads_flag t then sync x else x)) as [H|H];
      rewrite H; repeat split; discriminate.
  - destruct (void_call_ctl (fun _ => EGids) (fun v => v) x) as [H|H]; rewrite H; repeat split; discriminate.
  - unfold call. destruct (calls x); cbn; repeat split; discriminate.
  - unfold call. destruct (calls x); cbn; repeat split; discriminate.
  - destruct (void_call_ctl (fun _ => EWait) (fun v => v) x) as [H|H]; rewrite H; repeat split; discriminate.
  - destruct (void_call_ctl (fun v => EClose (v_sd v)) (fun v => v) x) as [H|H]; rewrite H; repeat split; discriminate.
  - destruct (void_call_ctl (fun v => EDestroy (msgfd v)) (set_msg None) x) as [H|H]; rewrite H; repeat split; discriminate.
  - destruct (void_call_ctl (fun _ => EFini dowait) (fun v => v) x) as [H|H]; rewrite H; repeat split; discriminate.
Qed.

(* ------------------------------------------------------------------------- *)
(* invariants over (got_terminate, got_reconfig, log) and the statements that keep them *)
(* ------------------------------------------------------------------------- *)
Inductive ekind := KdAccept | KdFini | KdGids | KdSig | KdOther.
Definition kind_of (e : event) : ekind :=
  match e with
  | EAcceptConn _ | EAcceptErr _ => KdAccept | EFini _ => KdFini | EGids => KdGids | ESig _ => KdSig | _ => KdOther
  end.

Fixpoint stmt_ok (okk : ekind -> bool) (ok_clear : bool) (s : stmt) : bool :=
  match s with
  | SSeq a b | SIf _ a b => stmt_ok okk ok_clear a && stmt_ok okk ok_clear b
  | SAccept => okk KdAccept
  | SFini _ => okk KdFini
  | SGids => okk KdGids
  | SClearReconf => ok_clear
  | _ => true
  end.

Section Sig.
Variable P : Z -> Z -> list event -> Prop.     (* got_terminate, got_reconfig, log (latest first) *)
Hypothesis P_sig : forall gt gr tr s, P gt gr tr ->
  P (match s with SIGHUP => gt | _ => signo s end) (match s with SIGHUP => signo s | _ => gr end) (ESig s :: tr).

Definition Px (x : st) : Prop := P (g_term (vs x)) (g_reconf (vs x)) (trace x).

Lemma Px_deliver : forall l x, Px x -> Px (deliver l x).
Proof.
  unfold deliver. induction l as [|s l IH]; intros x H; cbn [fold_left]; [exact H|].
  apply IH. unfold Px, deliver1. cbn [vs trace]. destruct s; cbn;
    [exact (P_sig _ _ _ SIGHUP H)|exact (P_sig _ _ _ SIGINT H)|exact (P_sig _ _ _ SIGTERM H)].
Qed.

Lemma Px_sync : forall x, Px x -> Px (sync x).
Proof. intros x H. unfold sync. apply Px_deliver. exact H. Qed.

Section Quiet.
Variable okk : ekind -> bool.
Variable ok_clear : bool.
Hypothesis P_ev : forall gt gr tr e, okk (kind_of e) = true -> P gt gr tr -> P gt gr (e :: tr).
Hypothesis P_clear : ok_clear = true -> forall gt gr tr, P gt gr tr -> P gt 0 tr.
Hypothesis okk_other : okk KdOther = true.

Lemma Px_call : forall ev upd x r x',
  call ev upd x = Some (r, x') ->
  (forall r v, g_term (upd r v) = g_term v) -> (forall r v, g_reconf (upd r v) = g_reconf v) ->
  (forall r v, okk (kind_of (ev r v)) = true) ->
  Px x -> Px x'.
Proof.
  intros ev upd x r x' Hc Ht Hr He H. unfold call in Hc. destruct (calls x) as [|a cs]; [discriminate|].
  inversion Hc; subst. apply Px_deliver. unfold Px. cbn [vs trace]. rewrite Ht, Hr. apply P_ev; [apply He|exact H].
Qed.

Lemma Px_call_snd : forall ev upd x,
  (forall r v, g_term (upd r v) = g_term v) -> (forall r v, g_reconf (upd r v) = g_reconf v) ->
  (forall r v, okk (kind_of (ev r v)) = true) ->
  Px x -> match call ev upd x with Some (_, x') => Px x' | None => True end.
Proof.
  intros ev upd x Ht Hr He H. destruct (call ev upd x) as [[r x']|] eqn:Hc; [|exact I].
  eapply Px_call; eauto.
Qed.

Lemma Px_void_call : forall ev upd x,
  (forall v, g_term (upd v) = g_term v) -> (forall v, g_reconf (upd v) = g_reconf v) ->
  (forall v, okk (kind_of (ev v)) = true) ->
  Px x -> Px (snd (void_call ev upd x)).
Proof.
  intros ev upd x Ht Hr He H. unfold void_call.
  pose proof (Px_call_snd (fun _ v => ev v) (fun _ v => upd v) x (fun _ => Ht) (fun _ => Hr) (fun _ => He) H) as Hc.
  destruct (call (fun _ v => ev v) (fun _ v => upd v) x) as [[r x']|]; cbn [snd]; [exact Hc|exact H].
Qed.

Ltac call_side okk_other :=
  intros; cbn [kind_of keep]; try exact okk_other;
  repeat match goal with |- context [if ?b then _ else _] => destruct b end;
  try match goal with |- context [match v_msg ?v with Some _ => _ | None => _ end] => destruct (v_msg v) end;
  try exact okk_other; reflexivity.

Lemma cond_keeps : forall c x, Px x -> Px (snd (eval_cond c x)).
Proof.
  induction c; intros x H; cbn [eval_cond]; cbn [snd]; try exact H; try (apply Px_sync; exact H).
  - pose proof (Px_call_snd (fun r _ => EInit (r =? 0)) keep x) as Hc.
    destruct (call (fun r _ => EInit (r =? 0)) keep x) as [[r x']|]; cbn [snd]; [|exact H].
    apply Hc; [call_side okk_other|call_side okk_other|call_side okk_other|exact H].
  - pose proof (Px_call_snd (fun r v => ENonblock (v_sd v) (r =? 0)) keep x) as Hc.
    destruct (call (fun r v => ENonblock (v_sd v) (r =? 0)) keep x) as [[r x']|]; cbn [snd]; [|exact H].
    apply Hc; [call_side okk_other|call_side okk_other|call_side okk_other|exact H].
  - pose proof (Px_call_snd (fun r _ => ECreate (r =? 0)) (fun r v => if r =? 0 then set_msg (Some (-1)) v else v) x) as Hc.
    destruct (call (fun r _ => ECreate (r =? 0)) (fun r v => if r =? 0 then set_msg (Some (-1)) v else v) x) as [[r x']|];
      cbn [snd]; [|exact H].
    apply Hc; [call_side okk_other|call_side okk_other|call_side okk_other|exact H].
  - pose proof (Px_call_snd (fun r v => EBind (v_sd v) (r =? 0))
                 (fun r v => if r =? 0 then match v_msg v with Some _ => set_msg (Some (v_sd v)) v | None => v end else v) x) as Hc.
    destruct (call (fun r v => EBind (v_sd v) (r =? 0))
                 (fun r v => if r =? 0 then match v_msg v with Some _ => set_msg (Some (v_sd v)) v | None => v end else v) x)
      as [[r x']|]; cbn [snd]; [|exact H].
    apply Hc; [call_side okk_other|call_side okk_other|call_side okk_other|exact H].
  - pose proof (Px_call_snd (fun r v => EQueue (msgfd v) (r =? 0)) (fun r v => if r =? 0 then set_msg None v else v) x) as Hc.
    destruct (call (fun r v => EQueue (msgfd v) (r =? 0)) (fun r v => if r =? 0 then set_msg None v else v) x) as [[r x']|];
      cbn [snd]; [|exact H].
    apply Hc; [call_side okk_other|call_side okk_other|call_side okk_other|exact H].
  - specialize (IHc x H). destruct (eval_cond c x) as [[b|] x']; exact IHc.
  - specialize (IHc1 x H). destruct (eval_cond c1 x) as [[[|]|] x']; cbn [snd] in *; auto.
  - specialize (IHc1 x H). destruct (eval_cond c1 x) as [[[|]|] x']; cbn [snd] in *; auto.
Qed.

Lemma stmt_keeps : forall s x, stmt_ok okk ok_clear s = true -> Px x -> Px (snd (exec s x)).
Proof.
  induction s; intros x Hs H; cbn [stmt_ok] in Hs; cbn [exec]; cbn [snd]; try exact H.
  - apply andb_prop in Hs. destruct Hs as [Ha Hb]. specialize (IHs1 x Ha H).
    destruct (exec s1 x) as [k x1]. cbn [snd] in IHs1. destruct k; cbn [snd]; auto.
  - apply andb_prop in Hs. destruct Hs as [Ha Hb]. pose proof (cond_keeps c x H) as Hc.
    destruct (eval_cond c x) as [[[|]|] x1]; cbn [snd] in *; auto.
  - apply Px_void_call; [call_side okk_other|call_side okk_other|call_side okk_other|]. destruct (reads_flag t); [apply Px_sync|]; exact H.
  - unfold Px. cbn [vs trace]. apply P_ev; [exact okk_other|exact H].
  - unfold with_vars, Px. cbn [vs trace set_reconf g_term g_reconf]. apply (P_clear Hs _ (g_reconf (vs (sync x)))). apply (Px_sync x H).
  - apply Px_void_call; [call_side okk_other|call_side okk_other|intros; cbn [kind_of]; first [exact Hs | exact okk_other]|exact H].
  - pose proof (Px_call_snd (fun r v => if r =? 0 then EAcceptConn (v_nextfd v) else EAcceptErr (errno_of_code r))
                 (fun r v => if r =? 0 then set_nextfd (v_nextfd v + 1) (set_sd (v_nextfd v) v)
                             else set_errno (errno_of_code r) (set_sd (-1) v)) x) as Hc.
    destruct (call (fun r v => if r =? 0 then EAcceptConn (v_nextfd v) else EAcceptErr (errno_of_code r))
                 (fun r v => if r =? 0 then set_nextfd (v_nextfd v + 1) (set_sd (v_nextfd v) v)
                             else set_errno (errno_of_code r) (set_sd (-1) v)) x) as [[r x']|]; cbn [snd]; [|exact H].
    apply Hc; [call_side okk_other|call_side okk_other| |exact H].
    intros r0 v; destruct (r0 =? 0); exact Hs.
  - pose proof (Px_call_snd (fun r _ => ETime r) (fun r v => set_errno clobber (set_ctime r v)) x) as Hc.
    destruct (call (fun r _ => ETime r) (fun r v => set_errno clobber (set_ctime r v)) x) as [[r x']|]; cbn [snd]; [|exact H].
    apply Hc; [call_side okk_other|call_side okk_other|call_side okk_other|exact H].
  - apply Px_void_call; [call_side okk_other|call_side okk_other|intros; cbn [kind_of]; first [exact Hs | exact okk_other]|exact H].
  - apply Px_void_call; [call_side okk_other|call_side okk_other|intros; cbn [kind_of]; first [exact Hs | exact okk_other]|exact H].
  - apply Px_void_call; [call_side okk_other|call_side okk_other|intros; cbn [kind_of]; first [exact Hs | exact okk_other]|exact H].
  - apply Px_void_call; [call_side okk_other|call_side okk_other|intros; cbn [kind_of]; first [exact Hs | exact okk_other]|exact H].
Qed.
End Quiet.
End Sig.

(* ------------------------------------------------------------------------- *)
(* body = a; accept; r                                                          *)
(* ------------------------------------------------------------------------- *)
Definition is_cont (k : ctl) : bool := match k with KNormal | KContinue => true | _ => false end.

Lemma exec_seq : forall a b x, exec (SSeq a b) x = match exec a x with (KNormal, x') => exec b x' | r => r end.
Proof. reflexivity. Qed.

Lemma seq3 : forall (PA PM PB PW : st -> Prop) a r,
  straight a = true ->
  (forall x, PA x -> (fst (exec a x) = KNormal -> PM (snd (exec a x))) /\ PW (snd (exec a x))) ->
  (forall x, PM x -> PB (snd (exec SAccept x))) ->
  (forall x, PB x -> PB (snd (exec r x))) ->
  (forall x, PB x -> PW x) ->
  forall x, PA x ->
    PW (snd (exec (SSeq a (SSeq SAccept r)) x)) /\
    (is_cont (fst (exec (SSeq a (SSeq SAccept r)) x)) = true -> PB (snd (exec (SSeq a (SSeq SAccept r)) x))).
Proof.
  intros PA PM PB PW a r Hst Ha Hacc Hr Hw x HA.
  specialize (Ha x HA). pose proof (straight_ctl a x Hst) as Hk.
  rewrite exec_seq. destruct (exec a x) as [k x1]. cbn [fst snd] in *. destruct Ha as [Ha1 Ha2].
  destruct Hk as [->|[->| ->]]; cbn [fst snd is_cont]; try (split; [exact Ha2|discriminate]).
  specialize (Ha1 eq_refl). specialize (Hacc x1 Ha1). rewrite exec_seq.
  assert (Hk2 : fst (exec SAccept x1) = KNormal \/ fst (exec SAccept x1) = KStuck).
  { cbn [exec]. unfold call. destruct (calls x1); cbn; auto. }
  destruct (exec SAccept x1) as [k2 x2]. cbn [fst snd] in *.
  destruct Hk2 as [->| ->]; cbn [fst snd is_cont]; [|split; [apply Hw; exact Hacc|discriminate]].
  specialize (Hr x2 Hacc). destruct (exec r x2) as [k3 x3]. cbn [fst snd] in *.
  split; [apply Hw; exact Hr|intros _; exact Hr].
Qed.

(* the pieces of (job_prog lim)'s loop body *)
Definition body_a : stmt := SIf CReconf (seq [SLog PNotice TReconfig; SClearReconf; SGids]) (seq []).
Definition body_r (lim : Z) : stmt :=
  match p_body (job_prog lim) with SSeq _ (SSeq _ r) => r | _ => SSkip end.
Lemma body_split : forall lim, p_body (job_prog lim) = SSeq body_a (SSeq SAccept (body_r lim)).
Proof. reflexivity. Qed.

(* ------------------------------------------------------------------------- *)
(* (D) stop                                                                    *)
(* ------------------------------------------------------------------------- *)
Definition dmr (tr : list event) := mon_rev dstep D0 tr.
Definition PDA (gt gr : Z) (tr : list event) : Prop := (gt = 0 /\ dmr tr = Some D0) \/ (gt <> 0 /\ dmr tr = Some D1).
Definition PDB (gt gr : Z) (tr : list event) : Prop :=
  (gt = 0 /\ dmr tr = Some D0) \/ (gt <> 0 /\ (dmr tr = Some D1 \/ dmr tr = Some D2)).
Definition PDE (gt gr : Z) (tr : list event) : Prop := gt <> 0 /\ (dmr tr = Some D1 \/ dmr tr = Some D2).
Definition PDF (gt gr : Z) (tr : list event) : Prop := dmr tr = Some DF.
Definition okkD (k : ekind) : bool := match k with KdAccept | KdFini | KdSig => false | _ => true end.

Ltac d_sig :=
  unfold PDA, PDB, PDE, PDF, dmr; intros gt gr tr s H; cbn [mon_rev];
  repeat match goal with
  | H : _ \/ _ |- _ => destruct H
  | H : _ /\ _ |- _ => destruct H
  end; subst;
  match goal with H : mon_rev dstep D0 tr = _ |- _ => rewrite H end;
  destruct s; cbn [dstep signo]; auto; try (right; split; [lia|auto]); try (split; [lia|auto]).

Lemma PDA_sig : forall gt gr tr s, PDA gt gr tr ->
  PDA (match s with SIGHUP => gt | _ => signo s end) (match s with SIGHUP => signo s | _ => gr end) (ESig s :: tr).
Proof. d_sig. Qed.
Lemma PDB_sig : forall gt gr tr s, PDB gt gr tr ->
  PDB (match s with SIGHUP => gt | _ => signo s end) (match s with SIGHUP => signo s | _ => gr end) (ESig s :: tr).
Proof. d_sig. Qed.
Lemma PDE_sig : forall gt gr tr s, PDE gt gr tr ->
  PDE (match s with SIGHUP => gt | _ => signo s end) (match s with SIGHUP => signo s | _ => gr end) (ESig s :: tr).
Proof. d_sig. Qed.
Lemma PDF_sig : forall gt gr tr s, PDF gt gr tr ->
  PDF (match s with SIGHUP => gt | _ => signo s end) (match s with SIGHUP => signo s | _ => gr end) (ESig s :: tr).
Proof. d_sig. Qed.

Ltac d_ev :=
  unfold PDA, PDB, PDE, PDF, dmr; intros gt gr tr e Hk H; cbn [mon_rev];
  repeat match goal with
  | H : _ \/ _ |- _ => destruct H
  | H : _ /\ _ |- _ => destruct H
  end; subst;
  match goal with H : mon_rev dstep D0 tr = _ |- _ => rewrite H end;
  destruct e; cbn [kind_of okkD] in Hk; try discriminate Hk; cbn [dstep]; auto.

Lemma PDA_ev : forall gt gr tr e, okkD (kind_of e) = true -> PDA gt gr tr -> PDA gt gr (e :: tr).
Proof. d_ev. Qed.
Lemma PDB_ev : forall gt gr tr e, okkD (kind_of e) = true -> PDB gt gr tr -> PDB gt gr (e :: tr).
Proof. d_ev. Qed.
Lemma PDE_ev : forall gt gr tr e, okkD (kind_of e) = true -> PDE gt gr tr -> PDE gt gr (e :: tr).
Proof. d_ev. Qed.

Lemma PDA_clear : true = true -> forall gt gr tr, PDA gt gr tr -> PDA gt 0 tr.
Proof. intros _ gt gr tr H; exact H. Qed.
Lemma PDB_clear : true = true -> forall gt gr tr, PDB gt gr tr -> PDB gt 0 tr.
Proof. intros _ gt gr tr H; exact H. Qed.
Lemma PDE_clear : true = true -> forall gt gr tr, PDE gt gr tr -> PDE gt 0 tr.
Proof. intros _ gt gr tr H; exact H. Qed.

Definition DA_stmt := stmt_keeps PDA PDA_sig okkD true PDA_ev PDA_clear eq_refl.
Definition DB_stmt := stmt_keeps PDB PDB_sig okkD true PDB_ev PDB_clear eq_refl.
Definition DE_stmt := stmt_keeps PDE PDE_sig okkD true PDE_ev PDE_clear eq_refl.
Definition DB_cond := cond_keeps PDB PDB_sig okkD PDB_ev eq_refl.

Lemma DA_DB : forall x, Px PDA x -> Px PDB x.
Proof. unfold Px, PDA, PDB. intros x [H|[H1 H2]]; auto. Qed.
Lemma DE_DB : forall x, Px PDE x -> Px PDB x.
Proof. unfold Px, PDE, PDB. intros x H; auto. Qed.

Lemma d_accept : forall x, Px PDA x -> Px PDB (snd (exec SAccept x)).
Proof.
  intros x H. cbn [exec]. unfold call. destruct (calls x) as [|a cs]; cbn [snd]; [apply DA_DB; exact H|].
  apply (Px_deliver PDB PDB_sig). unfold Px in *. cbn [vs trace].
  assert (Hev : forall e, kind_of e = KdAccept -> PDB (g_term (vs x)) (g_reconf (vs x)) (e :: trace x)).
  { intros e He. unfold PDA, PDB, dmr in *. cbn [mon_rev].
    destruct H as [[H1 H2]|[H1 H2]]; rewrite H2; destruct e; try discriminate He; cbn [dstep]; auto. }
  destruct (a_ret a =? 0); cbn; apply Hev; reflexivity.
Qed.

Definition dQ (k : ctl) (x : st) : Prop :=
  match k with
  | KReturn => dmr (trace x) = Some DF
  | KStuck | KFatal | KSpin => Px PDB x
  | _ => False
  end.

Lemma d_pre : forall lim x, Px PDB x -> match exec (p_pre (job_prog lim)) x with (KNormal, x') => Px PDB x' | (k, x') => dQ k x' end.
Proof.
  intros lim x H. pose proof (DB_stmt (p_pre (job_prog lim)) x eq_refl H) as Hk.
  pose proof (straight_ctl (p_pre (job_prog lim)) x eq_refl) as Hc.
  destruct (exec (p_pre (job_prog lim)) x) as [k x']. cbn [fst snd] in *.
  destruct Hc as [->|[->| ->]]; exact Hk.
Qed.

Lemma d_iter : forall lim x, Px PDB x ->
     match eval_cond (p_cond (job_prog lim)) x with
     | (None, x') => dQ KStuck x'
     | (Some false, x') => Px PDE x'
     | (Some true, x') =>
         match exec (p_body (job_prog lim)) x' with
         | (KNormal, x'') | (KContinue, x'') => Px PDB x''
         | (KBreak, x'') => Px PDE x''
         | (k, x'') => dQ k x''
         end
     end.
Proof.
  intros lim x H. cbn [p_cond job_prog eval_cond].
  pose proof (Px_sync PDB PDB_sig x H) as H1. set (x1 := sync x) in *.
  destruct (g_term (vs x1) =? 0) eqn:Hg; cbn [negb].
  - assert (HA : Px PDA x1).
    { apply Z.eqb_eq in Hg. unfold Px, PDA, PDB in *. rewrite Hg in *. destruct H1 as [H1|[H1 _]]; [left; exact H1|congruence]. }
    rewrite (body_split lim).
    pose proof (seq3 (Px PDA) (Px PDA) (Px PDB) (Px PDB) body_a (body_r lim) eq_refl) as S3.
    specialize (S3 (fun y Hy => conj (fun _ => DA_stmt body_a y eq_refl Hy) (DA_DB _ (DA_stmt body_a y eq_refl Hy)))
                   d_accept (fun y Hy => DB_stmt (body_r lim) y eq_refl Hy) (fun y Hy => Hy) x1 HA).
    pose proof (no_jump_ctl (SSeq body_a (SSeq SAccept (body_r lim))) x1 eq_refl) as [J1 [J2 J3]].
    destruct (exec (SSeq body_a (SSeq SAccept (body_r lim))) x1) as [k x2]. cbn [fst snd] in *. destruct S3 as [S3 S4].
    destruct k; cbn [is_cont dQ] in *; try congruence; auto.
  - apply Z.eqb_neq in Hg. unfold Px, PDE, PDB in *. destruct H1 as [[H1 _]|H1]; [congruence|exact H1].
Qed.

Lemma d_post : forall lim x, Px PDE x -> dQ (fst (exec (p_post (job_prog lim)) x)) (snd (exec (p_post (job_prog lim)) x)).
Proof.
  intros lim x H. cbn [p_post job_prog seq]. cbn [exec].
  pose proof (DE_stmt (SLog PNotice TExiting) x eq_refl H) as H1.
  pose proof (straight_ctl (SLog PNotice TExiting) x eq_refl) as Hc.
  cbn [exec] in H1, Hc.
  destruct (void_call (fun v => ELog PNotice TExiting (log_arg TExiting v)) (fun v => v) (if reads_flag TExiting then sync x else x))
    as [k x1]. cbn [fst snd] in *.
  destruct Hc as [->|[->| ->]]; cbn [fst snd dQ]; try (apply DE_DB; exact H1).
  unfold void_call, call. destruct (calls x1) as [|a cs]; cbn [fst snd dQ]; [apply DE_DB; exact H1|].
  apply (Px_deliver PDF PDF_sig). unfold Px, PDF, PDE, dmr in *. cbn [vs trace mon_rev].
  destruct H1 as [_ [H1|H1]]; rewrite H1; reflexivity.
Qed.

Lemma d_spin : forall x, Px PDB x -> dQ KSpin x.
Proof. intros x H; exact H. Qed.

Theorem stop : forall lim isigs cs rs, stop_ok (snd (run (job_prog lim) isigs cs rs)) (fst (run (job_prog lim) isigs cs rs)) = true.
Proof.
  intros. unfold run.
  assert (H : dQ (fst (run_from (job_prog lim) (deliver isigs (init cs rs)))) (snd (run_from (job_prog lim) (deliver isigs (init cs rs))))).
  { apply run_from_rule with (I0 := Px PDB) (I := Px PDB) (Ie := Px PDE); [exact (d_pre lim)|exact d_spin|exact (d_iter lim)|exact (d_post lim)|].
    apply (Px_deliver PDB PDB_sig). left. split; reflexivity. }
  destruct (run_from (job_prog lim) (deliver isigs (init cs rs))) as [k x]. cbn [fst snd] in *.
  unfold stop_ok. rewrite mon_rev_spec. fold (dmr (trace x)).
  destruct k; cbn [dQ] in H; try contradiction; try (rewrite H; reflexivity);
    unfold Px, PDB in H; destruct H as [[_ H]|[_ [H|H]]]; rewrite H; reflexivity.
Qed.

(* ------------------------------------------------------------------------- *)
(* (E) SIGHUP                                                                  *)
(* ------------------------------------------------------------------------- *)
Definition emr (tr : list event) := mon_rev estep None tr.
Definition PG1 (gt gr : Z) (tr : list event) : Prop :=
  emr tr = Some None \/ exists k, emr tr = Some (Some k) /\ (k <= 1)%nat /\ gr <> 0.
Definition PG0 (gt gr : Z) (tr : list event) : Prop := emr tr = Some None \/ (emr tr = Some (Some 0%nat) /\ gr <> 0).
Definition PW (gt gr : Z) (tr : list event) : Prop := emr tr = Some None \/ exists k, emr tr = Some (Some k) /\ (k <= 1)%nat.
Definition okkE (k : ekind) : bool := match k with KdAccept | KdGids | KdSig => false | _ => true end.

Ltac e_open :=
  unfold PG1, PG0, PW, emr in *; cbn [mon_rev];
  repeat match goal with
  | H : _ \/ _ |- _ => destruct H
  | H : _ /\ _ |- _ => destruct H
  | H : exists _, _ |- _ => destruct H
  end; subst;
  match goal with H : mon_rev estep None _ = _ |- _ => rewrite H end.

Lemma PG1_sig : forall gt gr tr s, PG1 gt gr tr ->
  PG1 (match s with SIGHUP => gt | _ => signo s end) (match s with SIGHUP => signo s | _ => gr end) (ESig s :: tr).
Proof.
  intros gt gr tr s H; e_open; destruct s; cbn [estep signo]; auto.
  - right. exists 0%nat. repeat split; auto; lia.
  - right. exists x. repeat split; auto; lia.
  - right. exists x. repeat split; auto.
  - right. exists x. repeat split; auto.
Qed.
Lemma PG0_sig : forall gt gr tr s, PG0 gt gr tr ->
  PG0 (match s with SIGHUP => gt | _ => signo s end) (match s with SIGHUP => signo s | _ => gr end) (ESig s :: tr).
Proof.
  intros gt gr tr s H; e_open; destruct s; cbn [estep signo]; auto; right; split; auto; lia.
Qed.
Lemma PW_sig : forall gt gr tr s, PW gt gr tr ->
  PW (match s with SIGHUP => gt | _ => signo s end) (match s with SIGHUP => signo s | _ => gr end) (ESig s :: tr).
Proof.
  intros gt gr tr s H; e_open; destruct s; cbn [estep signo]; auto.
  - right. exists 0%nat. split; auto.
  - right. exists x. split; auto.
  - right. exists x. split; auto.
  - right. exists x. split; auto.
Qed.

Lemma PG1_ev : forall gt gr tr e, okkE (kind_of e) = true -> PG1 gt gr tr -> PG1 gt gr (e :: tr).
Proof.
  intros gt gr tr e Hk H; e_open; destruct e; cbn [kind_of okkE] in Hk; try discriminate Hk; cbn [estep]; auto;
    right; exists x; repeat split; auto.
Qed.
Lemma PG1_clear : false = true -> forall gt gr tr, PG1 gt gr tr -> PG1 gt 0 tr.
Proof. discriminate. Qed.

Definition G1_stmt := stmt_keeps PG1 PG1_sig okkE false PG1_ev PG1_clear eq_refl.
Definition G1_cond := cond_keeps PG1 PG1_sig okkE PG1_ev eq_refl.

Lemma G1_W : forall x, Px PG1 x -> Px PW x.
Proof. unfold Px, PG1, PW. intros x [H|[k [H1 [H2 _]]]]; [left; exact H|right; exists k; auto]. Qed.
Lemma G0_W : forall x, Px PG0 x -> Px PW x.
Proof. unfold Px, PG0, PW. intros x [H|[H1 _]]; [left; exact H|right; exists 0%nat; auto]. Qed.

Lemma exec_clear : forall x, exec SClearReconf x = (KNormal, with_vars (set_reconf 0) (sync x)).
Proof. reflexivity. Qed.
Lemma exec_gids : forall x, exec SGids x = void_call (fun _ => EGids) (fun v => v) x.
Proof. reflexivity. Qed.
Lemma exec_skip : forall x, exec SSkip x = (KNormal, x).
Proof. reflexivity. Qed.

Lemma e_a : forall x, Px PG1 x ->
  (fst (exec body_a x) = KNormal -> Px PG0 (snd (exec body_a x))) /\ Px PW (snd (exec body_a x)).
Proof.
  intros x H. unfold body_a. cbn [exec eval_cond].
  pose proof (Px_sync PG1 PG1_sig x H) as H1. set (x1 := sync x) in *.
  destruct (g_reconf (vs x1) =? 0) eqn:Hg; cbn [negb].
  - cbn [seq exec fst snd]. apply Z.eqb_eq in Hg. split; [intros _|apply G1_W; exact H1].
    unfold Px, PG1, PG0 in *. destruct H1 as [H1|[k [_ [_ H1]]]]; [left; exact H1|congruence].
  - cbn [seq]. rewrite exec_seq.
    pose proof (G1_stmt (SLog PNotice TReconfig) x1 eq_refl H1) as H2.
    pose proof (straight_ctl (SLog PNotice TReconfig) x1 eq_refl) as Hc.
    destruct (exec (SLog PNotice TReconfig) x1) as [k x2]. cbn [fst snd] in *.
    destruct Hc as [->|[->| ->]]; cbn [fst snd]; try (split; [discriminate|apply G1_W; exact H2]).
    rewrite exec_seq, exec_clear.
    pose proof (Px_sync PG1 PG1_sig x2 H2) as H3. apply G1_W in H3.
    set (x3 := with_vars (set_reconf 0) (sync x2)).
    assert (HW : Px PW x3) by exact H3.
    fold x3. cbv iota. rewrite exec_seq, exec_gids. unfold void_call, call.
    destruct (calls x3) as [|a cs]; [cbn [fst snd]; split; [discriminate|exact HW]|]. rewrite exec_skip. cbn [fst snd].
    assert (HG : Px PG0 (deliver (a_sigs a) (mks (vs x3) cs (reads x3) (rdx x3) (EGids :: trace x3)))).
    { apply (Px_deliver PG0 PG0_sig). unfold Px, PG0, PW, emr in *. cbn [vs trace mon_rev].
      destruct HW as [HW|[k [HW _]]]; rewrite HW; left; reflexivity. }
    split; [intros _; exact HG|apply G0_W; exact HG].
Qed.

Lemma e_accept : forall x, Px PG0 x -> Px PG1 (snd (exec SAccept x)).
Proof.
  intros x H. cbn [exec]. unfold call. destruct (calls x) as [|a cs]; cbn [snd].
  - unfold Px, PG0, PG1 in *. destruct H as [H|[H1 H2]]; [left; exact H|right; exists 0%nat; auto].
  - apply (Px_deliver PG1 PG1_sig). unfold Px in *. cbn [vs trace].
    assert (Hev : forall e, kind_of e = KdAccept -> PG1 (g_term (vs x)) (g_reconf (vs x)) (e :: trace x)).
    { intros e He. unfold PG0, PG1, emr in *. cbn [mon_rev].
      destruct H as [H|[H1 H2]]; [rewrite H|rewrite H1]; destruct e; try discriminate He; cbn [estep]; auto;
        right; exists 1%nat; auto. }
    destruct (a_ret a =? 0); cbn; apply Hev; reflexivity.
Qed.

Definition eQ (k : ctl) (x : st) : Prop := Px PW x.

Lemma e_pre : forall lim x, Px PG1 x -> match exec (p_pre (job_prog lim)) x with (KNormal, x') => Px PG1 x' | (k, x') => eQ k x' end.
Proof.
  intros lim x H. pose proof (G1_stmt (p_pre (job_prog lim)) x eq_refl H) as Hk.
  destruct (exec (p_pre (job_prog lim)) x) as [k x']. cbn [fst snd] in *.
  destruct k; try exact Hk; apply G1_W; exact Hk.
Qed.

Lemma e_iter : forall lim x, Px PG1 x ->
     match eval_cond (p_cond (job_prog lim)) x with
     | (None, x') => eQ KStuck x'
     | (Some false, x') => Px PG1 x'
     | (Some true, x') =>
         match exec (p_body (job_prog lim)) x' with
         | (KNormal, x'') | (KContinue, x'') => Px PG1 x''
         | (KBreak, x'') => Px PG1 x''
         | (k, x'') => eQ k x''
         end
     end.
Proof.
  intros lim x H. pose proof (G1_cond (p_cond (job_prog lim)) x H) as H1.
  destruct (eval_cond (p_cond (job_prog lim)) x) as [[[|]|] x1]; cbn [snd] in H1; try exact H1; [|apply G1_W; exact H1].
  rewrite (body_split lim).
  pose proof (seq3 (Px PG1) (Px PG0) (Px PG1) (Px PW) body_a (body_r lim) eq_refl e_a e_accept
                   (fun y Hy => G1_stmt (body_r lim) y eq_refl Hy) G1_W x1 H1) as [S3 S4].
  pose proof (no_jump_ctl (SSeq body_a (SSeq SAccept (body_r lim))) x1 eq_refl) as [J1 [J2 J3]].
  destruct (exec (SSeq body_a (SSeq SAccept (body_r lim))) x1) as [k x2]. cbn [fst snd] in *.
  destruct k; cbn [is_cont eQ] in *; try congruence; auto.
Qed.

Lemma e_post : forall lim x, Px PG1 x -> eQ (fst (exec (p_post (job_prog lim)) x)) (snd (exec (p_post (job_prog lim)) x)).
Proof. intros lim x H. apply G1_W. apply (G1_stmt (p_post (job_prog lim)) x eq_refl H). Qed.

Theorem sighup : forall lim isigs cs rs, sighup_ok (snd (run (job_prog lim) isigs cs rs)) = true.
Proof.
  intros. unfold run.
  assert (H : eQ (fst (run_from (job_prog lim) (deliver isigs (init cs rs)))) (snd (run_from (job_prog lim) (deliver isigs (init cs rs))))).
  { apply run_from_rule with (I0 := Px PG1) (I := Px PG1) (Ie := Px PG1); [exact (e_pre lim)|exact G1_W|exact (e_iter lim)|exact (e_post lim)|].
    apply (Px_deliver PG1 PG1_sig). left. reflexivity. }
  destruct (run_from (job_prog lim) (deliver isigs (init cs rs))) as [k x]. cbn [fst snd] in *.
  unfold sighup_ok. rewrite mon_rev_spec. fold (emr (trace x)).
  unfold eQ, Px, PW in H. destruct H as [H|[n [H _]]]; rewrite H; reflexivity.
Qed.

(* ------------------------------------------------------------------------- *)
(* for the program translated from the source                                  *)
(* ------------------------------------------------------------------------- *)
Lemma handoff_for : forall p lim, p = job_prog lim ->
  forall isigs cs rs, handoff_ok (snd (run p isigs cs rs)) (fst (run p isigs cs rs)) = true.
Proof. intros p lim ->. exact (handoff lim). Qed.
Lemma backlog_for : forall p lim, p = job_prog lim ->
  forall isigs cs rs, backlog_ok (snd (run p isigs cs rs)) (fst (run p isigs cs rs)) = true.
Proof. intros p lim ->. exact (backlog lim). Qed.
Lemma stop_for : forall p lim, p = job_prog lim ->
  forall isigs cs rs, stop_ok (snd (run p isigs cs rs)) (fst (run p isigs cs rs)) = true.
Proof. intros p lim ->. exact (stop lim). Qed.
Lemma sighup_for : forall p lim, p = job_prog lim ->
  forall isigs cs rs, sighup_ok (snd (run p isigs cs rs)) = true.
Proof. intros p lim ->. exact (sighup lim). Qed.

(* SIGTERM's handler runs after the loop test, accept () is entered all the same (and returns
   here only because a client connects): the window of finding F-C12-accept *)
Definition window_reads (n : nat) : list sig := match n with 1%nat => [SIGTERM] | _ => [] end.
Lemma accept_after_stop : exists cs rs l1 l2 fd,
  snd (run job_ref [] cs rs) = l1 ++ ESig SIGTERM :: EAcceptConn fd :: l2.
Proof.
  exists [mka 0 []; mka 0 []; mka 0 []], window_reads, [EInit true; ELog PInfo TCreated 0], [], first_fd.
  vm_compute. reflexivity.
Qed.

(* ------------------------------------------------------------------------- *)
(* (P) progress                                                                *)
(* ------------------------------------------------------------------------- *)
Lemma pstep_sig : forall m s, pstep m (ESig s) = Some m.
Proof. reflexivity. Qed.

Definition pm (x : st) := mon_rev pstep O (trace x).
Definition pI (x : st) : Prop := 0 <= v_nextfd (vs x) /\ exists n, pm x = Some n /\ (n <= 6)%nat.
Definition pQ (k : ctl) (x : st) : Prop := pm x <> None.

Ltac p_leaves Hm Hn n :=
  repeat first [rewrite (mon_rev_sigev _ pstep pstep_sig) | rewrite mon_rev_cons];
  rewrite Hm;
  destruct n as [|[|[|[|[|[|[|n]]]]]]]; [| | | | | | |exfalso; lia];
  cbn [pstep Nat.ltb Nat.leb progress_bound];
  try discriminate;
  try (split; [lia | eexists; split; [reflexivity | lia]]).

Lemma p_iter : forall lim x, pI x ->
     match eval_cond (p_cond (job_prog lim)) x with
     | (None, x') => pQ KStuck x'
     | (Some false, x') => pI x'
     | (Some true, x') =>
         match exec (p_body (job_prog lim)) x' with
         | (KNormal, x'') | (KContinue, x'') => pI x''
         | (KBreak, x'') => pI x''
         | (k, x'') => pQ k x''
         end
     end.
Proof.
  intros lim [[gt gr sd e ce ct le lt m nf] cs rs n tr] [Hnf [k [Hm Hn]]].
  unfold pI, pQ, pm in *. cbn [trace vs v_nextfd] in *.
  model_red. repeat sym_step.
  all: p_leaves Hm Hn k.
Qed.

Definition pI0 (x : st) : Prop := 0 <= v_nextfd (vs x) /\ pm x = Some O.

Lemma p_pre : forall lim x, pI0 x -> match exec (p_pre (job_prog lim)) x with (KNormal, x') => pI x' | (k, x') => pQ k x' end.
Proof.
  intros lim [[gt gr sd e ce ct le lt m nf] cs rs n tr] [Hnf Hm].
  unfold pI, pQ, pm in *. cbn [trace vs v_nextfd] in *.
  model_red. repeat sym_step.
  all: repeat first [rewrite (mon_rev_sigev _ pstep pstep_sig) | rewrite mon_rev_cons]; rewrite Hm;
       cbn [pstep Nat.ltb Nat.leb progress_bound]; try discriminate;
       try (split; [lia | eexists; split; [reflexivity | lia]]).
Qed.

Lemma p_post : forall lim x, pI x -> pQ (fst (exec (p_post (job_prog lim)) x)) (snd (exec (p_post (job_prog lim)) x)).
Proof.
  intros lim [[gt gr sd e ce ct le lt m nf] cs rs n tr] [Hnf [k [Hm Hn]]].
  unfold pI, pQ, pm in *. cbn [trace vs v_nextfd] in *.
  model_red. repeat sym_step.
  all: cbn [fst snd trace]; p_leaves Hm Hn k.
Qed.

Lemma p_spin : forall x, pI x -> pQ KSpin x.
Proof. intros x [_ [n [Hm _]]]. unfold pQ. rewrite Hm. discriminate. Qed.

Theorem progress : forall lim isigs cs rs, progress_ok (snd (run (job_prog lim) isigs cs rs)) = true.
Proof.
  intros. unfold run.
  assert (H : pQ (fst (run_from (job_prog lim) (deliver isigs (init cs rs)))) (snd (run_from (job_prog lim) (deliver isigs (init cs rs))))).
  { apply run_from_rule with (I0 := pI0) (I := pI) (Ie := pI); [exact (p_pre lim)|exact p_spin|exact (p_iter lim)|exact (p_post lim)|].
    rewrite init_eq. split; [cbn; unfold first_fd; lia|]. unfold pm. cbn [trace].
    rewrite (mon_rev_sigev _ pstep pstep_sig). reflexivity. }
  destruct (run_from (job_prog lim) (deliver isigs (init cs rs))) as [k x]. cbn [fst snd] in *.
  unfold progress_ok, pQ, pm in *. rewrite mon_rev_spec. destruct (mon_rev pstep 0%nat (trace x)); [reflexivity|congruence].
Qed.

Lemma progress_for : forall p lim, p = job_prog lim ->
  forall isigs cs rs, progress_ok (snd (run p isigs cs rs)) = true.
Proof. intros p lim ->. exact (progress lim). Qed.
