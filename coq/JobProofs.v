(* JobProofs.v — proofs about the acceptor program job_ref (JobModel), for every environment:
   every list of answers to its calls, every placement of signal deliveries.            *)
From Coq Require Import List ZArith Bool Lia Arith.
From MV Require Import JobModel.
Import ListNotations.
Local Open Scope Z_scope.

(* ------------------------------------------------------------------------- *)
(* monitors                                                                   *)
(* ------------------------------------------------------------------------- *)
Lemma mon_app : forall M (step : M -> event -> option M) l1 l2 s,
  mon step s (l1 ++ l2) = match mon step s l1 with Some s' => mon step s' l2 | None => None end.
Proof.
  induction l1 as [|e l1 IH]; intros l2 s; cbn; [reflexivity|].
  destruct (step s e); [apply IH|reflexivity].
Qed.

Lemma mon_rev_spec : forall M (step : M -> event -> option M) t s0, mon step s0 (rev t) = mon_rev step s0 t.
Proof.
  induction t as [|e t IH]; intros s0; cbn; [reflexivity|].
  rewrite mon_app, IH. destruct (mon_rev step s0 t); cbn; [|reflexivity].
  destruct (step m e); reflexivity.
Qed.

Lemma mon_rev_cons : forall M (step : M -> event -> option M) s0 e t,
  mon_rev step s0 (e :: t) = match mon_rev step s0 t with Some s => step s e | None => None end.
Proof. reflexivity. Qed.

Lemma mon_rev_app : forall M (step : M -> event -> option M) s0 a t,
  mon_rev step s0 (a ++ t) = match mon_rev step s0 t with Some s => mon_rev step s a | None => None end.
Proof.
  induction a as [|e a IH]; intros t; cbn.
  - destruct (mon_rev step s0 t); reflexivity.
  - rewrite IH. destruct (mon_rev step s0 t); reflexivity.
Qed.

(* ------------------------------------------------------------------------- *)
(* signal delivery in closed form                                              *)
(* ------------------------------------------------------------------------- *)
Definition ft (l : list sig) (g : Z) : Z := fold_left (fun g s => match s with SIGHUP => g | _ => signo s end) l g.
Definition fr (l : list sig) (g : Z) : Z := fold_left (fun g s => match s with SIGHUP => signo s | _ => g end) l g.
Definition sigev (l : list sig) : list event := rev (map ESig l).

Lemma deliver_eq : forall l gt gr sd e ce ct le lt m nf cs rs n tr,
  deliver l (mks (mkv gt gr sd e ce ct le lt m nf) cs rs n tr) =
  mks (mkv (ft l gt) (fr l gr) sd e ce ct le lt m nf) cs rs n (sigev l ++ tr).
Proof.
  unfold deliver, ft, fr, sigev.
  induction l as [|s l IH]; intros; cbn [fold_left map rev app]; [reflexivity|].
  destruct s; unfold deliver1 at 2, set_term, set_reconf;
    cbn [vs calls reads rdx trace g_term g_reconf v_sd v_errno v_cerrno v_ctime v_lerrno v_ltime v_msg v_nextfd signo];
    rewrite IH, <- app_assoc; reflexivity.
Qed.

Lemma mon_rev_sigev : forall M (step : M -> event -> option M),
  (forall m s, step m (ESig s) = Some m) ->
  forall l s0 t, mon_rev step s0 (sigev l ++ t) = mon_rev step s0 t.
Proof.
  intros M step H l s0 t. rewrite mon_rev_app. destruct (mon_rev step s0 t) as [m|]; [|reflexivity].
  unfold sigev. rewrite <- mon_rev_spec, rev_involutive.
  induction l as [|s l IH]; cbn; [reflexivity|]. rewrite H. exact IH.
Qed.

Lemma hstep_sig : forall m s, hstep m (ESig s) = Some m.
Proof. reflexivity. Qed.
Lemma bstep_sig : forall m s, bstep m (ESig s) = Some m.
Proof. reflexivity. Qed.

(* ------------------------------------------------------------------------- *)
(* loop rules                                                                  *)
(* ------------------------------------------------------------------------- *)
(* with a measure: the loop never reports a busy iteration *)
Lemma loop_rule_dec : forall (I : st -> Prop) (Q : ctl -> st -> Prop) c body,
  (forall x, I x ->
     match eval_cond c x with
     | None => Q KStuck x
     | Some (false, x') => Q KNormal x'
     | Some (true, x') =>
         match exec body x' with
         | (KNormal, x'') | (KContinue, x'') => I x'' /\ (length (calls x'') < length (calls x))%nat
         | (KBreak, x'') => Q KNormal x''
         | (k, x'') => Q k x''
         end
     end) ->
  forall fuel x, I x -> (length (calls x) < fuel)%nat ->
  Q (fst (loop fuel c body x)) (snd (loop fuel c body x)).
Proof.
  intros I Q c body H. induction fuel as [|f IH]; intros x HI Hf; [lia|].
  cbn [loop]. specialize (H x HI).
  destruct (eval_cond c x) as [[[|] x']|]; cbn [fst snd]; try exact H.
  destruct (exec body x') as [k x'']; destruct k; cbn [fst snd]; try exact H.
  - destruct H as [HI' Hl]. destruct (Nat.ltb_spec (length (calls x'')) (length (calls x))); [|lia].
    apply IH; [exact HI'|lia].
  - destruct H as [HI' Hl]. destruct (Nat.ltb_spec (length (calls x'')) (length (calls x))); [|lia].
    apply IH; [exact HI'|lia].
Qed.

(* without: a busy iteration ends the run as KSpin *)
Lemma loop_rule : forall (I : st -> Prop) (Q : ctl -> st -> Prop) c body,
  (forall x, I x -> Q KSpin x) ->
  (forall x, I x ->
     match eval_cond c x with
     | None => Q KStuck x
     | Some (false, x') => Q KNormal x'
     | Some (true, x') =>
         match exec body x' with
         | (KNormal, x'') | (KContinue, x'') => I x''
         | (KBreak, x'') => Q KNormal x''
         | (k, x'') => Q k x''
         end
     end) ->
  forall fuel x, I x -> Q (fst (loop fuel c body x)) (snd (loop fuel c body x)).
Proof.
  intros I Q c body Hs H. induction fuel as [|f IH]; intros x HI; [cbn; auto|].
  cbn [loop]. specialize (H x HI).
  destruct (eval_cond c x) as [[[|] x']|]; cbn [fst snd]; try exact H.
  destruct (exec body x') as [k x'']; destruct k; cbn [fst snd]; try exact H.
  - destruct (length (calls x'') <? length (calls x))%nat; [apply IH; exact H|cbn; auto].
  - destruct (length (calls x'') <? length (calls x))%nat; [apply IH; exact H|cbn; auto].
Qed.
Ltac model_red :=
  cbv beta iota zeta delta [exec eval_cond call void_call sync with_vars keep msgfd log_arg reads_flag
    set_term set_reconf set_sd set_errno set_cerrno set_ctime set_lerrno set_ltime set_msg set_nextfd
    vs calls reads rdx trace g_term g_reconf v_sd v_errno v_cerrno v_ctime v_lerrno v_ltime v_msg v_nextfd
    a_ret a_sigs seq job_ref p_pre p_cond p_body p_post log_limit_secs clobber]; cbn [negb].

Ltac closed_errno :=
  repeat match goal with
  | |- context [existsb (errno_eqb ?e) ?l] =>
      let b := eval vm_compute in (existsb (errno_eqb e) l) in change (existsb (errno_eqb e) l) with b
  | |- context [errno_eqb ?a ?b] =>
      let b' := eval vm_compute in (errno_eqb a b) in change (errno_eqb a b) with b'
  end.

Ltac strip_negb b := lazymatch b with negb ?c => strip_negb c | _ => b end.

Ltac if_step :=
  match goal with
  | H : 0 <= ?nf |- context [?nf <? 0] => replace (nf <? 0) with false by (symmetry; apply Z.ltb_ge; exact H)
  | |- context [-1 <? 0] => change (-1 <? 0) with true
  | |- context [if ?b then _ else _] => lazymatch b with context [deliver _ _] => fail | _ => let c := strip_negb b in destruct c eqn:? end
  end.

Ltac sym_step :=
  first
  [ rewrite deliver_eq
  | match goal with
    | |- context [match ?cs with nil => _ | cons _ _ => _ end] => is_var cs; destruct cs as [|[? ?] ?]
    end
  | if_step ]; model_red.


(* ------------------------------------------------------------------------- *)
(* pre; while; post                                                            *)
(* ------------------------------------------------------------------------- *)
Definition at_loop (I : st -> Prop) (Q : ctl -> st -> Prop) (k : ctl) (x : st) : Prop :=
  match k with KNormal => I x | _ => Q k x end.

Lemma run_from_rule : forall (I : st -> Prop) (Q : ctl -> st -> Prop) p,
  (forall x, I x -> match exec (p_pre p) x with (KNormal, x') => I x' | (k, x') => Q k x' end) ->
  (forall x, I x -> Q KSpin x) ->
  (forall x, I x ->
     match eval_cond (p_cond p) x with
     | None => Q KStuck x
     | Some (false, x') => I x'
     | Some (true, x') =>
         match exec (p_body p) x' with
         | (KNormal, x'') | (KContinue, x'') => I x''
         | (KBreak, x'') => I x''
         | (k, x'') => Q k x''
         end
     end) ->
  (forall x, I x -> Q (fst (exec (p_post p) x)) (snd (exec (p_post p) x))) ->
  forall x, I x -> Q (fst (run_from p x)) (snd (run_from p x)).
Proof.
  intros I Q p Hpre Hspin Hit Hpost x HI. unfold run_from.
  specialize (Hpre x HI). destruct (exec (p_pre p) x) as [k x1]. destruct k; cbn [fst snd]; try exact Hpre.
  assert (HL : at_loop I Q (fst (loop (S (length (calls x1))) (p_cond p) (p_body p) x1))
                           (snd (loop (S (length (calls x1))) (p_cond p) (p_body p) x1))).
  { apply loop_rule with (I := I); [exact Hspin| |exact Hpre].
    intros y Hy. specialize (Hit y Hy). destruct (eval_cond (p_cond p) y) as [[[|] y']|]; try exact Hit.
    destruct (exec (p_body p) y') as [k y'']; destruct k; exact Hit. }
  destruct (loop (S (length (calls x1))) (p_cond p) (p_body p) x1) as [k x2]. cbn [fst snd] in HL.
  destruct k; cbn [at_loop fst snd] in *; try exact HL. apply Hpost; exact HL.
Qed.

Lemma run_from_rule_dec : forall (I : st -> Prop) (Q : ctl -> st -> Prop) p,
  (forall x, I x -> match exec (p_pre p) x with (KNormal, x') => I x' | (k, x') => Q k x' end) ->
  (forall x, I x ->
     match eval_cond (p_cond p) x with
     | None => Q KStuck x
     | Some (false, x') => I x'
     | Some (true, x') =>
         match exec (p_body p) x' with
         | (KNormal, x'') | (KContinue, x'') => I x'' /\ (length (calls x'') < length (calls x))%nat
         | (KBreak, x'') => I x''
         | (k, x'') => Q k x''
         end
     end) ->
  (forall x, I x -> Q (fst (exec (p_post p) x)) (snd (exec (p_post p) x))) ->
  forall x, I x -> Q (fst (run_from p x)) (snd (run_from p x)).
Proof.
  intros I Q p Hpre Hit Hpost x HI. unfold run_from.
  specialize (Hpre x HI). destruct (exec (p_pre p) x) as [k x1]. destruct k; cbn [fst snd]; try exact Hpre.
  assert (HL : at_loop I Q (fst (loop (S (length (calls x1))) (p_cond p) (p_body p) x1))
                           (snd (loop (S (length (calls x1))) (p_cond p) (p_body p) x1))).
  { apply loop_rule_dec with (I := I); [|exact Hpre|lia].
    intros y Hy. specialize (Hit y Hy). destruct (eval_cond (p_cond p) y) as [[[|] y']|]; try exact Hit.
    destruct (exec (p_body p) y') as [k y'']; destruct k; exact Hit. }
  destruct (loop (S (length (calls x1))) (p_cond p) (p_body p) x1) as [k x2]. cbn [fst snd] in HL.
  destruct k; cbn [at_loop fst snd] in *; try exact HL. apply Hpost; exact HL.
Qed.

(* ------------------------------------------------------------------------- *)
(* (A) hand-off                                                                *)
(* ------------------------------------------------------------------------- *)
Definition hm (x : st) := mon_rev hstep HIdle (trace x).
Definition hI (x : st) : Prop := 0 <= v_nextfd (vs x) /\ exists h, hm x = Some h /\ (forall f, h <> HConn f).
Definition hQ (k : ctl) (x : st) : Prop :=
  match hm x with Some (HConn _) => ended k = false | Some _ => True | None => False end.

Ltac h_leaves Hm Hh h :=
  repeat first [rewrite (mon_rev_sigev _ hstep hstep_sig) | rewrite mon_rev_cons];
  rewrite Hm; destruct h; try (exfalso; eapply Hh; reflexivity);
  cbn [hstep]; rewrite ?Z.eqb_refl; cbn [hstep ended];
  try exact I; try reflexivity;
  try (split; [lia | eexists; split; [reflexivity | intros; discriminate]]).

Lemma h_iter : forall x, hI x ->
     match eval_cond (p_cond job_ref) x with
     | None => hQ KStuck x
     | Some (false, x') => hI x'
     | Some (true, x') =>
         match exec (p_body job_ref) x' with
         | (KNormal, x'') | (KContinue, x'') => hI x''
         | (KBreak, x'') => hI x''
         | (k, x'') => hQ k x''
         end
     end.
Proof.
  intros [[gt gr sd e ce ct le lt m nf] cs rs n tr] [Hnf [h [Hm Hh]]].
  unfold hI, hQ, hm in *. cbn [trace vs v_nextfd] in *.
  model_red. repeat sym_step.
  all: h_leaves Hm Hh h.
Qed.

Lemma h_pre : forall x, hI x -> match exec (p_pre job_ref) x with (KNormal, x') => hI x' | (k, x') => hQ k x' end.
Proof.
  intros [[gt gr sd e ce ct le lt m nf] cs rs n tr] [Hnf [h [Hm Hh]]].
  unfold hI, hQ, hm in *. cbn [trace vs v_nextfd] in *.
  model_red. repeat sym_step.
  all: h_leaves Hm Hh h.
Qed.

Lemma h_post : forall x, hI x -> hQ (fst (exec (p_post job_ref) x)) (snd (exec (p_post job_ref) x)).
Proof.
  intros [[gt gr sd e ce ct le lt m nf] cs rs n tr] [Hnf [h [Hm Hh]]].
  unfold hI, hQ, hm in *. cbn [trace vs v_nextfd] in *.
  model_red. repeat sym_step.
  all: cbn [fst snd trace]; h_leaves Hm Hh h.
Qed.

Lemma h_spin : forall x, hI x -> hQ KSpin x.
Proof. intros x [_ [h [Hm Hh]]]. unfold hQ. rewrite Hm. destruct h; auto. Qed.

Lemma init_eq : forall isigs cs rs,
  deliver isigs (init cs rs) = mks (mkv (ft isigs 0) (fr isigs 0) (-1) E0 E0 0 E0 0 None first_fd) cs rs 0%nat (sigev isigs ++ []).
Proof. intros. unfold init, init_vars. apply deliver_eq. Qed.

Theorem handoff : forall isigs cs rs, handoff_ok (snd (run job_ref isigs cs rs)) (fst (run job_ref isigs cs rs)) = true.
Proof.
  intros. unfold run.
  assert (H : hQ (fst (run_from job_ref (deliver isigs (init cs rs)))) (snd (run_from job_ref (deliver isigs (init cs rs))))).
  { apply run_from_rule with (I := hI); [exact h_pre|exact h_spin|exact h_iter|exact h_post|].
    rewrite init_eq. split; [cbn; unfold first_fd; lia|]. exists HIdle. unfold hm. cbn [trace].
    rewrite (mon_rev_sigev _ hstep hstep_sig). split; [reflexivity|intros; discriminate]. }
  destruct (run_from job_ref (deliver isigs (init cs rs))) as [k x]. cbn [fst snd] in *.
  unfold handoff_ok, hQ, hm in *. rewrite mon_rev_spec.
  destruct (mon_rev hstep HIdle (trace x)) as [[| | |]|]; try reflexivity; [|contradiction].
  rewrite H. reflexivity.
Qed.
