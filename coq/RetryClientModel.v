(* RetryClientModel.v — libmunge's transaction loop m_msg_client_xfer (src/libmunge/m_msg_client.c) with the state of
   every attempt made explicit: which messages are allocated, which socket each of them holds, which sockets are
   open, the two pointer variables mreq / mrsp, the retry counter, the attempt counter.  No proofs here.

   The loop is not written down here by hand: `xprog` is a small abstract syntax for exactly the statement forms the
   function uses, and the program that is interpreted is GENERATED FROM THE SOURCE TEXT on every run
   (tools/facts/retryloop.py -> gen/GenRetryLoop.v, `src_xfer`).  A change of the clean-up between two attempts, of the
   order of the calls, of a break condition or of the hand-over to the caller changes the program the theorems are
   about; a statement form the translator does not know stops the check.

   The interpreter detects what C leaves undefined: use or free of a message that is not allocated (use after free,
   double free), use of a NULL / uninitialised pointer, close or use of a socket that is not open (double close), a
   failing assert of the source, and a loop that does not end.  The trace alphabet is the one harness/c13_shims.c
   records from the running library, so that model and implementation are compared event by event. *)
From Coq Require Import List NArith Bool Arith.
Import ListNotations.

(* ------------------------------------------------------------------ syntax *)
Inductive var := Vreq | Vrsp.                       (* the locals mreq and mrsp *)

Inductive call :=
| KConnect (v : var)              (* (e = _m_msg_client_connect (v, socket)) != EMUNGE_SUCCESS *)
| KSend (v : var)                 (* (e = m_msg_send (v, mreq_type, MUNGE_MAXIMUM_REQ_LEN)) != EMUNGE_SUCCESS *)
| KAuth (v : var)                 (* auth_send (v) < 0 *)
| KCreate (v : var)               (* (e = m_msg_create (&v)) != EMUNGE_SUCCESS *)
| KBind (v w : var)               (* (e = m_msg_bind (v, w->sd)) != EMUNGE_SUCCESS *)
| KRecv (v : var)                 (* (e = m_msg_recv (v, mrsp_type, 0)) != EMUNGE_SUCCESS *)
| KDisconnect (v : var)           (* (e = _m_msg_client_disconnect (v)) != EMUNGE_SUCCESS *)
| KSucceeded.                     (* e == EMUNGE_SUCCESS *)

Inductive onfail := Break | Fall.                   (* `break;`  |  `; /* empty */` or `e = EMUNGE_SOCKET;` *)

Inductive cond :=
| CAttempts                       (* i >= MUNGE_SOCKET_RETRY_ATTEMPTS *)
| CBadLength                      (* e == EMUNGE_BAD_LENGTH *)
| CFailed                         (* e != EMUNGE_SUCCESS *)
| CNonNull (v : var)              (* v != NULL, v *)
| CSdOpen (v : var).              (* v->sd >= 0 *)

Inductive simple :=
| SBreak                          (* break; *)
| SClearSd (v : var)              (* v->sd = -1; *)
| SDestroy (v : var)              (* m_msg_destroy (v); *)
| SNull (v : var)                 (* v = NULL; *)
| SCloseSd (v : var)              (* (void) close (v->sd); *)
| SSetRetry (v : var)             (* v->retry = i; *)
| SSleep (v : var)                (* e = _m_msg_client_millisleep (v, i * MUNGE_SOCKET_RETRY_MSECS); *)
| SIncr                           (* i++; *)
| SHandOver (v : var)             (* *pm = v; *)
| SLoad (v : var).                (* v = *pm; *)

Inductive stmt := SDo (s : simple) | SIf (c : cond) (body : list simple).

Record xprog := mkX {
  x_pre : list stmt;                      (* from the first assignment of a local to `i = 1;` *)
  x_chain : list (call * onfail);         (* the if / else-if chain at the head of the loop body *)
  x_post : list stmt;                     (* the rest of the loop body *)
  x_epi : list stmt }.                    (* after the loop, before `return (e);` *)

Record xconst := mkC { q_attempts : nat; q_msecs : nat; q_conn_attempts : nat; q_conn_msecs : nat }.

(* ------------------------------------------------------------------ what can happen to one attempt, as the client sees it *)
Inductive phase :=
| FConnect        (* connect() is refused (for all of its own retries) *)
| FSend           (* the connection breaks while the request is being written: m_msg_send fails *)
| FRecv.          (* the request was written; the connection breaks before the reply is complete: m_msg_recv fails *)

(* ------------------------------------------------------------------ state *)
Inductive ptr := PNull | PMsg (m : nat) | PWild.    (* PWild: never assigned *)
Inductive err := EOk | ESocket | EBadLen.
Inductive bad :=
| BUseDead (m : nat)              (* a message that is not allocated is read, written, sent or freed *)
| BNullDeref                      (* NULL or an uninitialised pointer is dereferenced *)
| BSocket (c : nat)               (* a socket that is not open is closed or used *)
| BAssert                         (* an assert of the source fails *)
| BDiverge.                       (* the loop does not end *)

Inductive cev :=
| TNew (m : nat)                                  (* N<m> *)
| TDestroy (m : nat)                              (* D<m> *)
| TConnect (c : nat) (ok : bool)                  (* C<c>+/- *)
| TSend (m retry c : nat) (ok : bool)             (* Q<m>r<retry>c<c>+/- *)
| TBind (m c : nat)                               (* B<m>c<c> *)
| TRecv (m c : nat) (ok : bool)                   (* R<m>c<c>+/- *)
| TClose (c : nat)                                (* X<c> *)
| TSleep (ms : nat).                              (* S<ms> *)

Record mrec := mkM { mr_alive : bool; mr_sd : option nat; mr_retry : nat }.

(* what an attempt finds when it starts *)
Record head := mkH { h_i : nat; h_req : ptr; h_rsp : ptr; h_retry0 : nat; h_sd0 : option nat;
                     h_live : list nat; h_open : list nat }.

Record cst := mkK {
  k_i : nat; k_e : err;
  k_req : ptr; k_rsp : ptr; k_pm : ptr;
  k_store : list mrec;              (* message id -> record; ids are allocation order *)
  k_open : list nat;                (* open sockets (connection ordinals, from 1) *)
  k_nconn : nat;
  k_bad : option bad;
  k_trace : list cev;               (* newest first *)
  k_heads : list head }.            (* newest first *)

Definition getv (st : cst) (v : var) : ptr := match v with Vreq => k_req st | Vrsp => k_rsp st end.
Definition setv (st : cst) (v : var) (p : ptr) : cst :=
  match v with
  | Vreq => mkK (k_i st) (k_e st) p (k_rsp st) (k_pm st) (k_store st) (k_open st) (k_nconn st) (k_bad st) (k_trace st) (k_heads st)
  | Vrsp => mkK (k_i st) (k_e st) (k_req st) p (k_pm st) (k_store st) (k_open st) (k_nconn st) (k_bad st) (k_trace st) (k_heads st)
  end.
Definition set_i st i := mkK i (k_e st) (k_req st) (k_rsp st) (k_pm st) (k_store st) (k_open st) (k_nconn st) (k_bad st) (k_trace st) (k_heads st).
Definition set_e st e := mkK (k_i st) e (k_req st) (k_rsp st) (k_pm st) (k_store st) (k_open st) (k_nconn st) (k_bad st) (k_trace st) (k_heads st).
Definition set_pm st p := mkK (k_i st) (k_e st) (k_req st) (k_rsp st) p (k_store st) (k_open st) (k_nconn st) (k_bad st) (k_trace st) (k_heads st).
Definition set_store st s := mkK (k_i st) (k_e st) (k_req st) (k_rsp st) (k_pm st) s (k_open st) (k_nconn st) (k_bad st) (k_trace st) (k_heads st).
Definition set_open st o := mkK (k_i st) (k_e st) (k_req st) (k_rsp st) (k_pm st) (k_store st) o (k_nconn st) (k_bad st) (k_trace st) (k_heads st).
Definition set_nconn st n := mkK (k_i st) (k_e st) (k_req st) (k_rsp st) (k_pm st) (k_store st) (k_open st) n (k_bad st) (k_trace st) (k_heads st).
Definition fail st b := mkK (k_i st) (k_e st) (k_req st) (k_rsp st) (k_pm st) (k_store st) (k_open st) (k_nconn st)
                            (match k_bad st with None => Some b | x => x end) (k_trace st) (k_heads st).
Definition emit st ev := mkK (k_i st) (k_e st) (k_req st) (k_rsp st) (k_pm st) (k_store st) (k_open st) (k_nconn st) (k_bad st) (ev :: k_trace st) (k_heads st).
Definition push_head st h := mkK (k_i st) (k_e st) (k_req st) (k_rsp st) (k_pm st) (k_store st) (k_open st) (k_nconn st) (k_bad st) (k_trace st) (h :: k_heads st).

Definition dead_rec : mrec := mkM false None 0.
Definition getm (st : cst) (m : nat) : mrec := nth m (k_store st) dead_rec.
Fixpoint upd_nth {A} (n : nat) (x : A) (l : list A) : list A :=
  match l, n with
  | [], _ => []
  | _ :: r, O => x :: r
  | y :: r, S n' => y :: upd_nth n' x r
  end.
Definition setm (st : cst) (m : nat) (r : mrec) : cst := set_store st (upd_nth m r (k_store st)).
Definition live_ids (st : cst) : list nat :=
  map fst (filter (fun p => mr_alive (snd p)) (combine (seq 0 (length (k_store st))) (k_store st))).
Definition is_open (st : cst) (c : nat) : bool := existsb (Nat.eqb c) (k_open st).
Definition drop_open (st : cst) (c : nat) : cst := set_open st (filter (fun x => negb (Nat.eqb c x)) (k_open st)).

(* dereference: the message a pointer designates, if it is allocated *)
Definition deref (st : cst) (p : ptr) : cst * option nat :=
  match p with
  | PMsg m => if mr_alive (getm st m) then (st, Some m) else (fail st (BUseDead m), None)
  | _ => (fail st BNullDeref, None)
  end.
Definition use (st : cst) (v : var) : cst * option nat := deref st (getv st v).

(* close (c): the socket must be open *)
Definition close_conn (st : cst) (c : nat) : cst :=
  if is_open st c then emit (drop_open st c) (TClose c) else fail st (BSocket c).

(* m_msg_destroy: closes the socket the message still holds, frees the message *)
Definition destroy (st : cst) (p : ptr) : cst :=
  match deref st p with
  | (st, Some m) =>
      let r := getm st m in
      let st := emit st (TDestroy m) in
      let st := match mr_sd r with Some c => close_conn st c | None => st end in
      setm st m (mkM false None (mr_retry r))
  | (st, None) => st
  end.

(* _m_msg_client_connect failing: connect() refused q_conn_attempts times with a linear back-off, then close (sd) *)
Fixpoint refused (c n i ms : nat) : list cev :=   (* newest first is built by the caller; this is oldest first *)
  match n with
  | O => []
  | S O => [TConnect c false]
  | S n' => TConnect c false :: TSleep (i * ms) :: refused c n' (S i) ms
  end.

Inductive armres := ArmPass | ArmFail.

Definition do_call (q : xconst) (f : option phase) (st : cst) (k : call) : cst * armres :=
  match k with
  | KConnect v =>
      match use st v with
      | (st, Some m) =>
          match mr_sd (getm st m) with
          | Some _ => (fail st BAssert, ArmFail)                          (* assert (m->sd < 0) *)
          | None =>
              let c := S (k_nconn st) in
              let st := set_nconn st c in
              match f with
              | Some FConnect =>
                  let st := fold_left emit (refused c (q_conn_attempts q) 1 (q_conn_msecs q)) st in
                  (set_e (emit st (TClose c)) ESocket, ArmFail)
              | _ =>
                  let st := emit (set_open st (c :: k_open st)) (TConnect c true) in
                  (set_e (setm st m (mkM true (Some c) (mr_retry (getm st m)))) EOk, ArmPass)
              end
          end
      | (st, None) => (st, ArmFail)
      end
  | KSend v =>
      match use st v with
      | (st, Some m) =>
          match mr_sd (getm st m) with
          | None => (fail st BAssert, ArmFail)                            (* assert (m->sd >= 0) *)
          | Some c =>
              if is_open st c then
                match f with
                | Some FSend => (set_e (emit st (TSend m (mr_retry (getm st m)) c false)) ESocket, ArmFail)
                | _ => (set_e (emit st (TSend m (mr_retry (getm st m)) c true)) EOk, ArmPass)
                end
              else (fail st (BSocket c), ArmFail)
          end
      | (st, None) => (st, ArmFail)
      end
  | KAuth v => match use st v with (st, Some _) => (st, ArmPass) | (st, None) => (st, ArmFail) end
  | KCreate v =>
      let id := length (k_store st) in
      let st := set_store st (k_store st ++ [mkM true None 0]) in
      (set_e (emit (setv st v (PMsg id)) (TNew id)) EOk, ArmPass)
  | KBind v w =>
      match use st v with
      | (st, Some m1) =>
          match use st w with
          | (st, Some m2) =>
              let sd2 := mr_sd (getm st m2) in
              let st := emit st (TBind m1 (match sd2 with Some c => c | None => 0 end)) in
              let st := match mr_sd (getm st m1) with Some c1 => close_conn st c1 | None => st end in
              (set_e (setm st m1 (mkM true sd2 (mr_retry (getm st m1)))) EOk, ArmPass)
          | (st, None) => (st, ArmFail)
          end
      | (st, None) => (st, ArmFail)
      end
  | KRecv v =>
      match use st v with
      | (st, Some m) =>
          match mr_sd (getm st m) with
          | None => (fail st BAssert, ArmFail)
          | Some c =>
              if is_open st c then
                match f with
                | Some FRecv => (set_e (emit st (TRecv m c false)) ESocket, ArmFail)
                | _ => (set_e (emit st (TRecv m c true)) EOk, ArmPass)
                end
              else (fail st (BSocket c), ArmFail)
          end
      | (st, None) => (st, ArmFail)
      end
  | KDisconnect v =>
      match use st v with
      | (st, Some m) =>
          match mr_sd (getm st m) with
          | None => (fail st BAssert, ArmFail)
          | Some c =>
              let st := close_conn st c in
              (set_e (setm st m (mkM true None (mr_retry (getm st m)))) EOk, ArmPass)
          end
      | (st, None) => (st, ArmFail)
      end
  | KSucceeded => (st, match k_e st with EOk => ArmFail | _ => ArmPass end)
  end.

Inductive flow := Next | Exit.

Fixpoint run_chain (q : xconst) (f : option phase) (st : cst) (arms : list (call * onfail)) : cst * flow :=
  match arms with
  | [] => (st, Next)
  | (k, o) :: rest =>
      match do_call q f st k with
      | (st, ArmFail) => (st, match o with Break => Exit | Fall => Next end)
      | (st, ArmPass) => match k_bad st with Some _ => (st, Exit) | None => run_chain q f st rest end
      end
  end.

Definition eval_cond (q : xconst) (st : cst) (c : cond) : cst * bool :=
  match c with
  | CAttempts => (st, Nat.leb (q_attempts q) (k_i st))
  | CBadLength => (st, match k_e st with EBadLen => true | _ => false end)
  | CFailed => (st, match k_e st with EOk => false | _ => true end)
  | CNonNull v => (st, match getv st v with PNull => false | _ => true end)
  | CSdOpen v => match use st v with
                 | (st, Some m) => (st, match mr_sd (getm st m) with Some _ => true | None => false end)
                 | (st, None) => (st, false)
                 end
  end.

Definition do_simple (q : xconst) (st : cst) (s : simple) : cst * flow :=
  match s with
  | SBreak => (st, Exit)
  | SClearSd v => match use st v with
                  | (st, Some m) => (setm st m (mkM true None (mr_retry (getm st m))), Next)
                  | (st, None) => (st, Next)
                  end
  | SDestroy v => (destroy st (getv st v), Next)
  | SNull v => (setv st v PNull, Next)
  | SCloseSd v => match use st v with
                  | (st, Some m) => (match mr_sd (getm st m) with Some c => close_conn st c | None => st end, Next)
                  | (st, None) => (st, Next)
                  end
  | SSetRetry v => match use st v with
                   | (st, Some m) => (setm st m (mkM true (mr_sd (getm st m)) (k_i st)), Next)
                   | (st, None) => (st, Next)
                   end
  | SSleep v => match use st v with
                | (st, Some _) => (set_e (emit st (TSleep (k_i st * q_msecs q))) EOk, Next)
                | (st, None) => (st, Next)
                end
  | SIncr => (set_i st (S (k_i st)), Next)
  | SHandOver v => (set_pm st (getv st v), Next)
  | SLoad v => (setv st v (k_pm st), Next)
  end.

Fixpoint do_simples (q : xconst) (st : cst) (l : list simple) : cst * flow :=
  match l with
  | [] => (st, Next)
  | s :: r => match do_simple q st s with
              | (st, Exit) => (st, Exit)
              | (st, Next) => match k_bad st with Some _ => (st, Exit) | None => do_simples q st r end
              end
  end.

Fixpoint do_stmts (q : xconst) (st : cst) (l : list stmt) : cst * flow :=
  match l with
  | [] => (st, Next)
  | s :: r =>
      let '(st, fl) := match s with
                       | SDo x => do_simple q st x
                       | SIf c body => let '(st, b) := eval_cond q st c in
                                       if b then do_simples q st body else (st, Next)
                       end in
      match fl with
      | Exit => (st, Exit)
      | Next => match k_bad st with Some _ => (st, Exit) | None => do_stmts q st r end
      end
  end.

Definition head_of (st : cst) : head :=
  mkH (k_i st) (k_req st) (k_rsp st) (mr_retry (getm st 0)) (mr_sd (getm st 0)) (live_ids st) (k_open st).

(* while (1) { chain; post }  — `faults` is consumed one entry per pass through the loop *)
Fixpoint run_loop (fuel : nat) (q : xconst) (p : xprog) (st : cst) (faults : list phase) : cst :=
  match fuel with
  | O => fail st BDiverge
  | S fuel' =>
      let st := push_head st (head_of st) in
      let '(f, rest) := match faults with [] => (None, []) | f :: r => (Some f, r) end in
      match run_chain q f st (x_chain p) with
      | (st, Exit) => st
      | (st, Next) =>
          match do_stmts q st (x_post p) with
          | (st, Exit) => st
          | (st, Next) => run_loop fuel' q p st rest
          end
      end
  end.

(* the caller (munge_encode / munge_decode) allocated the request, calls m_msg_client_xfer (&m, ...), and destroys
   whatever *pm designates afterwards *)
Definition init : cst :=
  mkK 0 EOk PWild PWild (PMsg 0) [mkM true None 0] [] 0 None [TNew 0] [].

Record result := mkR {
  r_err : err;                 (* the value returned *)
  r_pm : ptr;                  (* the message handed to the caller *)
  r_bad : option bad;          (* None: no undefined behaviour on the way *)
  r_trace : list cev;          (* oldest first, including the caller's allocation and final m_msg_destroy *)
  r_heads : list head;         (* what each attempt found, oldest first *)
  r_live_at_return : list nat; (* allocated messages when m_msg_client_xfer returns *)
  r_open_at_return : list nat;
  r_live_end : list nat;       (* after the caller's m_msg_destroy *)
  r_open_end : list nat }.

Definition xfer (q : xconst) (p : xprog) (faults : list phase) : result :=
  let st := fst (do_stmts q init (x_pre p)) in
  let st := match k_bad st with Some _ => st | None => run_loop (q_attempts q + 2) q p (set_i st 1) faults end in
  let st := match k_bad st with Some _ => st | None => fst (do_stmts q st (x_epi p)) end in
  let st' := match k_bad st with Some _ => st | None => destroy st (k_pm st) end in
  mkR (k_e st) (k_pm st) (k_bad st') (rev (k_trace st')) (rev (k_heads st'))
      (live_ids st) (k_open st) (live_ids st') (k_open st').

(* ------------------------------------------------------------------ observations used by the theorems *)
(* the state an attempt must find: nothing of the attempts before it but the two counters *)
Definition fresh_head (n : nat) : head := mkH (S n) (PMsg 0) PNull n None [0] [].

Definition sends (tr : list cev) : list (nat * nat * nat * bool) :=
  flat_map (fun e => match e with TSend m r c ok => [(m, r, c, ok)] | _ => [] end) tr.
Definition recvs (tr : list cev) : list (nat * nat * bool) :=
  flat_map (fun e => match e with TRecv m c ok => [(m, c, ok)] | _ => [] end) tr.
Definition sleeps (tr : list cev) : list nat :=
  flat_map (fun e => match e with TSleep ms => [ms] | _ => [] end) tr.
Definition news (tr : list cev) : list nat :=
  flat_map (fun e => match e with TNew m => [m] | _ => [] end) tr.
Definition destroys (tr : list cev) : list nat :=
  flat_map (fun e => match e with TDestroy m => [m] | _ => [] end) tr.

Definition is_connect (f : phase) : bool := match f with FConnect => true | _ => false end.
