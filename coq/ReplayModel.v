(* ReplayModel.v — executable model of src/munged/hash.c + replay.c (no proofs here).

   hash.c   : a table is an array of `size` slots, each slot a singly linked chain kept in ascending
              cmp_f order; hash_insert / hash_remove / hash_find walk the chain with
                  cmpval = cmp_f (p->hkey, key); if (cmpval < 0) continue; if (cmpval == 0) <hit>; break;
              hash_delete_if walks every chain of every slot and unlinks the nodes arg_f selects;
              h->count is kept incrementally.
   replay.c : key = (first sizeof(data.mac) MAC bytes, t_expired), t_expired = (time_t) time0 + ttl
              (formed in time_t, unbounded here); replay_cmp_f = memcmp of the MAC bytes, then t_expired; replay_key_f = the
              first 4 MAC bytes as an unsigned int; replay_is_expired = (t_expired < now).
   The slot function is a parameter (`slot_of`) of everything below: the theorems hold for every
   collision pattern; `c_slot` is the one the C code uses (key_f % size), used by the extracted oracle.
   Numbers taken from the source come from gen/GenReplay.v.
   Not modelled: allocation failure (ENOMEM), the got_benchmark short-cut, a failing time(). *)
From Coq Require Import List NArith Bool Arith Sorted.
From Coq.Strings Require Import Byte.
From MV Require Import Bytes.
From MV.gen Require Import GenReplay.
Import ListNotations.
Local Open Scope N_scope.

Inductive ins_result := Inserted | AlreadyExists.   (* hash_insert: data / NULL+EEXIST *)

(* table[s] := c *)
Fixpoint upd {A} (s : nat) (c : A) (cs : list A) : list A :=
  match cs, s with
  | [], _ => []
  | _ :: r, O => c :: r
  | x :: r, S s' => x :: upd s' c r
  end.

(* ------------------------------------------------------------------ hash.c *)
Section Hash.
  Variable K : Type.
  Variable cmp : K -> K -> comparison.      (* sign of h->cmp_f (a, b) *)
  Variable slot_of : K -> nat.              (* h->key_f (key) % h->size — arbitrary *)

  Local Notation chain := (list K).   (* a notation, so that lia/rewrite see one type *)
  Record table := mkT { chains : list chain; count : N }.

  Definition create (nslots : nat) : table := mkT (repeat [] nslots) 0.
  Definition get (s : nat) (cs : list chain) : chain := nth s cs [].

  (* for (p = table[slot]; p; p = p->next) { c = cmp(p->hkey,key); if (c<0) continue; if (c==0) hit; break; } *)
  Fixpoint chain_find (k : K) (c : chain) : bool :=
    match c with
    | [] => false
    | p :: r => match cmp p k with Lt => chain_find k r | Eq => true | Gt => false end
    end.

  (* same walk through pp; on break or end of chain the new node is linked in at *pp *)
  Fixpoint chain_insert (k : K) (c : chain) : ins_result * chain :=
    match c with
    | [] => (Inserted, [k])
    | p :: r => match cmp p k with
                | Lt => let '(res, r') := chain_insert k r in (res, p :: r')
                | Eq => (AlreadyExists, c)
                | Gt => (Inserted, k :: c)
                end
    end.

  Fixpoint chain_remove (k : K) (c : chain) : bool * chain :=
    match c with
    | [] => (false, [])
    | p :: r => match cmp p k with
                | Lt => let '(f, r') := chain_remove k r in (f, p :: r')
                | Eq => (true, r)
                | Gt => (false, c)
                end
    end.

  (* while ((p = *pp)) { if (arg_f(p) > 0) { *pp = p->next; n++; } else pp = &p->next; } *)
  Fixpoint chain_delete_if (pred : K -> bool) (c : chain) : N * chain :=
    match c with
    | [] => (0, [])
    | p :: r => let '(n, r') := chain_delete_if pred r in
                if pred p then (n + 1, r') else (n, p :: r')
    end.

  Definition find (k : K) (t : table) : bool := chain_find k (get (slot_of k) (chains t)).

  Definition insert (k : K) (t : table) : ins_result * table :=
    let s := slot_of k in
    let '(res, c') := chain_insert k (get s (chains t)) in
    match res with
    | Inserted => (Inserted, mkT (upd s c' (chains t)) (count t + 1))
    | AlreadyExists => (AlreadyExists, t)
    end.

  Definition remove (k : K) (t : table) : bool * table :=
    let s := slot_of k in
    let '(f, c') := chain_remove k (get s (chains t)) in
    if f then (true, mkT (upd s c' (chains t)) (count t - 1)) else (false, t).

  (* for (i = 0; i < size; i++) <chain walk> *)
  Fixpoint chains_delete_if (pred : K -> bool) (cs : list chain) : N * list chain :=
    match cs with
    | [] => (0, [])
    | c :: r => let '(n1, c') := chain_delete_if pred c in
                let '(n2, r') := chains_delete_if pred r in (n1 + n2, c' :: r')
    end.

  Definition delete_if (pred : K -> bool) (t : table) : N * table :=
    let '(n, cs') := chains_delete_if pred (chains t) in (n, mkT cs' (count t - n)).

  (* abstraction: the keys in hash_for_each order (slot 0 .. size-1, each chain front to back) *)
  Definition abs (t : table) : list K := concat (chains t).

  (* the invariant hash.c maintains: every chain strictly ascending (hence duplicate-free), every key in
     the chain of its slot, count = number of nodes *)
  Definition chain_ok (s : nat) (c : chain) : Prop :=
    StronglySorted (fun a b => cmp a b = Lt) c /\ Forall (fun k => slot_of k = s) c.
  Definition table_inv (nslots : nat) (t : table) : Prop :=
    length (chains t) = nslots /\ (forall s, chain_ok s (get s (chains t))) /\
    count t = N.of_nat (length (abs t)).
End Hash.

Arguments chains {K}.
Arguments count {K}.
Arguments mkT {K}.
Arguments create {K}.
Arguments abs {K}.
Arguments get {K}.

(* ---------------------------------------------------------------- replay.c *)
Notation rkey := (bytes * N)%type.          (* (data.mac, data.t_expired) *)
Notation rtable := (table rkey).

(* replay_insert / replay_remove: t_expired = (time_t) m->time0 + m->ttl, formed in time_t (no 32-bit wrap);
   the probe runs replay_insert on time0 = 2^32-1, ttl = 2 to see which of the two it is *)
Definition t_expired_of (time0 ttl : N) : N :=
  if replay_texp_wraps32 then (time0 + ttl) mod 4294967296 else time0 + ttl.
(* replay_insert / replay_remove: memcpy (r->data.mac, c->mac, sizeof (r->data.mac)) *)
Definition mk_key (mac : bytes) (t_expired : N) : rkey := (firstn replay_mac_len mac, t_expired).

(* memcmp: unsigned bytes, first difference decides (lists of unequal length: prefix first) *)
Fixpoint cmp_bytes (a b : bytes) : comparison :=
  match a, b with
  | [], [] => Eq
  | [], _ :: _ => Lt
  | _ :: _, [] => Gt
  | x :: a', y :: b' => match N.compare (b2n x) (b2n y) with Eq => cmp_bytes a' b' | c => c end
  end.

(* replay_cmp_f: memcmp over the whole data.mac array, then t_expired *)
Definition replay_cmp (k1 k2 : rkey) : comparison :=
  match cmp_bytes (fst k1) (fst k2) with
  | Eq => if replay_cmp_time_tiebreak then N.compare (snd k1) (snd k2) else Eq
  | c => c
  end.

(* replay_key_f: the first sizeof(unsigned int) MAC bytes read as an unsigned int; as byte weights measured on the build host *)
Fixpoint weighted (ws : list N) (m : bytes) : N :=
  match ws, m with
  | w :: ws', b :: m' => w * b2n b + weighted ws' m'
  | _, _ => 0
  end.
Definition replay_keyf (k : rkey) : N := weighted replay_keyf_weights (fst k) mod replay_keyf_modulus.
Definition c_slot (size : N) (k : rkey) : nat := N.to_nat (replay_keyf k mod size).

(* replay_is_expired (r, key, &now): the three cases as sampled from the source; r->t_expired < now *)
Definition is_expired (now : N) (k : rkey) : bool :=
  match N.compare (snd k) now with
  | Lt => replay_expired_when_lt
  | Eq => replay_expired_when_eq
  | Gt => replay_expired_when_gt
  end.

Definition slots_ok (slot_of : rkey -> nat) (nslots : nat) : Prop := forall k, (slot_of k < nslots)%nat.

Section Replay.
  Variable slot_of : rkey -> nat.

  Definition replay_insert (k : rkey) (t : rtable) : ins_result * rtable := insert rkey replay_cmp slot_of k t.
  Definition replay_remove (k : rkey) (t : rtable) : bool * rtable := remove rkey replay_cmp slot_of k t.
  Definition replay_find (k : rkey) (t : rtable) : bool := find rkey replay_cmp slot_of k t.
  Definition replay_purge (now : N) (t : rtable) : N * rtable := delete_if rkey (is_expired now) t.
  Definition rinv (nslots : nat) (t : rtable) : Prop := table_inv rkey replay_cmp slot_of nslots t.

  (* --- the daemon seen from replay.c: a history of events over (table, clock) --- *)
  Inductive event :=
  | EPresent (k : rkey)   (* a decode reached dec_validate_replay: replay_insert *)
  | EFail (k : rkey)      (* a decode failed earlier (invalid, unauthorized, expired, rewound): replay.c not called *)
  | ERemove (k : rkey)    (* the success reply could not be sent: replay_remove *)
  | EPurge                (* timer callback replay_purge: reads the clock, deletes t_expired < now *)
  | ETick (d : N).        (* the clock advances by d seconds *)
  Inductive output := OInserted | OExists | ORemoved (found : bool) | OPurged (n : N) | ONone.
  Record rstate := mkS { tbl : rtable; clock : N }.

  Definition step (st : rstate) (e : event) : rstate * output :=
    match e with
    | EPresent k => let '(r, t') := replay_insert k (tbl st) in
                    (mkS t' (clock st), match r with Inserted => OInserted | AlreadyExists => OExists end)
    | EFail _ => (st, ONone)
    | ERemove k => let '(f, t') := replay_remove k (tbl st) in (mkS t' (clock st), ORemoved f)
    | EPurge => let '(n, t') := replay_purge (clock st) (tbl st) in (mkS t' (clock st), OPurged n)
    | ETick d => (mkS (tbl st) (clock st + d), ONone)
    end.

  Fixpoint run (st : rstate) (h : list event) : rstate * list output :=
    match h with
    | [] => (st, [])
    | e :: h' => let '(st1, o) := step st e in let '(st2, os) := run st1 h' in (st2, o :: os)
    end.
  Definition final (st : rstate) (h : list event) : rstate := fst (run st h).

  Definition is_fail (e : event) : bool := match e with EFail _ => true | _ => false end.
  Definition touches (k : rkey) (e : event) : Prop :=
    match e with EPresent k' | ERemove k' => k' = k | EPurge => True | _ => False end.
  Definition removes (k : rkey) (e : event) : Prop := match e with ERemove k' => k' = k | _ => False end.

  Definition decode_only (e : event) : Prop := match e with EPresent _ | EFail _ => True | _ => False end.

  (* what the caller (dec_validate_time, then dec_validate_replay) guarantees about a record it creates:
     at the decode second td the credential is inside its window, t_expired <= td + w *)
  Fixpoint admissible (w : N) (st : rstate) (h : list event) : Prop :=
    match h with
    | [] => True
    | e :: h' => (match e return Prop with EPresent k => snd k <= clock st + w | _ => True end) /\
                 admissible w (fst (step st e)) h'
    end.

  (* ghost-instrumented run for the retention bound: which presentations created a record and when,
     and when the last purge ran *)
  Record gstate := mkG { gst : rstate; glog : list (rkey * N); glast : N }.
  Definition gstep (g : gstate) (e : event) : gstate :=
    let '(st', o) := step (gst g) e in
    mkG st'
        (match e, o with EPresent k, OInserted => (k, clock (gst g)) :: glog g | _, _ => glog g end)
        (match e with EPurge => clock (gst g) | _ => glast g end).
  Definition grun (g : gstate) (h : list event) : gstate := fold_left gstep h g.
  Definition ginit (nslots : nat) (c0 : N) : gstate := mkG (mkS (create nslots) c0) [] c0.

  (* --- concurrency: k decode requests, one atomic replay_insert each (hash mutex); a schedule is the
     order in which worker threads reach that critical section; ids that are out of range or already
     served are stutter steps (local computation) --- *)
  Definition cstate := (rtable * list (option ins_result))%type.
  Definition cstep (reqs : list rkey) (st : cstate) (i : nat) : cstate :=
    match nth_error reqs i, nth_error (snd st) i with
    | Some k, Some None => let '(r, t') := replay_insert k (fst st) in (t', upd i (Some r) (snd st))
    | _, _ => st
    end.
  Definition crun (reqs : list rkey) (sched : list nat) (st : cstate) : cstate :=
    fold_left (cstep reqs) sched st.
  Definition cinit (reqs : list rkey) (t : rtable) : cstate := (t, map (fun _ => None) reqs).
  Definition all_done (rs : list (option ins_result)) : Prop := Forall (fun r => r <> None) rs.
End Replay.
