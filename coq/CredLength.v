(* CredLength.v — exact credential length and the request-length gate (C01 "too large" clause),
   resolved options of enc_pre. *)
From Coq Require Import List NArith ZArith Bool Lia ZifyBool ZifyN ZifyNat.
From Coq.Strings Require Import Byte.
From RecordUpdate Require Import RecordSet.
From MV Require Import Bytes Base64Model Base64Proofs CredModel CredProofs.
From MV.gen Require Import GenCred.
Import ListNotations RecordSetNotations.
Local Open Scope N_scope.
Ltac Zify.zify_post_hook ::= Z.div_mod_to_equations.

Inductive gate := GatePass | GateBadLength.
(* m_msg_send (client, maxlen = MUNGE_MAXIMUM_REQ_LEN) and m_msg_recv (daemon): `pkt_len > maxlen` *)
Definition req_gate (body_len : N) : gate := if c_max_req_len <? body_len then GateBadLength else GatePass.
Lemma req_gate_spec body_len : req_gate body_len = (if c_max_req_len <? body_len then GateBadLength else GatePass).
Proof. reflexivity. Qed.

Lemma len_app {A} (a b : list A) : len (a ++ b) = len a + len b.
Proof. unfold len. rewrite app_length. lia. Qed.

Section L.
Variable hmac : N -> bytes -> bytes -> bytes.
Variable sha1 : bytes -> bytes.
Variable blk_enc : N -> bytes -> bytes -> bytes.
Variable zcomp : N -> bytes -> option bytes.

Lemma enc_core_cred cf m salt ivr o :
  enc_core hmac sha1 blk_enc zcomp cf m salt ivr = inr o ->
  eo_cred o = armor [eo_outer o; eo_tag o; eo_inner_wire o] ++ [x00].
Proof.
  unfold enc_core. intros H.
  repeat match type of H with
  | context [match ?x with _ => _ end] => destruct x eqn:?; try discriminate H
  end.
  all: injection H as <-; reflexivity.
Qed.

Lemma armor_length a b c :
  len (armor [a; b; c]) = 6 + 4 * ((len a + len b + len c + 2) / 3) + 1.
Proof.
  unfold armor. rewrite !len_app, chunking_independent0. cbn [concat]. rewrite app_nil_r.
  pose proof (encode_bound (a ++ b ++ c)) as B. unfold encode_length in B.
  rewrite !app_length, !Nat2N.inj_add in B.
  change (len (nbytes c_prefix)) with 6. change (len (nbytes c_suffix)) with 1.
  unfold len. lia.
Qed.

Lemma cred_length cf m salt ivr o :
  enc_core hmac sha1 blk_enc zcomp cf m salt ivr = inr o ->
  len (eo_cred o) = 6 + 4 * ((len (eo_outer o) + len (eo_tag o) + len (eo_inner_wire o) + 2) / 3) + 1 + 1.
Proof.
  intros H. rewrite (enc_core_cred _ _ _ _ _ H), len_app, armor_length. reflexivity.
Qed.
End L.

Lemma enc_pre_options cf m pu pg now m1 : enc_pre cf m pu pg now = inl m1 ->
  m_cipher m1 = (if m_cipher m =? c_cipher_default then cf_def_cipher cf else m_cipher m) /\
  m_mac m1 = (if m_mac m =? c_mac_default then cf_def_mac cf else m_mac m) /\
  m_zip m1 = (if m_data_len m =? 0 then c_zip_none else if m_zip m =? c_zip_default then cf_def_zip cf else m_zip m) /\
  m_ttl m1 = (if m_ttl m =? 0 then cf_def_ttl cf else if cf_max_ttl cf <? m_ttl m then cf_max_ttl cf else m_ttl m).
Proof.
  unfold enc_pre, enc_validate. intros H.
  repeat match type of H with
  | context [if ?b then _ else _] => destruct b eqn:?; try discriminate H
  end; inversion H; subst; clear H; cbn in *;
  repeat match goal with
  | E : (_ =? _) = _ |- _ => rewrite E; clear E
  | E : (_ <? _) = _ |- _ => rewrite ?E; clear E
  end; repeat split; reflexivity.
Qed.
