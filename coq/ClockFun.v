(* ClockFun.v — TimerModel's clock functions ARE the functions translated from the C text of src/munged/clock.c
   (gen/GenClockFun.v, regenerated on every run by tools/facts/clockfun.py). *)
From Coq Require Import ZArith Bool Lia.
From MV.gen Require Import GenTimer GenClockFun.
From MV Require Import TimerModel TimerProofs.
Local Open Scope Z_scope.

Lemma clock_le_is_the_source a b : src_clock_is_timespec_le a b = b2z (ts_le a b).
Proof. unfold src_clock_is_timespec_le, ts_le. cbn [orb]. destruct (fst a =? fst b); reflexivity. Qed.

Lemma clock_get_fails gt_rc clk tsp ms : gt_rc < 0 -> src_clock_get_timespec gt_rc clk tsp ms = (-1, tsp).
Proof.
  intros H. unfold src_clock_get_timespec.
  assert (E0 : (gt_rc =? 0) = false) by (apply Z.eqb_neq; lia).
  assert (E1 : (gt_rc <? 0) = true) by (apply Z.ltb_lt; lia).
  rewrite E0, E1. destruct tsp; reflexivity.
Qed.

(* a failing clock_gettime other than by a negative value does not exist (it returns 0 or -1); for completeness the
   positive case: the function goes on with the caller's object *)
Lemma clock_add_is_the_source clk tsp ms : 0 <= snd clk ->
  src_clock_get_timespec 0 clk tsp ms = (0, ts_add_ms clk ms).
Proof.
  intros Hn. unfold src_clock_get_timespec, ts_add_ms, msec_per_sec, nsec_per_msec, nsec_per_sec.
  change (0 =? 0) with true. change (0 <? 0) with false. cbv iota.
  destruct clk as [s n]. cbn [fst snd] in *.
  destruct (0 <? ms) eqn:Hm; [|reflexivity].
  apply Z.ltb_lt in Hm.
  rewrite (Z.quot_div_nonneg ms 1000) by lia.
  rewrite (Z.rem_mod_nonneg ms 1000) by lia.
  change (1000 * 1000 * 1000) with 1000000000.
  replace (ms mod 1000 * 1000 * 1000) with (ms mod 1000 * 1000000) by lia.
  assert (Hr : 0 <= ms mod 1000 < 1000) by (apply Z.mod_pos_bound; lia).
  destruct (1000000000 <=? n + ms mod 1000 * 1000000) eqn:Hc; [|reflexivity].
  rewrite (Z.quot_div_nonneg (n + ms mod 1000 * 1000000) 1000000000) by lia.
  rewrite (Z.rem_mod_nonneg (n + ms mod 1000 * 1000000) 1000000000) by lia.
  reflexivity.
Qed.

Lemma clock_expired_is_the_source clk tsp : 0 <= snd clk ->
  src_clock_is_timespec_expired 0 clk tsp = b2z (ts_le tsp clk).
Proof.
  intros Hn. unfold src_clock_is_timespec_expired.
  rewrite (clock_add_is_the_source clk (0, 0) 0 Hn).
  unfold ts_add_ms. change (0 <? 0) with false. cbv iota.
  destruct clk as [s n], tsp as [a b]. cbn [fst snd].
  apply clock_le_is_the_source.
Qed.

Lemma clock_expired_fails gt_rc clk tsp : gt_rc < 0 -> src_clock_is_timespec_expired gt_rc clk tsp = -1.
Proof.
  intros H. unfold src_clock_is_timespec_expired. rewrite (clock_get_fails gt_rc clk (0, 0) 0 H). reflexivity.
Qed.

(* what the translated functions mean on normalised time-stamps, in nanoseconds *)
Lemma clock_expired_iff clk tsp : 0 <= snd clk < nsec_per_sec -> 0 <= snd tsp < nsec_per_sec ->
  (src_clock_is_timespec_expired 0 clk tsp = 1 <-> ts_ns tsp <= ts_ns clk).
Proof.
  intros Hc Ht. rewrite clock_expired_is_the_source by lia.
  rewrite <- (ts_ns_le tsp clk Ht Hc). destruct (ts_le tsp clk); cbn; split; intros; try reflexivity; try discriminate; lia.
Qed.

Lemma clock_deadline_exact clk tsp ms : 0 <= snd clk < nsec_per_sec -> 0 <= ms ->
  let r := snd (src_clock_get_timespec 0 clk tsp ms) in
  ts_ns r = ts_ns clk + ms * nsec_per_msec /\ 0 <= snd r < nsec_per_sec.
Proof.
  intros Hc Hm. rewrite clock_add_is_the_source by lia. cbn [snd]. apply ts_add_ms_spec; assumption.
Qed.
