(* Properties_C09.v — statements only.  Failure replies carry no credential data; padding and MAC failures
   look alike.  Model: CredModel.dec_process (dec.c:dec_process_msg, m_msg.c:m_msg_reset/m_msg_set_err). *)
From Coq Require Import List NArith Bool String.
From MV Require Import Bytes CredModel CredProofs.
From MV.gen Require Import GenCred.
From RecordUpdate Require Import RecordSet.
Import RecordSetNotations.
Import ListNotations.
Local Open Scope N_scope.

Section C09.
Variable hmac : N -> bytes -> bytes -> bytes.
Variable sha1 : bytes -> bytes.
Variable blk_dec : N -> bytes -> bytes -> bytes.
Variable zdecomp : N -> bytes -> N -> option bytes.

(* For every request, peer, clock, group map and replay state, and whatever the primitives compute: when decode
   ends in any error other than expired / rewound / replayed, every field of the reply that could carry
   credential data is the constant of m_msg_reset (payload length 0 and no payload, UID/GID/restrictions = the
   'any' sentinel 2^32-1, cipher/MAC/zip/TTL/times/address length 0, no realm); the replay state is untouched. *)
Theorem C09_hard_error_reply_is_reset :
  forall cf mem rs m pu pg now r rs' k,
  m_err m = e_success ->
  dec_process hmac sha1 blk_dec zdecomp cf mem rs m pu pg now = (r, rs', k) ->
  hard_code (m_err r) = true ->
  is_reset r /\ rs' = rs /\ k = None.
Proof. exact (hard_error_reply_is_reset hmac sha1 blk_dec zdecomp). Qed.

(* a failed padding removal and a failed MAC comparison leave the very same message (code and string) *)
Theorem C09_padding_indistinguishable :
  forall cf o1 o2 e1 e2, oo_msg o1 = oo_msg o2 ->
  dec_decrypt_mac hmac sha1 blk_dec cf o1 = inl e1 -> dec_decrypt_mac hmac sha1 blk_dec cf o2 = inl e2 -> e1 = e2.
Proof. exact (padding_indistinguishable hmac sha1 blk_dec). Qed.

Theorem C09_decrypt_or_mac_failure_is_cred_invalid :
  forall cf o e, dec_decrypt_mac hmac sha1 blk_dec cf o = inl e -> e = set_err (oo_msg o) e_cred_invalid None.
Proof. exact (decrypt_mac_err hmac sha1 blk_dec). Qed.
End C09.

Print Assumptions C09_hard_error_reply_is_reset.
Print Assumptions C09_padding_indistinguishable.
Print Assumptions C09_decrypt_or_mac_failure_is_cred_invalid.

(* the first error wins: later errors neither replace the code nor the string *)
Theorem C09_first_error_wins : forall m e s, m_err m <> e_success -> set_err m e s = m.
Proof. exact set_err_first. Qed.
Print Assumptions C09_first_error_wins.

(* what "reset" means, concretely *)
Theorem C09_reset_fields : forall m, is_reset (msg_reset m).
Proof. exact msg_reset_is_reset. Qed.
Print Assumptions C09_reset_fields.

(* every error code is success, soft (expired/rewound/replayed) or hard *)
Theorem C09_code_trichotomy : forall e, e = e_success \/ soft_err e = true \/ hard_code e = true.
Proof. exact code_trichotomy. Qed.
Print Assumptions C09_code_trichotomy.

(* non-vacuity: a concrete hard failure (garbage credential) under toy primitives *)
Example C09_example :
  let '(r, rs', k) := dec_process (fun _ _ _ => []) (fun x => x) (fun _ _ b => b) (fun _ _ _ => None)
                        cf_std (fun _ _ => false) [] (msg0 <| m_data := str "MUNGE:AAAA:"%string |> <| m_data_len := 11 |>) 7 8 1000 in
  hard_code (m_err r) = true /\ is_reset r.
Proof. vm_compute. split; [reflexivity|repeat split; reflexivity]. Qed.

(* ---- translator tie: the reset and the set of error codes exempt from it are read off the current text of
        m_msg_reset() and of the guard in dec_process_msg() on every run; the stage order likewise ------------- *)
From MV Require Import CredSource.
From MV.gen Require Import GenCredSrc.
Theorem C09_reset_is_the_source : forall m, src_msg_reset m = msg_reset m.
Proof. exact msg_reset_is_source. Qed.
Print Assumptions C09_reset_is_the_source.
Theorem C09_exempt_codes_are_the_source : forall e, src_soft_err e = soft_err e.
Proof. exact soft_err_is_source. Qed.
Print Assumptions C09_exempt_codes_are_the_source.
Theorem C09_stage_order_is_the_source : src_dec_stages = model_dec_stages /\ src_enc_stages = model_enc_stages.
Proof. exact stages_are_source. Qed.
Print Assumptions C09_stage_order_is_the_source.

(* ---- source-level tie of the control structure (tools/facts/cfun.py -> gen/GenCredFun.v: dec_process_msg and
        enc_process_msg TRANSLATED from the C text on every run; CredPipe.v): the order of the checks (authorization
        before the time window before the replay cache), that a failing stage ends the chain, and the guard of
        m_msg_reset - every failure except expired / rewound / replayed on decode, every failure on encode ---- *)
From Coq Require Import ZArith.
From MV Require Import CredFun CredPipe.
From MV.gen Require Import GenCredFun.
Theorem C09_source_decode_control : forall (S : Type) (ops : pipe_ops S) (s : S),
  src_dec_process_msg ops s = pipe_control ops dec_stage_order soft_err (Some "is_replay_new"%string) s.
Proof. exact src_dec_process_msg_is_pipe. Qed.
Print Assumptions C09_source_decode_control.
Theorem C09_source_encode_control : forall (S : Type) (ops : pipe_ops S) (s : S),
  src_enc_process_msg ops s = pipe_control ops enc_stage_order (fun _ => false) None s.
Proof. exact src_enc_process_msg_is_pipe. Qed.
Print Assumptions C09_source_encode_control.
(* over abstract stage outcomes: which stages ran, and the reply is sanitised exactly for a failure whose code is not
   expired / rewound / replayed *)
Theorem C09_source_decode_outcomes : forall (fail : string -> option N) (added send_ok : bool),
  src_dec_process_msg (trace_ops fail added send_ok) t0 =
  outcomes dec_stage_order soft_err (Some "is_replay_new"%string) fail added send_ok.
Proof. exact src_dec_outcomes. Qed.
Print Assumptions C09_source_decode_outcomes.
Theorem C09_source_pipeline_is_model :
  forall (hmac : N -> bytes -> bytes -> bytes) (sha1 : bytes -> bytes) (blk_dec : N -> bytes -> bytes -> bytes)
         (zdecomp : N -> bytes -> N -> option bytes) (cf : conf) (mem : N -> N -> bool) (pu pg now now2 : N)
         (rs : CredModel.rstate) (m : msg) (send_ok : bool),
  let '(rc, s) := src_dec_process_msg (dec_ops hmac sha1 blk_dec zdecomp cf mem pu pg now now2 send_ok) (dinit m rs) in
  let '(r, rs', k) := dec_process2 hmac sha1 blk_dec zdecomp cf mem rs m pu pg now now2 in
  d_msg s = r /\ d_rs s = (if send_ok then rs' else dec_rollback rs' k) /\
  rc = (if send_ok && dec_accepts hmac sha1 blk_dec zdecomp cf mem pu pg now now2 rs m then 0 else -1)%Z.
Proof. exact dec_process_is_source. Qed.
Print Assumptions C09_source_pipeline_is_model.
