(* WorkProofs.v — proofs about WorkModel (work.c work crew, accept loop). *)
From Coq Require Import List Arith Lia Bool Permutation.
From MV Require Import WorkModel.
Import ListNotations.

(* ------------------------------------------------------------------------- *)
(* list helpers                                                               *)
(* ------------------------------------------------------------------------- *)
Lemma working_items_app l1 l2 : working_items (l1 ++ l2) = working_items l1 ++ working_items l2.
Proof. unfold working_items. apply flat_map_app. Qed.

Lemma split_nth {A} (l : list A) i a : nth_error l i = Some a ->
  l = firstn i l ++ a :: skipn (S i) l.
Proof.
  revert l; induction i as [|i IH]; intros [|b l] H; cbn in *; try discriminate.
  - now inversion H.
  - f_equal. now apply IH.
Qed.

Lemma upd_split {A} (l : list A) i a b : nth_error l i = Some a ->
  upd l i b = firstn i l ++ b :: skipn (S i) l.
Proof.
  intros H. unfold upd. f_equal.
  revert l H; induction i as [|i IH]; intros [|c l] H; cbn in *; try discriminate; auto.
Qed.

Lemma firstn_length_nth {A} (l : list A) i a : nth_error l i = Some a -> length (firstn i l) = i.
Proof.
  intros H. apply firstn_length_le. apply Nat.lt_le_incl. apply nth_error_Some. congruence.
Qed.

Lemma upd_length {A} (l : list A) i a b : nth_error l i = Some a -> length (upd l i b) = length l.
Proof.
  intros H. rewrite (upd_split l i a b H). rewrite (split_nth l i a H) at 3.
  rewrite !app_length. cbn. reflexivity.
Qed.

Lemma nth_upd_same {A} (l : list A) i a b : nth_error l i = Some a -> nth_error (upd l i b) i = Some b.
Proof.
  intros H. rewrite (upd_split l i a b H).
  rewrite nth_error_app2; rewrite (firstn_length_nth l i a H); [|lia].
  now rewrite Nat.sub_diag.
Qed.

Lemma nth_upd_other {A} (l : list A) i j a b : nth_error l i = Some a -> j <> i ->
  nth_error (upd l i b) j = nth_error l j.
Proof.
  intros H Hj. rewrite (upd_split l i a b H). rewrite (split_nth l i a H) at 3.
  pose proof (firstn_length_nth l i a H) as Hl.
  destruct (Nat.lt_ge_cases j i) as [Hlt|Hge].
  - rewrite !nth_error_app1 by lia. reflexivity.
  - rewrite !nth_error_app2 by lia. rewrite Hl.
    destruct (j - i) as [|k] eqn:E; [lia|]. reflexivity.
Qed.

Lemma forallb_upd {A} (p : A -> bool) l i a b : nth_error l i = Some a ->
  forallb p l = true -> p b = true -> forallb p (upd l i b) = true.
Proof.
  intros H Hl Hb. rewrite (upd_split l i a b H). rewrite (split_nth l i a H) in Hl.
  rewrite forallb_app in *. cbn [forallb] in *.
  apply andb_true_iff in Hl. destruct Hl as [H1 H2]. apply andb_true_iff in H2. destruct H2 as [_ H2].
  now rewrite H1, Hb, H2.
Qed.

Lemma existsb_upd_new {A} (p : A -> bool) l i a b : nth_error l i = Some a ->
  p b = true -> existsb p (upd l i b) = true.
Proof.
  intros H Hb. rewrite (upd_split l i a b H). rewrite existsb_app. cbn [existsb].
  rewrite Hb. now rewrite orb_true_r.
Qed.

Lemma existsb_upd_keep {A} (p : A -> bool) l i a b : nth_error l i = Some a ->
  existsb p l = true -> (p a = true -> p b = true) -> existsb p (upd l i b) = true.
Proof.
  intros H Hl Hab. rewrite (upd_split l i a b H). rewrite (split_nth l i a H) in Hl.
  rewrite existsb_app in *. cbn [existsb] in *.
  apply orb_true_iff in Hl. destruct Hl as [H1|H2].
  - now rewrite H1.
  - apply orb_true_iff in H2. destruct H2 as [H2|H2].
    + rewrite (Hab H2). now rewrite orb_true_r.
    + rewrite H2. now rewrite !orb_true_r.
Qed.

Lemma forallb_nth {A} (p : A -> bool) l i a : forallb p l = true -> nth_error l i = Some a -> p a = true.
Proof. intros H Hn. rewrite forallb_forall in H. apply H. eapply nth_error_In; eauto. Qed.

Lemma existsb_nth {A} (p : A -> bool) l i a : nth_error l i = Some a -> p a = true -> existsb p l = true.
Proof. intros Hn Hp. apply existsb_exists. exists a. split; auto. eapply nth_error_In; eauto. Qed.

Lemma existsb_find {A} (p : A -> bool) l : existsb p l = true -> exists i a, nth_error l i = Some a /\ p a = true.
Proof.
  induction l as [|b l IH]; cbn; intros H; [discriminate|].
  destruct (p b) eqn:E.
  - exists 0, b. auto.
  - cbn in H. destruct (IH H) as (i & a & Hi & Ha). exists (S i), a. auto.
Qed.

Lemma working_items_cons a l : working_items (a :: l) = wi a ++ working_items l.
Proof. reflexivity. Qed.

(* multiset bookkeeping for the worker list *)
Lemma wi_upd_count l i w w' : nth_error l i = Some w -> forall y,
  count_occ Nat.eq_dec (working_items (upd l i w')) y + count_occ Nat.eq_dec (wi w) y
  = count_occ Nat.eq_dec (working_items l) y + count_occ Nat.eq_dec (wi w') y.
Proof.
  intros H y. rewrite (upd_split l i w w' H). rewrite (split_nth l i w H) at 3.
  rewrite !working_items_app, !working_items_cons, !count_occ_app. lia.
Qed.

Lemma wi_upd_len l i w w' : nth_error l i = Some w ->
  count_working (upd l i w') + length (wi w) = count_working l + length (wi w').
Proof.
  intros H. unfold count_working. rewrite (upd_split l i w w' H). rewrite (split_nth l i w H) at 3.
  rewrite !working_items_app, !working_items_cons, !app_length. lia.
Qed.

Lemma wi_upd_nil l i w w' : nth_error l i = Some w -> working_items l = [] -> wi w' = [] ->
  working_items (upd l i w') = [].
Proof.
  intros Hn E Hw'. pose proof (wi_upd_len l i w w' Hn) as H. unfold count_working in H.
  rewrite E, Hw' in H. cbn in H. destruct (working_items (upd l i w')); auto. cbn in H. lia.
Qed.

Lemma working_nonempty l i w x : nth_error l i = Some w -> ws w = WWorking x -> working_items l <> [].
Proof.
  intros Hn Hw E. rewrite (split_nth l i w Hn) in E. rewrite working_items_app in E.
  apply app_eq_nil in E. destruct E as [_ E]. rewrite working_items_cons in E.
  unfold wi at 1 in E. rewrite Hw in E. discriminate.
Qed.

Lemma count_working_le l : count_working l <= length l.
Proof.
  unfold count_working, working_items. induction l as [|w l IH]; cbn [flat_map length]; [lia|].
  rewrite app_length. unfold wi at 1. destruct (ws w); cbn [length app]; lia.
Qed.

Lemma working_exists l : working_items l <> [] -> exists i w x, nth_error l i = Some w /\ ws w = WWorking x.
Proof.
  unfold working_items. induction l as [|w l IH]; cbn [flat_map]; intros H; [congruence|].
  destruct (ws w) eqn:E.
  1,2,3,5: unfold wi in H; rewrite E in H; cbn [app] in H;
           destruct (IH H) as (i & w' & x' & Hi & Hx); exists (S i), w', x'; auto.
  exists 0, w, x. auto.
Qed.

Arguments working_items : simpl never.
Arguments firstn : simpl never.
Arguments skipn : simpl never.
Arguments upd : simpl never.

Ltac splits := repeat match goal with |- _ /\ _ => split end.
Ltac inv_some := match goal with H : Some _ = Some _ |- _ => inversion H; subst; clear H end.
Ltac fields := cbn [queue nworking fini dwait workers done deqlog acc accepted ws cp] in *.
Ltac unf := unfold check_guard, enter, take, finish1, setw, set_acc, in_progress in *.

(* ------------------------------------------------------------------------- *)
(* Inv: counters and multisets (any guard)                                    *)
(* ------------------------------------------------------------------------- *)
Definition Inv (s : st) : Prop :=
  nworking s = count_working (workers s) /\
  (forall y, count_occ Nat.eq_dec (queue s ++ in_progress s ++ done s) y
             = count_occ Nat.eq_dec (accepted s) y) /\
  (forall y, count_occ Nat.eq_dec (map fst (deqlog s)) y
             = count_occ Nat.eq_dec (in_progress s ++ done s) y) /\
  length (workers s) <> 0.

Ltac cnt := repeat rewrite ?count_occ_app, ?map_app in *; cbn [count_occ map fst length app] in *;
            repeat match goal with
                   | |- context [Nat.eq_dec ?a ?b] => destruct (Nat.eq_dec a b)
                   | H : context [Nat.eq_dec ?a ?b] |- _ => destruct (Nat.eq_dec a b)
                   end; try lia.

Lemma setw_Inv s i w w' : nth_error (workers s) i = Some w -> wi w' = wi w -> Inv s -> Inv (setw s i w').
Proof.
  intros Hn Hw (Hc & Hp & Hd & Hl). unfold Inv; unf; fields.
  pose proof (wi_upd_len _ _ _ w' Hn) as L. pose proof (wi_upd_count _ _ _ w' Hn) as C. rewrite Hw in *.
  repeat split.
  - lia.
  - intros y. specialize (Hp y). specialize (C y). cnt.
  - intros y. specialize (Hd y). specialize (C y). cnt.
  - now rewrite (upd_length _ _ _ _ Hn).
Qed.

Lemma take_Inv s i w c : nth_error (workers s) i = Some w -> wi w = [] -> Inv s -> Inv (take s i (mkw (ws w) c)).
Proof.
  intros Hn Hw HI. unfold take. destruct (queue s) as [|x q] eqn:Hq.
  - apply (setw_Inv s i w); auto.
  - destruct HI as (Hc & Hp & Hd & Hl). unfold Inv; unf; fields. rewrite Hq in *.
    pose proof (wi_upd_len _ _ _ (mkw (WWorking x) c) Hn) as L.
    pose proof (wi_upd_count _ _ _ (mkw (WWorking x) c) Hn) as C. rewrite Hw in *.
    unfold wi in L, C; fields. cbn [length count_occ] in L, C.
    repeat split.
    + lia.
    + intros y. specialize (Hp y). specialize (C y). cnt.
    + intros y. specialize (Hd y). specialize (C y). cnt.
    + now rewrite (upd_length _ _ _ _ Hn).
Qed.

Lemma enter_Inv s i w c : nth_error (workers s) i = Some w -> wi w = [] -> Inv s -> Inv (enter s i (mkw (ws w) c)).
Proof.
  intros Hn Hw HI. unfold enter. cbn [cp]. destruct c.
  - apply (setw_Inv s i w); auto.
  - apply take_Inv; auto.
Qed.

Lemma finish1_Inv s i w x : nth_error (workers s) i = Some w -> ws w = WWorking x -> Inv s -> Inv (finish1 s i w x).
Proof.
  intros Hn Hw (Hc & Hp & Hd & Hl). unfold Inv; unf; fields.
  pose proof (wi_upd_len _ _ _ (mkw WReady (cp w)) Hn) as L.
  pose proof (wi_upd_count _ _ _ (mkw WReady (cp w)) Hn) as C.
  unfold wi in L, C; fields. rewrite Hw in *. cbn [length count_occ] in L, C.
  repeat split.
  - lia.
  - intros y. specialize (Hp y). specialize (C y). cnt.
  - intros y. specialize (Hd y). specialize (C y). cnt.
  - now rewrite (upd_length _ _ _ _ Hn).
Qed.

Lemma set_acc_Inv s a : Inv s -> Inv (set_acc s a).
Proof. intros H. exact H. Qed.

Section G.
Variable wc fc : nat -> bool -> bool.

Lemma check_guard_Inv s k : Inv s -> Inv (check_guard wc fc s k).
Proof. intros H. exact H. Qed.

Theorem step_Inv s l s' : Inv s -> step wc fc s l = Some s' -> Inv s'.
Proof.
  intros HI Hs. destruct l; cbn [step] in Hs.
  - (* enqueue *)
    destruct (acc s); try discriminate. destruct (fini s); try discriminate. inv_some.
    destruct HI as (Hc & Hp & Hd & Hl). unfold Inv; unf; fields. repeat split; auto.
    intros y. specialize (Hp y). cnt.
  - (* signal *)
    destruct (acc s); try discriminate. destruct i as [i|].
    + destruct (nth_error (workers s) i) as [w|] eqn:Hn; try discriminate.
      unfold is_waiting in Hs. destruct (ws w) eqn:Hw; try discriminate. inv_some.
      apply (setw_Inv _ i w); auto. unfold wi; fields; now rewrite Hw.
    + destruct (existsb _ _); try discriminate. inv_some. exact HI.
  - (* start *)
    destruct (nth_error (workers s) i) as [w|] eqn:Hn; try discriminate.
    destruct (ws w) eqn:Hw; try discriminate. inv_some.
    replace w with (mkw (ws w) (cp w)) by (destruct w; reflexivity).
    apply enter_Inv; auto. unfold wi; now rewrite Hw.
  - (* retest *)
    destruct (nth_error (workers s) i) as [w|] eqn:Hn; try discriminate.
    destruct (ws w) eqn:Hw; try discriminate. inv_some.
    replace w with (mkw (ws w) (cp w)) by (destruct w; reflexivity).
    apply take_Inv; auto. unfold wi; now rewrite Hw.
  - (* spurious *)
    destruct (nth_error (workers s) i) as [w|] eqn:Hn; try discriminate.
    unfold is_waiting in Hs. destruct (ws w) eqn:Hw; try discriminate. inv_some.
    apply (setw_Inv _ i w); auto. unfold wi; fields; now rewrite Hw.
  - (* die *)
    destruct (nth_error (workers s) i) as [w|] eqn:Hn; try discriminate.
    destruct (ws w) eqn:Hw; try discriminate; destruct (cp w); try discriminate; inv_some;
    apply (setw_Inv _ i w); auto; unfold wi; fields; now rewrite Hw.
  - (* finish *)
    destruct (nth_error (workers s) i) as [w|] eqn:Hn; try discriminate.
    destruct (ws w) eqn:Hw; try discriminate. inv_some.
    pose proof (finish1_Inv s i w x Hn Hw HI) as H1.
    assert (Hn1 : nth_error (workers (finish1 s i w x)) i = Some (mkw WReady (cp w))).
    { unfold finish1; fields. eapply nth_upd_same; eauto. }
    apply (enter_Inv _ i (mkw WReady (cp w)) (cp w) Hn1); auto.
  - destruct (acc s); try discriminate; inv_some; exact HI.
  - destruct (acc s); try discriminate; inv_some. destruct dw; exact HI.
  - destruct (acc s); try discriminate; inv_some; exact HI.
  - destruct (acc s); try discriminate; inv_some; exact HI.
  - (* cancel *)
    destruct (acc s); try discriminate.
    destruct (nth_error (workers s) j) as [w|] eqn:Hn; inv_some; [|exact HI].
    apply (setw_Inv (set_acc s (ACancelling (S j))) j w); auto.
  - destruct (acc s); try discriminate.
    destruct (nth_error (workers s) j) as [w|] eqn:Hn; [destruct (is_dead w); try discriminate|]; inv_some; exact HI.
Qed.

Lemma init_Inv n : n <> 0 -> Inv (init n).
Proof.
  intros Hn. unfold Inv, init, in_progress, count_working; fields.
  assert (H : working_items (repeat (mkw WReady false) n) = []).
  { unfold working_items. clear Hn. induction n; cbn; auto. } rewrite H. cbn [app length count_occ map].
  rewrite repeat_length. auto.
Qed.

Theorem run_Inv ls : forall s s', Inv s -> run wc fc s ls = Some s' -> Inv s'.
Proof.
  induction ls as [|l ls IH]; cbn; intros s s' HI H.
  - now inversion H; subst.
  - destruct (step wc fc s l) eqn:E; try discriminate. eapply IH; [|exact H]. eapply step_Inv; eauto.
Qed.

End G.

(* ------------------------------------------------------------------------- *)
(* Pre: before the first pthread_cancel no worker is cancelled or dead, and   *)
(* queued work always has a worker that will look at it, or a pending signal  *)
(* (no lost wake-up on received_work).  Any guard.                            *)
(* ------------------------------------------------------------------------- *)
Definition fresh (w : worker) : bool := negb (cp w) && negb (is_dead w).

Definition Pre (s : st) : Prop :=
  past_wait (acc s) = false ->
  forallb fresh (workers s) = true /\
  (queue s <> [] -> existsb is_active (workers s) = true \/ acc s = ASig).

Lemma fresh_cp w : fresh w = true -> cp w = false.
Proof. unfold fresh. destruct (cp w); cbn; auto. Qed.

Lemma nowait_active l : length l <> 0 -> forallb fresh l = true -> existsb is_waiting l = false ->
  existsb is_active l = true.
Proof.
  destruct l as [|w l]; cbn [length forallb existsb]; intros Hl Hf Hw; [congruence|].
  apply andb_true_iff in Hf. destruct Hf as [Hf _]. apply orb_false_iff in Hw. destruct Hw as [Hw _].
  unfold fresh, is_dead, is_waiting, is_active in *. destruct (ws w); cbn in *; auto; try discriminate.
  destruct (cp w); discriminate.
Qed.

Lemma allworking_active l : length l <> 0 -> length l <= count_working l -> existsb is_active l = true.
Proof.
  destruct l as [|w l]; cbn [length existsb]; intros Hl Hc; [congruence|].
  unfold count_working in Hc. rewrite working_items_cons, app_length in Hc.
  pose proof (count_working_le l) as Hle. unfold count_working in Hle.
  unfold wi, is_active in *. destruct (ws w); cbn [length] in *; auto; lia.
Qed.

Lemma take_Pre s i w c : nth_error (workers s) i = Some w -> c = false -> Pre s -> Pre (take s i (mkw (ws w) c)).
Proof.
  intros Hn -> HP. unfold Pre, take in *. destruct (queue s) as [|x q] eqn:Hq; unf; fields; intros Ha.
  - destruct (HP Ha) as [Hf _]. split; [|congruence].
    eapply forallb_upd; eauto.
  - destruct (HP Ha) as [Hf _]. split.
    + eapply forallb_upd; eauto.
    + intros _. left. eapply existsb_upd_new; eauto.
Qed.

Lemma wake_acc_past a : past_wait (wake_acc a) = past_wait a.
Proof. destruct a; reflexivity. Qed.

Lemma wake_acc_sig a : wake_acc a = ASig <-> a = ASig.
Proof. destruct a; cbn; split; congruence. Qed.

Lemma finish1_Pre s i w x : nth_error (workers s) i = Some w -> Pre s -> Pre (finish1 s i w x).
Proof.
  intros Hn HP. unfold Pre, finish1 in *; fields. intros Ha.
  assert (Ha' : past_wait (acc s) = false).
  { destruct (finish_signals s); auto. now rewrite wake_acc_past in Ha. }
  destruct (HP Ha') as [Hf _]. split.
  - eapply forallb_upd; eauto. pose proof (forallb_nth _ _ _ _ Hf Hn) as F.
    unfold fresh, is_dead in *; fields. apply andb_true_iff in F. destruct F as [F _]. now rewrite F.
  - intros _. left. eapply existsb_upd_new; eauto.
Qed.

Section G2.
Variable wc fc : nat -> bool -> bool.

Lemma check_guard_workers s k : workers (check_guard wc fc s k) = workers s /\ queue (check_guard wc fc s k) = queue s
  /\ nworking (check_guard wc fc s k) = nworking s.
Proof. unf; fields. auto. Qed.

Lemma Pre_acc_change s a : acc s <> ASig -> past_wait (acc s) = false -> Pre s -> Pre (set_acc s a).
Proof.
  intros Hs E HP. unfold Pre in *. unf; fields. intros Ha.
  destruct (HP E) as [Hf Hq]. split; auto. intros Hne. destruct (Hq Hne) as [H|H]; [auto|contradiction].
Qed.

Lemma Pre_post s : past_wait (acc s) = true -> Pre s.
Proof. intros H. unfold Pre. rewrite H. discriminate. Qed.

Theorem step_Pre s l s' : Inv s -> Pre s -> step wc fc s l = Some s' -> Pre s'.
Proof.
  intros HI HP Hs. destruct l; cbn [step] in Hs.
  - (* enqueue *)
    destruct (acc s) eqn:Ha; try discriminate. destruct (fini s); try discriminate. inv_some.
    unfold Pre in *; fields. rewrite Ha in HP. destruct (HP eq_refl) as [Hf _].
    destruct (Nat.ltb (nworking s) (length (workers s))) eqn:E; intros _; split; auto.
    intros _. left. apply Nat.ltb_ge in E. destruct HI as (Hc & _ & _ & Hl).
    apply allworking_active; auto. lia.
  - (* signal *)
    destruct (acc s) eqn:Ha; try discriminate.
    assert (HP' := HP). unfold Pre in HP'. rewrite Ha in HP'. destruct (HP' eq_refl) as [Hf _].
    destruct i as [i|].
    + destruct (nth_error (workers s) i) as [w|] eqn:Hn; try discriminate.
      destruct (is_waiting w) eqn:Hw; try discriminate. inv_some.
      unfold Pre; unf; fields. intros _. split.
      * eapply forallb_upd; eauto. pose proof (forallb_nth _ _ _ _ Hf Hn) as F.
        unfold fresh, is_dead in *; fields. apply andb_true_iff in F. destruct F as [F _]. now rewrite F.
      * intros _. left. eapply existsb_upd_new; eauto.
    + destruct (existsb is_waiting (workers s)) eqn:Hw; try discriminate. inv_some.
      unfold Pre; unf; fields. intros _. split; auto. intros _. left.
      destruct HI as (_ & _ & _ & Hl). apply nowait_active; auto.
  - (* start *)
    destruct (nth_error (workers s) i) as [w|] eqn:Hn; try discriminate.
    destruct (ws w) eqn:Hw; try discriminate. inv_some.
    destruct (past_wait (acc s)) eqn:Ha.
    + apply Pre_post. unfold enter, take. destruct (cp w); [|destruct (queue s)]; unf; fields; auto.
    + destruct (HP Ha) as [Hf _]. pose proof (fresh_cp _ (forallb_nth _ _ _ _ Hf Hn)) as Hcp.
      unfold enter. rewrite Hcp. replace w with (mkw (ws w) (cp w)) by (destruct w; reflexivity). fields.
      apply take_Pre; auto.
  - (* retest *)
    destruct (nth_error (workers s) i) as [w|] eqn:Hn; try discriminate.
    destruct (ws w) eqn:Hw; try discriminate. inv_some.
    destruct (past_wait (acc s)) eqn:Ha.
    + apply Pre_post. unfold take. destruct (queue s); unf; fields; auto.
    + destruct (HP Ha) as [Hf _]. pose proof (fresh_cp _ (forallb_nth _ _ _ _ Hf Hn)) as Hcp.
      replace w with (mkw (ws w) (cp w)) by (destruct w; reflexivity).
      apply take_Pre; auto.
  - (* spurious *)
    destruct (nth_error (workers s) i) as [w|] eqn:Hn; try discriminate.
    destruct (is_waiting w) eqn:Hw; try discriminate. inv_some.
    unfold Pre in *; unf; fields. intros Ha. destruct (HP Ha) as [Hf Hq]. split.
    + eapply forallb_upd; eauto. pose proof (forallb_nth _ _ _ _ Hf Hn) as F.
      unfold fresh, is_dead in *; fields. apply andb_true_iff in F. destruct F as [F _]. now rewrite F.
    + intros _. left. eapply existsb_upd_new; eauto.
  - (* die *)
    destruct (nth_error (workers s) i) as [w|] eqn:Hn; try discriminate.
    destruct (past_wait (acc s)) eqn:Ha.
    + apply Pre_post. destruct (ws w); try discriminate; destruct (cp w); try discriminate; inv_some; unf; fields; auto.
    + destruct (HP Ha) as [Hf _]. pose proof (fresh_cp _ (forallb_nth _ _ _ _ Hf Hn)) as Hcp. rewrite Hcp in Hs.
      destruct (ws w); discriminate.
  - (* finish *)
    destruct (nth_error (workers s) i) as [w|] eqn:Hn; try discriminate.
    destruct (ws w) eqn:Hw; try discriminate. inv_some.
    pose proof (finish1_Pre s i w x Hn HP) as H1.
    assert (Hn1 : nth_error (workers (finish1 s i w x)) i = Some (mkw WReady (cp w))).
    { unfold finish1; fields. eapply nth_upd_same; eauto. }
    destruct (past_wait (acc (finish1 s i w x))) eqn:Ha.
    + apply Pre_post. unfold enter, take. cbn [cp]. destruct (cp w); [|destruct (queue (finish1 s i w x))]; unf; fields; auto.
    + destruct (H1 Ha) as [Hf _]. pose proof (fresh_cp _ (forallb_nth _ _ _ _ Hf Hn1)) as Hcp. cbn [cp] in Hcp.
      unfold enter. cbn [cp]. rewrite Hcp.
      apply (take_Pre _ i (mkw WReady (cp w)) false Hn1); auto.
  - (* wait enter *)
    destruct (acc s) eqn:Ha; try discriminate. inv_some. apply Pre_acc_change; auto; rewrite Ha; [discriminate|reflexivity].
  - (* fini enter *)
    destruct (acc s) eqn:Ha; try discriminate. inv_some.
    assert (P1 : Pre (mkst (queue s) (nworking s) true dw (workers s) (done s) (deqlog s) (acc s) (accepted s))) by exact HP.
    rewrite Ha in P1. destruct dw; apply Pre_acc_change; auto; fields; try discriminate; reflexivity.
  - (* wait wake *)
    destruct (acc s) eqn:Ha; try discriminate. inv_some. apply Pre_acc_change; auto; rewrite Ha; [discriminate|reflexivity].
  - (* acc spurious *)
    destruct (acc s) eqn:Ha; try discriminate. inv_some. apply Pre_acc_change; auto; rewrite Ha; [discriminate|reflexivity].
  - (* cancel *)
    destruct (acc s) eqn:Ha; try discriminate.
    destruct (nth_error (workers s) j) as [w|] eqn:Hn; inv_some; apply Pre_post; unf; fields; auto.
  - (* join *)
    destruct (acc s) eqn:Ha; try discriminate.
    destruct (nth_error (workers s) j) as [w|] eqn:Hn; [destruct (is_dead w); try discriminate|]; inv_some;
      apply Pre_post; unf; fields; auto.
Qed.

Lemma init_Pre n : Pre (init n).
Proof.
  unfold Pre, init; fields. intros _. split; [|congruence].
  induction n; cbn; auto.
Qed.

Theorem run_Pre ls : forall s s', Inv s -> Pre s -> run wc fc s ls = Some s' -> Pre s'.
Proof.
  induction ls as [|l ls IH]; cbn; intros s s' HI HP H.
  - now inversion H; subst.
  - destruct (step wc fc s l) eqn:E; try discriminate. eapply IH; [| |exact H].
    + eapply step_Inv; eauto.
    + eapply step_Pre; eauto.
Qed.

End G2.

(* ------------------------------------------------------------------------- *)
(* BlockedOk: a thread blocked on finished_work always has work outstanding   *)
(* (the last finishing worker signals) — no lost wake-up on finished_work.    *)
(* Holds for every guard that is true only when something is outstanding.     *)
(* ------------------------------------------------------------------------- *)
Definition sound_guard (g : nat -> bool -> bool) : Prop := forall n h, g n h = true -> n <> 0 \/ h = true.

Definition BlockedOk (s : st) : Prop := forall k, acc s = ABlocked k -> nworking s <> 0 \/ queue s <> [].

Lemma guard_or_sound : sound_guard guard_or.
Proof. intros n h. unfold guard_or. destruct n, h; cbn; auto; discriminate. Qed.
Lemma guard_and_sound : sound_guard guard_and.
Proof. intros n h. unfold guard_and. destruct n, h; cbn; auto; discriminate. Qed.

Lemma nonempty_true {A} (l : list A) : nonempty l = true -> l <> [].
Proof. destruct l; cbn; congruence. Qed.
Lemma nonempty_false {A} (l : list A) : nonempty l = false -> l = [].
Proof. destruct l; cbn; congruence. Qed.

Lemma take_BlockedOk s i w : BlockedOk s -> BlockedOk (take s i w).
Proof.
  unfold BlockedOk, take. intros H k. destruct (queue s) eqn:Hq; unf; fields; intros Ha.
  - rewrite Hq. eauto.
  - left. lia.
Qed.

Lemma enter_BlockedOk s i w : BlockedOk s -> BlockedOk (enter s i w).
Proof.
  intros H. unfold enter. destruct (cp w); [exact H|]. now apply take_BlockedOk.
Qed.

Lemma finish1_BlockedOk s i w x : BlockedOk (finish1 s i w x).
Proof.
  unfold BlockedOk, finish1; fields. intros k. unfold finish_signals.
  destruct (Nat.eqb (pred (nworking s)) 0) eqn:E1; cbn [andb].
  - destruct (queue s) eqn:Hq; cbn [nonempty negb].
    + destruct (acc s); cbn; discriminate.
    + intros _. right. congruence.
  - intros _. left. now apply Nat.eqb_neq.
Qed.

Section G3.
Variable wc fc : nat -> bool -> bool.
Hypothesis Hwc : sound_guard wc.
Hypothesis Hfc : sound_guard fc.

Lemma check_guard_BlockedOk s k : BlockedOk (check_guard wc fc s k).
Proof.
  unfold BlockedOk, check_guard; unf; fields. intros k'.
  destruct (guard_of wc fc k (nworking s) (nonempty (queue s))) eqn:G.
  - intros _. destruct k; cbn [guard_of] in G; [apply Hwc in G|apply Hfc in G];
      (destruct G as [G|G]; [left; auto| right; now apply nonempty_true]).
  - destruct k; cbn; discriminate.
Qed.

Theorem step_BlockedOk s l s' : BlockedOk s -> step wc fc s l = Some s' -> BlockedOk s'.
Proof.
  intros HB Hs. destruct l; cbn [step] in Hs.
  - destruct (acc s) eqn:Ha; try discriminate. destruct (fini s); try discriminate. inv_some.
    unfold BlockedOk; fields. intros k. destruct (Nat.ltb _ _); discriminate.
  - destruct (acc s) eqn:Ha; try discriminate. destruct i as [i|].
    + destruct (nth_error (workers s) i) as [w|] eqn:Hn; try discriminate.
      destruct (is_waiting w); try discriminate. inv_some. unfold BlockedOk; unf; fields. discriminate.
    + destruct (existsb _ _); try discriminate. inv_some. unfold BlockedOk; unf; fields. discriminate.
  - destruct (nth_error (workers s) i) as [w|] eqn:Hn; try discriminate.
    destruct (ws w); try discriminate. inv_some. now apply enter_BlockedOk.
  - destruct (nth_error (workers s) i) as [w|] eqn:Hn; try discriminate.
    destruct (ws w); try discriminate. inv_some. now apply take_BlockedOk.
  - destruct (nth_error (workers s) i) as [w|] eqn:Hn; try discriminate.
    destruct (is_waiting w); try discriminate. inv_some. exact HB.
  - destruct (nth_error (workers s) i) as [w|] eqn:Hn; try discriminate.
    destruct (ws w); try discriminate; destruct (cp w); try discriminate; inv_some; exact HB.
  - destruct (nth_error (workers s) i) as [w|] eqn:Hn; try discriminate.
    destruct (ws w); try discriminate. inv_some. apply enter_BlockedOk. apply finish1_BlockedOk.
  - destruct (acc s); try discriminate. inv_some. apply check_guard_BlockedOk.
  - destruct (acc s); try discriminate. inv_some. destruct dw.
    + apply check_guard_BlockedOk.
    + unfold BlockedOk; unf; fields. discriminate.
  - destruct (acc s); try discriminate. inv_some. apply check_guard_BlockedOk.
  - destruct (acc s); try discriminate. inv_some. unfold BlockedOk; unf; fields. discriminate.
  - destruct (acc s); try discriminate.
    destruct (nth_error (workers s) j); inv_some; unfold BlockedOk; unf; fields; discriminate.
  - destruct (acc s); try discriminate.
    destruct (nth_error (workers s) j) as [w|]; [destruct (is_dead w); try discriminate|]; inv_some;
      unfold BlockedOk; unf; fields; discriminate.
Qed.

Theorem run_BlockedOk ls : forall s s', BlockedOk s -> run wc fc s ls = Some s' -> BlockedOk s'.
Proof.
  induction ls as [|l ls IH]; cbn; intros s s' HB H.
  - now inversion H; subst.
  - destruct (step wc fc s l) eqn:E; try discriminate. eapply IH; [|exact H]. eapply step_BlockedOk; eauto.
Qed.
End G3.

Lemma init_BlockedOk n : BlockedOk (init n).
Proof. unfold BlockedOk, init; fields. discriminate. Qed.

(* ------------------------------------------------------------------------- *)
(* work_wait with the || guard returns only when idle                         *)
(* ------------------------------------------------------------------------- *)
Lemma guard_or_false n h : guard_or n h = false -> n = 0 /\ h = false.
Proof. unfold guard_or. destruct n, h; cbn; auto; discriminate. Qed.

Lemma idle_items s : Inv s -> nworking s = 0 -> in_progress s = [].
Proof.
  intros (Hc & _) H0. unfold in_progress, count_working in *. rewrite H0 in Hc.
  destruct (working_items (workers s)); auto; discriminate.
Qed.

(* a transition on which work_wait returns to its caller *)
Definition wait_return (s : st) (l : label) (s' : st) : Prop :=
  (l = LWaitEnter \/ (l = LWaitWake /\ acc s = AWoken KWait)) /\ acc s' = ARun.

Theorem wait_exit_idle fc s l s' : Inv s -> step guard_or fc s l = Some s' -> wait_return s l s' ->
  queue s' = [] /\ nworking s' = 0 /\ in_progress s' = [].
Proof.
  intros HI Hs [[->|[-> Ha]] Hr]; cbn [step] in Hs.
  - destruct (acc s); try discriminate. inv_some. unfold check_guard in *; unf; fields.
    cbn [guard_of] in *. destruct (guard_or _ _) eqn:G; [discriminate|].
    apply guard_or_false in G. destruct G as [G1 G2]. apply nonempty_false in G2.
    repeat split; auto. now apply idle_items.
  - rewrite Ha in Hs. inv_some. unfold check_guard in *; unf; fields.
    cbn [guard_of] in *. destruct (guard_or _ _) eqn:G; [discriminate|].
    apply guard_or_false in G. destruct G as [G1 G2]. apply nonempty_false in G2.
    repeat split; auto. now apply idle_items.
Qed.

(* ------------------------------------------------------------------------- *)
(* Drained: work_fini (w, 1) with the || guard issues no cancel before         *)
(* everything accepted is done                                                *)
(* ------------------------------------------------------------------------- *)
Definition Drained (s : st) : Prop :=
  dwait s = true -> past_wait (acc s) = true -> queue s = [] /\ in_progress s = [].

Lemma items_nil_upd l i w w' : nth_error l i = Some w -> working_items l = [] -> wi w' = [] ->
  working_items (upd l i w') = [].
Proof. apply wi_upd_nil. Qed.

Lemma nil_not_working l i w : nth_error l i = Some w -> working_items l = [] -> wi w = [].
Proof.
  intros Hn E. unfold wi. destruct (ws w) eqn:Hw; auto. exfalso. eapply working_nonempty; eauto.
Qed.

Theorem step_Drained wc s l s' : Inv s -> Drained s -> step wc guard_or s l = Some s' -> Drained s'.
Proof.
  intros HI HD Hs. unfold Drained in *. destruct l; cbn [step] in Hs.
  - destruct (acc s) eqn:Ha; try discriminate. destruct (fini s); try discriminate. inv_some. fields.
    destruct (Nat.ltb _ _); discriminate.
  - destruct (acc s) eqn:Ha; try discriminate. destruct i as [i|].
    + destruct (nth_error (workers s) i) as [w|] eqn:Hn; try discriminate.
      destruct (is_waiting w); try discriminate. inv_some. unf; fields. discriminate.
    + destruct (existsb _ _); try discriminate. inv_some. unf; fields. discriminate.
  - (* start *)
    destruct (nth_error (workers s) i) as [w|] eqn:Hn; try discriminate.
    destruct (ws w) eqn:Hw; try discriminate. inv_some.
    unfold enter, take. destruct (cp w); [|destruct (queue s) eqn:Hq]; unf; fields; intros D P;
      destruct (HD D P) as (Q & W); try discriminate; split; auto; eapply items_nil_upd; eauto.
  - (* retest *)
    destruct (nth_error (workers s) i) as [w|] eqn:Hn; try discriminate.
    destruct (ws w) eqn:Hw; try discriminate. inv_some.
    unfold take. destruct (queue s) eqn:Hq; unf; fields; intros D P;
      destruct (HD D P) as (Q & W); try discriminate; split; auto; eapply items_nil_upd; eauto.
  - destruct (nth_error (workers s) i) as [w|] eqn:Hn; try discriminate.
    destruct (is_waiting w); try discriminate. inv_some. unf; fields. intros D P.
    destruct (HD D P) as (Q & W). split; auto. eapply items_nil_upd; eauto.
  - destruct (nth_error (workers s) i) as [w|] eqn:Hn; try discriminate.
    destruct (ws w); try discriminate; destruct (cp w); try discriminate; inv_some; unf; fields; intros D P;
      destruct (HD D P) as (Q & W); split; auto; eapply items_nil_upd; eauto.
  - (* finish: impossible once drained *)
    destruct (nth_error (workers s) i) as [w|] eqn:Hn; try discriminate.
    destruct (ws w) eqn:Hw; try discriminate. inv_some.
    intros D P. exfalso.
    assert (D' : dwait s = true).
    { unfold enter, take in D. cbn [cp] in D. destruct (cp w); [|destruct (queue (finish1 s i w x))]; unf; fields; auto. }
    assert (P' : past_wait (acc s) = true).
    { unfold enter, take in P. cbn [cp] in P.
      destruct (cp w); [|destruct (queue (finish1 s i w x))]; unf; fields;
        (destruct (finish_signals s); [now rewrite wake_acc_past in P|auto]). }
    destruct (HD D' P') as (_ & W). eapply working_nonempty; eauto.
  - destruct (acc s) eqn:Ha; try discriminate. inv_some. unf; fields.
    destruct (guard_of _ _ _ _ _); discriminate.
  - (* fini enter *)
    destruct (acc s) eqn:Ha; try discriminate. inv_some. destruct dw.
    + unf; fields. cbn [guard_of]. destruct (guard_or _ _) eqn:G; [discriminate|]. intros _ _.
      apply guard_or_false in G. destruct G as [G1 G2]. apply nonempty_false in G2. split; auto.
      now apply idle_items.
    + unf; fields. discriminate.
  - (* wait wake *)
    destruct (acc s) eqn:Ha; try discriminate. inv_some. unf; fields.
    destruct k; cbn [guard_of guard_exit].
    + destruct (wc _ _); discriminate.
    + destruct (guard_or _ _) eqn:G; [discriminate|]. intros _ _.
      apply guard_or_false in G. destruct G as [G1 G2]. apply nonempty_false in G2. split; auto.
      now apply idle_items.
  - destruct (acc s) eqn:Ha; try discriminate. inv_some. unf; fields. discriminate.
  - (* cancel *)
    destruct (acc s) eqn:Ha; try discriminate.
    destruct (nth_error (workers s) j) as [w|] eqn:Hn; inv_some; unf; fields; intros D _;
      destruct (HD D eq_refl) as (Q & W); split; auto.
    eapply items_nil_upd; eauto. unfold wi; fields. apply (nil_not_working _ _ _ Hn W).
  - destruct (acc s) eqn:Ha; try discriminate.
    destruct (nth_error (workers s) j) as [w|] eqn:Hn; [destruct (is_dead w); try discriminate|]; inv_some;
      unf; fields; intros D _; exact (HD D eq_refl).
Qed.

Lemma init_Drained n : Drained (init n).
Proof. unfold Drained, init; fields. discriminate. Qed.

Theorem run_Drained wc ls : forall s s', Inv s -> Drained s -> run wc guard_or s ls = Some s' -> Drained s'.
Proof.
  induction ls as [|l ls IH]; cbn; intros s s' HI HD H.
  - now inversion H; subst.
  - destruct (step wc guard_or s l) eqn:E; try discriminate. eapply IH; [| |exact H].
    + eapply step_Inv; eauto.
    + eapply step_Drained; eauto.
Qed.

(* ------------------------------------------------------------------------- *)
(* Progress: a finite schedule of worker steps (plus delivery of the pending  *)
(* signal) drains everything.                                                 *)
(* ------------------------------------------------------------------------- *)
Definition mu (s : st) : nat := 2 * length (queue s) + nworking s.
Definition pending (s : st) : Prop := queue s <> [] \/ nworking s <> 0.

Lemma mu_zero s : mu s = 0 -> queue s = [] /\ nworking s = 0.
Proof. unfold mu. destruct (queue s); cbn [length]; intros; split; auto; lia. Qed.

Lemma mu_pending s : pending s -> mu s <> 0.
Proof. unfold mu, pending. destruct (queue s); cbn [length]; intros [H|H]; try congruence; lia. Qed.

Section G4.
Variable wc fc : nat -> bool -> bool.

Lemma take_mu s i w : queue s <> [] -> mu (take s i w) < mu s.
Proof. unfold take, mu. destruct (queue s); [congruence|]. intros _. unf; fields. cbn [length]. lia. Qed.

Lemma take_acc s i w : acc (take s i w) = acc s.
Proof. unfold take. destruct (queue s); unf; fields; auto. Qed.

Lemma enter_acc s i w : acc (enter s i w) = acc s.
Proof. unfold enter. destruct (cp w); [unf; fields; auto|apply take_acc]. Qed.

Lemma finish_mu s i w x w' : nworking s <> 0 -> mu (enter (finish1 s i w x) i w') < mu s.
Proof.
  intros Hn. unfold enter, take. destruct (cp w'); [|destruct (queue (finish1 s i w x)) eqn:Hq];
    unfold mu, finish1 in *; unf; fields; try rewrite Hq; cbn [length]; lia.
Qed.

Lemma finish_acc s i w x w' :
  past_wait (acc (enter (finish1 s i w x) i w')) = past_wait (acc s) /\
  (acc (enter (finish1 s i w x) i w') = ASig <-> acc s = ASig).
Proof.
  rewrite enter_acc. unfold finish1; fields. destruct (finish_signals s).
  - split; [apply wake_acc_past|apply wake_acc_sig].
  - split; [reflexivity|tauto].
Qed.

Lemma drain_noSig : forall m s, Inv s -> Pre s -> past_wait (acc s) = false -> acc s <> ASig -> mu s <= m ->
  exists sched s', forallb worker_label sched = true /\ run wc fc s sched = Some s' /\
                   queue s' = [] /\ nworking s' = 0 /\ Inv s' /\ (mu s <> 0 -> sched <> []).
Proof.
  induction m as [|m IH]; intros s HI HP Ha Hs Hm.
  - assert (Z : mu s = 0) by lia. destruct (mu_zero s Z) as [Q W].
    exists [], s. cbn. splits; auto.
  - destruct (Nat.eq_dec (mu s) 0) as [Z|NZ].
    { destruct (mu_zero s Z) as [Q W]. exists [], s. cbn. splits; auto. }
    destruct (Nat.eq_dec (nworking s) 0) as [W0|WN].
    + (* nobody working: the queue is non-empty and an active worker takes its head *)
      assert (Q : queue s <> []).
      { intros E. apply NZ. unfold mu. rewrite E, W0. reflexivity. }
      destruct (HP Ha) as [Hf Hq]. destruct (Hq Q) as [Act|]; [|contradiction].
      destruct (existsb_find _ _ Act) as (i & w & Hn & Hact).
      pose proof (fresh_cp _ (forallb_nth _ _ _ _ Hf Hn)) as Hcp.
      assert (Hitems : in_progress s = []) by (apply idle_items; auto).
      unfold is_active in Hact. destruct (ws w) eqn:Hw; try discriminate.
      * (* Ready *)
        assert (St : step wc fc s (LStart i) = Some (take s i w)).
        { cbn [step]. rewrite Hn, Hw. unfold enter. now rewrite Hcp. }
        destruct (IH (take s i w)) as (sched & s' & F & R & Q' & W' & I' & _).
        -- eapply step_Inv; eauto.
        -- eapply step_Pre; eauto.
        -- now rewrite take_acc.
        -- now rewrite take_acc.
        -- pose proof (take_mu s i w Q). lia.
        -- exists (LStart i :: sched), s'. cbn [forallb worker_label run]. rewrite St. splits; auto. discriminate.
      * (* Woken *)
        assert (St : step wc fc s (LRetest i) = Some (take s i w)).
        { cbn [step]. now rewrite Hn, Hw. }
        destruct (IH (take s i w)) as (sched & s' & F & R & Q' & W' & I' & _).
        -- eapply step_Inv; eauto.
        -- eapply step_Pre; eauto.
        -- now rewrite take_acc.
        -- now rewrite take_acc.
        -- pose proof (take_mu s i w Q). lia.
        -- exists (LRetest i :: sched), s'. cbn [forallb worker_label run]. rewrite St. splits; auto. discriminate.
      * exfalso. unfold in_progress in Hitems. eapply working_nonempty; eauto.
    + (* somebody is working: let it finish *)
      assert (Hne : working_items (workers s) <> []).
      { destruct HI as (Hc & _). unfold count_working in Hc. intros E. rewrite E in Hc. cbn in Hc. contradiction. }
      destruct (working_exists _ Hne) as (i & w & x & Hn & Hw).
      assert (St : step wc fc s (LFinish i) = Some (enter (finish1 s i w x) i (mkw WReady (cp w)))).
      { cbn [step]. now rewrite Hn, Hw. }
      destruct (finish_acc s i w x (mkw WReady (cp w))) as [A1 A2].
      destruct (IH (enter (finish1 s i w x) i (mkw WReady (cp w)))) as (sched & s' & F & R & Q' & W' & I' & _).
      * eapply step_Inv; eauto.
      * eapply step_Pre; eauto.
      * now rewrite A1.
      * intros E. apply Hs. now apply A2.
      * pose proof (finish_mu s i w x (mkw WReady (cp w)) WN). lia.
      * exists (LFinish i :: sched), s'. cbn [forallb worker_label run]. rewrite St. splits; auto. discriminate.
Qed.

Lemma drain_pre s : Inv s -> Pre s -> past_wait (acc s) = false ->
  exists sched s', forallb worker_label sched = true /\ run wc fc s sched = Some s' /\
                   queue s' = [] /\ nworking s' = 0 /\ Inv s' /\ (mu s <> 0 -> sched <> []).
Proof.
  intros HI HP Ha. destruct (acc s) eqn:E;
    try (apply (drain_noSig (mu s)); auto; rewrite E; first [reflexivity|discriminate]).
  (* ASig: deliver the signal first *)
  assert (exists oi s1, step wc fc s (LSignal oi) = Some s1 /\ acc s1 = ARun /\ mu s1 = mu s) as (oi & s1 & St & A1 & M1).
  { destruct (existsb is_waiting (workers s)) eqn:Hw.
    - destruct (existsb_find _ _ Hw) as (i & w & Hn & Hiw).
      exists (Some i). eexists. cbn [step]. rewrite E, Hn, Hiw. split; [reflexivity|]. unf; fields. auto.
    - exists None. eexists. cbn [step]. rewrite E, Hw. split; [reflexivity|]. unf; fields. auto. }
  destruct (drain_noSig (mu s1) s1) as (sched & s' & F & R & Q' & W' & I' & _).
  - eapply step_Inv; eauto.
  - eapply step_Pre; eauto.
  - now rewrite A1.
  - rewrite A1. discriminate.
  - lia.
  - exists (LSignal oi :: sched), s'. cbn [forallb worker_label run]. rewrite St. splits; auto. discriminate.
Qed.
End G4.

Lemma done_all s : Inv s -> queue s = [] -> in_progress s = [] -> Permutation (done s) (accepted s).
Proof.
  intros (_ & Hp & _) Q W. apply (Permutation_count_occ Nat.eq_dec). intros y. specialize (Hp y).
  rewrite Q, W in Hp. exact Hp.
Qed.

(* reachable-state packaging *)
Lemma reach_invs wc fc n tr s : n <> 0 -> run wc fc (init n) tr = Some s -> Inv s /\ Pre s.
Proof.
  intros Hn R. split.
  - eapply run_Inv; eauto. now apply init_Inv.
  - eapply run_Pre; eauto. now apply init_Inv. apply init_Pre.
Qed.

Theorem drain_schedule wc n tr s : n <> 0 -> run wc guard_or (init n) tr = Some s ->
  (past_wait (acc s) = true -> dwait s = true) ->
  exists sched s', forallb worker_label sched = true /\ run wc guard_or s sched = Some s' /\
                   queue s' = [] /\ nworking s' = 0 /\ in_progress s' = [] /\
                   Permutation (done s') (accepted s') /\ (pending s -> sched <> []).
Proof.
  intros Hn R Hd. destruct (reach_invs _ _ _ _ _ Hn R) as [HI HP].
  destruct (past_wait (acc s)) eqn:Ha.
  - assert (HD : Drained s).
    { apply (run_Drained wc tr (init n) s); [now apply init_Inv | apply init_Drained | exact R]. }
    destruct (HD (Hd eq_refl) Ha) as [Q W].
    assert (W0 : nworking s = 0).
    { destruct HI as (Hc & _). unfold in_progress, count_working in *. now rewrite W in Hc. }
    exists [], s. cbn. splits; auto.
    + now apply done_all.
    + intros [P|P]; contradiction.
  - destruct (drain_pre wc guard_or s HI HP Ha) as (sched & s' & F & R' & Q & W & I' & NE).
    exists sched, s'. splits; auto.
    + now apply idle_items.
    + apply done_all; auto. now apply idle_items.
    + intros P. apply NE. now apply mu_pending.
Qed.

(* ------------------------------------------------------------------------- *)
(* The headline safety theorems                                               *)
(* ------------------------------------------------------------------------- *)
Lemma NoDup_app_r {A} (l l' : list A) : NoDup (l ++ l') -> NoDup l'.
Proof. induction l as [|a l IH]; cbn; auto. intros H. inversion H; subst. auto. Qed.

Theorem exactly_once wc fc n tr s : n <> 0 -> run wc fc (init n) tr = Some s ->
  Permutation (queue s ++ in_progress s ++ done s) (accepted s) /\
  Permutation (map fst (deqlog s)) (in_progress s ++ done s) /\
  (NoDup (accepted s) -> NoDup (queue s ++ in_progress s ++ done s) /\ NoDup (map fst (deqlog s))).
Proof.
  intros Hn R. destruct (reach_invs _ _ _ _ _ Hn R) as [(_ & Hp & Hd & _) _].
  assert (P1 : Permutation (queue s ++ in_progress s ++ done s) (accepted s))
    by now apply (Permutation_count_occ Nat.eq_dec).
  assert (P2 : Permutation (map fst (deqlog s)) (in_progress s ++ done s))
    by now apply (Permutation_count_occ Nat.eq_dec).
  splits; auto. intros ND.
  assert (N1 : NoDup (queue s ++ in_progress s ++ done s)).
  { eapply Permutation_NoDup; [apply Permutation_sym; exact P1|exact ND]. }
  split; auto.
  eapply Permutation_NoDup; [apply Permutation_sym; exact P2|]. eapply NoDup_app_r; eauto.
Qed.

Theorem wait_returns_idle fc n tr s l s' : n <> 0 -> run guard_or fc (init n) tr = Some s ->
  step guard_or fc s l = Some s' -> wait_return s l s' ->
  queue s' = [] /\ nworking s' = 0 /\ in_progress s' = [] /\ Permutation (done s') (accepted s').
Proof.
  intros Hn R St WR. destruct (reach_invs _ _ _ _ _ Hn R) as [HI _].
  destruct (wait_exit_idle fc s l s' HI St WR) as (Q & W & P). splits; auto.
  apply done_all; auto. eapply step_Inv; eauto.
Qed.

Theorem fini_drains wc n tr s : n <> 0 -> run wc guard_or (init n) tr = Some s -> dwait s = true ->
  (past_wait (acc s) = true \/ exists i w, nth_error (workers s) i = Some w /\ cp w = true) ->
  queue s = [] /\ in_progress s = [] /\ Permutation (done s) (accepted s).
Proof.
  intros Hn R D H. destruct (reach_invs _ _ _ _ _ Hn R) as [HI HP].
  assert (P : past_wait (acc s) = true).
  { destruct H as [H|(i & w & Hi & Hc)]; auto. destruct (past_wait (acc s)) eqn:E; auto.
    destruct (HP E) as [Hf _]. pose proof (fresh_cp _ (forallb_nth _ _ _ _ Hf Hi)). congruence. }
  assert (HD : Drained s).
  { apply (run_Drained wc tr (init n) s); [now apply init_Inv | apply init_Drained | exact R]. }
  destruct (HD D P) as [Q W]. splits; auto. now apply done_all.
Qed.

(* no lost wake-up, both condition variables *)
Theorem no_lost_wakeup wc fc n tr s : n <> 0 -> sound_guard wc -> sound_guard fc ->
  run wc fc (init n) tr = Some s ->
  (past_wait (acc s) = false -> queue s <> [] ->
     existsb is_active (workers s) = true \/ (acc s = ASig /\ existsb is_waiting (workers s) = true)) /\
  (forall k, acc s = ABlocked k -> nworking s <> 0 \/ queue s <> []).
Proof.
  intros Hn Hw Hf R. destruct (reach_invs _ _ _ _ _ Hn R) as [HI HP]. split.
  - intros Ha Q. destruct (HP Ha) as [Hfr Hq]. destruct (existsb is_active (workers s)) eqn:E; auto.
    right. destruct (Hq Q) as [|S]; [discriminate|]. split; auto.
    destruct (existsb is_waiting (workers s)) eqn:W; auto.
    destruct HI as (_ & _ & _ & Hl). rewrite (nowait_active _ Hl Hfr W) in E. discriminate.
  - apply (run_BlockedOk wc fc Hw Hf tr (init n) s); [apply init_BlockedOk|exact R].
Qed.

(* ------------------------------------------------------------------------- *)
(* Refutations                                                                *)
(* ------------------------------------------------------------------------- *)
(* work_wait returns although something is queued or in progress *)
Definition early_return (wc fc : nat -> bool -> bool) : Prop :=
  exists tr s l s', run wc fc (init 1) tr = Some s /\ step wc fc s l = Some s' /\ wait_return s l s' /\ pending s'.
(* work_wait blocks with nothing outstanding and nothing but a spurious wake-up can happen *)
Definition only_spurious (l : label) : Prop := l = LAccSpurious \/ exists i, l = LSpurious i.
Definition stuck_idle (k : waitkind) (wc fc : nat -> bool -> bool) : Prop :=
  exists tr s, run wc fc (init 1) tr = Some s /\ acc s = ABlocked k /\ ~ pending s /\
               forall l, step wc fc s l <> None -> only_spurious l.
(* work_fini (w, 1) starts cancelling while something is queued or in progress *)
Definition cancel_before_done (wc fc : nat -> bool -> bool) : Prop :=
  exists tr s, run wc fc (init 1) tr = Some s /\ dwait s = true /\ acc s = ACancelling 0 /\ pending s.
(* work_fini (w, 1) returns and an accepted item was never processed *)
Definition lost_at_stop (wc fc : nat -> bool -> bool) : Prop :=
  exists tr s x, run wc fc (init 1) tr = Some s /\ dwait s = true /\ acc s = ADone /\
                 In x (accepted s) /\ ~ In x (done s) /\ in_progress s = [].

Definition wait_bad wc fc := early_return wc fc \/ stuck_idle KWait wc fc.
Definition fini_bad wc fc := cancel_before_done wc fc \/ stuck_idle KFini wc fc.

Definition trace_wait_busy : list label := [LEnqueue 7; LSignal None; LStart 0].
Definition trace_lost : list label :=
  [LStart 0; LEnqueue 7; LSignal (Some 0); LFiniEnter true; LCancel; LCancel; LDie 0; LJoin; LJoin].

Theorem and_wait_refuted fc : early_return guard_and fc.
Proof.
  exists trace_wait_busy. eexists. exists LWaitEnter. eexists.
  split; [vm_compute; reflexivity|]. split; [vm_compute; reflexivity|].
  split; [split; [left; reflexivity|reflexivity]|]. right. cbn. discriminate.
Qed.

Theorem and_fini_refuted wc : lost_at_stop wc guard_and.
Proof.
  exists trace_lost. eexists. exists 7. split; [vm_compute; reflexivity|].
  cbn. splits; auto.
Qed.

Lemma stuck_labels wc fc k :
  forall l, step wc fc (mkst [] 0 (match k with KWait => false | KFini => true end)
                             (match k with KWait => false | KFini => true end)
                             [mkw WWaiting false] [] [] (ABlocked k) []) l <> None -> only_spurious l.
Proof.
  intros l H. destruct l; cbn in H; try congruence; try (left; reflexivity);
    try (destruct i as [|[|i]]; cbn in H; congruence).
  right. eauto.
Qed.

Lemma table_wait_refuted a0 a1 a2 a3 fc : [a0; a1; a2; a3] <> tab_or -> wait_bad (tabguard [a0; a1; a2; a3]) fc.
Proof.
  intros Hne. destruct a0.
  - (* guard true when idle: blocks for ever *)
    right. exists [LStart 0; LWaitEnter]. eexists. split; [vm_compute; reflexivity|].
    splits; auto.
    + intros [P|P]; cbn in P; congruence.
    + apply (stuck_labels _ _ KWait).
  - left. destruct a1.
    + destruct a2.
      * destruct a3; [exfalso; apply Hne; reflexivity|].
        exists [LEnqueue 7; LSignal None; LEnqueue 8; LSignal None; LStart 0]. eexists. exists LWaitEnter. eexists.
        split; [vm_compute; reflexivity|]. split; [vm_compute; reflexivity|].
        split; [split; [left; reflexivity|reflexivity]|]. right. cbn. discriminate.
      * exists trace_wait_busy. eexists. exists LWaitEnter. eexists.
        split; [vm_compute; reflexivity|]. split; [vm_compute; reflexivity|].
        split; [split; [left; reflexivity|reflexivity]|]. right. cbn. discriminate.
    + exists [LStart 0; LEnqueue 7; LSignal (Some 0)]. eexists. exists LWaitEnter. eexists.
      split; [vm_compute; reflexivity|]. split; [vm_compute; reflexivity|].
      split; [split; [left; reflexivity|reflexivity]|]. left. cbn. discriminate.
Qed.

Lemma table_fini_refuted wc b0 b1 b2 b3 : [b0; b1; b2; b3] <> tab_or -> fini_bad wc (tabguard [b0; b1; b2; b3]).
Proof.
  intros Hne. destruct b0.
  - right. exists [LStart 0; LFiniEnter true]. eexists. split; [vm_compute; reflexivity|].
    splits; auto.
    + intros [P|P]; cbn in P; congruence.
    + apply (stuck_labels _ _ KFini).
  - left. destruct b1.
    + destruct b2.
      * destruct b3; [exfalso; apply Hne; reflexivity|].
        exists [LEnqueue 7; LSignal None; LEnqueue 8; LSignal None; LStart 0; LFiniEnter true]. eexists.
        split; [vm_compute; reflexivity|]. cbn. splits; auto. right. discriminate.
      * exists [LEnqueue 7; LSignal None; LStart 0; LFiniEnter true]. eexists.
        split; [vm_compute; reflexivity|]. cbn. splits; auto. right. discriminate.
    + exists [LStart 0; LEnqueue 7; LSignal (Some 0); LFiniEnter true]. eexists.
      split; [vm_compute; reflexivity|]. cbn. splits; auto. left. discriminate.
Qed.

(* the model does not depend on the guard beyond its values *)
Lemma step_ext wc fc wc' fc' : (forall n h, wc n h = wc' n h) -> (forall n h, fc n h = fc' n h) ->
  forall s l, step wc fc s l = step wc' fc' s l.
Proof.
  intros Hw Hf s l. destruct l; cbn [step]; auto.
  - destruct (acc s); auto. unfold check_guard. cbn [guard_of]. now rewrite Hw.
  - destruct (acc s); auto. destruct dw; auto. unfold check_guard. cbn [guard_of]; fields. now rewrite Hf.
  - destruct (acc s); auto. unfold check_guard. destruct k; cbn [guard_of]; [now rewrite Hw|now rewrite Hf].
Qed.

Lemma run_ext wc fc wc' fc' : (forall n h, wc n h = wc' n h) -> (forall n h, fc n h = fc' n h) ->
  forall tr s, run wc fc s tr = run wc' fc' s tr.
Proof.
  intros Hw Hf. induction tr as [|l tr IH]; intros s; cbn [run]; auto.
  rewrite (step_ext wc fc wc' fc' Hw Hf). destruct (step wc' fc' s l); auto.
Qed.

Lemma tabguard_or n h : tabguard tab_or n h = guard_or n h.
Proof. destruct n, h; reflexivity. Qed.
Lemma tabguard_and n h : tabguard tab_and n h = guard_and n h.
Proof. destruct n, h; reflexivity. Qed.

Definition tab_eqb (a b : list bool) : bool := if list_eq_dec bool_dec a b then true else false.

(* Either the two probed guard tables are those of  n_working != 0 || work_head != NULL
   and the instance has exactly the runs of the verified instance, or a concrete
   schedule violates the property. *)
Theorem verdict_tabs tw tf : length tw = 4 -> length tf = 4 ->
  if tab_eqb tw tab_or && tab_eqb tf tab_or
  then forall n tr, run (tabguard tw) (tabguard tf) (init n) tr = run guard_or guard_or (init n) tr
  else wait_bad (tabguard tw) (tabguard tf) \/ fini_bad (tabguard tw) (tabguard tf).
Proof.
  intros Lw Lf.
  destruct tw as [|a0 [|a1 [|a2 [|a3 [|]]]]]; try discriminate.
  destruct tf as [|b0 [|b1 [|b2 [|b3 [|]]]]]; try discriminate.
  unfold tab_eqb. destruct (list_eq_dec bool_dec [a0; a1; a2; a3] tab_or) as [Ew|Nw]; cbn [andb].
  - destruct (list_eq_dec bool_dec [b0; b1; b2; b3] tab_or) as [Ef|Nf].
    + rewrite Ew, Ef. intros n tr. apply run_ext; apply tabguard_or.
    + right. now apply table_fini_refuted.
  - left. now apply table_wait_refuted.
Qed.

(* ------------------------------------------------------------------------- *)
(* The accept loop (finding F-C12-accept)                                     *)
(* ------------------------------------------------------------------------- *)
Theorem sigterm_window : exists tr s, arun false ainit tr = Some s /\ stop_lost false s /\
  a_flag s = true /\ a_pc s = PInAccept.
Proof.
  exists [XTest; XSignal; XDeliver; XCall]. eexists. split; [vm_compute; reflexivity|].
  unfold stop_lost. cbn. splits; auto; try discriminate.
  intros l Hl. destruct l; cbn in *; auto; discriminate.
Qed.

Definition AInv (s : acst) : Prop := a_flag s = true -> a_pc s = PTest \/ a_pc s = PExit.

Lemma astep_AInv s l s' : AInv s -> astep true s l = Some s' -> AInv s'.
Proof.
  unfold AInv. destruct s as [pc fl sp cn]. intros H St.
  destruct l, pc, fl, sp; cbn in *; try discriminate; try (destruct cn; try discriminate);
    inversion St; subst; cbn; auto; try discriminate; try (destruct (H eq_refl); discriminate).
Qed.

Theorem atomic_wait_ok tr : forall s s', AInv s -> arun true s tr = Some s' -> ~ stop_lost true s'.
Proof.
  induction tr as [|l tr IH]; cbn [arun]; intros s s' HI R.
  - inversion R; subst. intros (Hreq & Hpc & _ & Hdis).
    destruct (a_pc s') eqn:E; try congruence.
    + specialize (Hdis XTest eq_refl). cbn in Hdis. rewrite E in Hdis. discriminate.
    + destruct Hreq as [F|P].
      * destruct (HI F); congruence.
      * specialize (Hdis XCall eq_refl). cbn in Hdis. rewrite E in Hdis. discriminate.
    + destruct Hreq as [F|P].
      * destruct (HI F); congruence.
      * specialize (Hdis XDeliver eq_refl). cbn in Hdis. rewrite P, E in Hdis. discriminate.
  - destruct (astep true s l) eqn:St; try discriminate. eapply IH; [|exact R]. eapply astep_AInv; eauto.
Qed.

(* ------------------------------------------------------------------------- *)
(* Cancellation bookkeeping: cancel requests are never withdrawn, work_fini   *)
(* cancels the workers in order, and joins only after all are cancelled.      *)
(* ------------------------------------------------------------------------- *)
Definition cpm (l l' : list worker) : Prop :=
  forall j x', nth_error l' j = Some x' -> exists x, nth_error l j = Some x /\ (cp x = true -> cp x' = true).

Lemma cpm_refl l : cpm l l.
Proof. intros j x H. exists x. auto. Qed.

Lemma cpm_trans l1 l2 l3 : cpm l1 l2 -> cpm l2 l3 -> cpm l1 l3.
Proof.
  intros H12 H23 j x3 H3. destruct (H23 j x3 H3) as (x2 & H2 & C23).
  destruct (H12 j x2 H2) as (x1 & H1 & C12). exists x1. auto.
Qed.

Lemma cpm_upd l i w w' : nth_error l i = Some w -> (cp w = true -> cp w' = true) -> cpm l (upd l i w').
Proof.
  intros Hn Hc j x' Hj. destruct (Nat.eq_dec j i) as [->|Hne].
  - rewrite (nth_upd_same _ _ _ _ Hn) in Hj. inversion Hj; subst. exists w. auto.
  - rewrite (nth_upd_other _ _ _ _ _ Hn Hne) in Hj. exists x'. auto.
Qed.

Lemma take_cpm s i w c : nth_error (workers s) i = Some w -> (cp w = true -> c = true) ->
  cpm (workers s) (workers (take s i (mkw (ws w) c))).
Proof.
  intros Hn Hc. unfold take. destruct (queue s); unf; fields; eapply cpm_upd; eauto.
Qed.

Lemma enter_cpm s i w c : nth_error (workers s) i = Some w -> (cp w = true -> c = true) ->
  cpm (workers s) (workers (enter s i (mkw (ws w) c))).
Proof.
  intros Hn Hc. unfold enter. cbn [cp]. destruct c.
  - unf; fields. eapply cpm_upd; eauto.
  - apply take_cpm; auto.
Qed.

Lemma take_cpm' s i w : nth_error (workers s) i = Some w -> cpm (workers s) (workers (take s i w)).
Proof. intros Hn. destruct w as [x c]. apply (take_cpm s i (mkw x c) c Hn). auto. Qed.

Lemma enter_cpm' s i w : nth_error (workers s) i = Some w -> cpm (workers s) (workers (enter s i w)).
Proof. intros Hn. destruct w as [x c]. apply (enter_cpm s i (mkw x c) c Hn). auto. Qed.

Definition acc_same_or_woken (a a' : astate) : Prop := a' = a \/ exists k, a = ABlocked k /\ a' = AWoken k.

Lemma wake_acc_shape a : acc_same_or_woken a (wake_acc a).
Proof. destruct a; cbn; try (left; reflexivity). right. eauto. Qed.

Section G5.
Variable wc fc : nat -> bool -> bool.

(* what a worker step does to the acceptor state and to the cancel flags *)
Lemma worker_step_shape s l s' : step wc fc s l = Some s' ->
  match l with LStart _ | LRetest _ | LSpurious _ | LDie _ | LFinish _ => True | _ => False end ->
  cpm (workers s) (workers s') /\ acc_same_or_woken (acc s) (acc s').
Proof.
  intros Hs Hl. destruct l; try contradiction; cbn [step] in Hs;
    destruct (nth_error (workers s) i) as [w|] eqn:Hn; try discriminate.
  - destruct (ws w) eqn:Hw; try discriminate. inv_some. split.
    + now apply enter_cpm'.
    + left. apply enter_acc.
  - destruct (ws w) eqn:Hw; try discriminate. inv_some. split.
    + now apply take_cpm'.
    + left. apply take_acc.
  - destruct (is_waiting w); try discriminate. inv_some. unf; fields. split; [|left; reflexivity].
    eapply cpm_upd; eauto.
  - destruct (ws w); try discriminate; destruct (cp w); try discriminate; inv_some; unf; fields;
      (split; [eapply cpm_upd; eauto|left; reflexivity]).
  - destruct (ws w) eqn:Hw; try discriminate. inv_some.
    assert (Hn1 : nth_error (workers (finish1 s i w x)) i = Some (mkw WReady (cp w))).
    { unfold finish1; fields. eapply nth_upd_same; eauto. }
    split.
    + eapply cpm_trans; [|apply (enter_cpm' _ i _ Hn1)].
      unfold finish1; fields. eapply cpm_upd; eauto.
    + rewrite enter_acc. unfold finish1; fields. destruct (finish_signals s); [apply wake_acc_shape|left; reflexivity].
Qed.

Definition CancelInv (s : st) : Prop :=
  match acc s with
  | ACancelling j => forall i w, i < j -> nth_error (workers s) i = Some w -> cp w = true
  | AJoining _ | ADone => forall i w, nth_error (workers s) i = Some w -> cp w = true
  | _ => True
  end.

Lemma CancelInv_mono s s' : cpm (workers s) (workers s') -> acc_same_or_woken (acc s) (acc s') ->
  CancelInv s -> CancelInv s'.
Proof.
  intros Hm [Ha|(k & Ha & Ha')] HC; unfold CancelInv in *.
  - rewrite Ha. destruct (acc s); auto.
    + intros i w Hi Hw. destruct (Hm i w Hw) as (x & Hx & Hc). apply Hc. eapply HC; eauto.
    + intros i w Hw. destruct (Hm i w Hw) as (x & Hx & Hc). apply Hc. eapply HC; eauto.
    + intros i w Hw. destruct (Hm i w Hw) as (x & Hx & Hc). apply Hc. eapply HC; eauto.
  - rewrite Ha'. exact I.
Qed.

Theorem step_CancelInv s l s' : CancelInv s -> step wc fc s l = Some s' -> CancelInv s'.
Proof.
  intros HC Hs.
  assert (W : match l with LStart _ | LRetest _ | LSpurious _ | LDie _ | LFinish _ => True | _ => False end ->
              CancelInv s').
  { intros Hl. destruct (worker_step_shape s l s' Hs Hl) as [Hm Ha]. eapply CancelInv_mono; eauto. }
  destruct l; try (apply W; exact I); clear W; cbn [step] in Hs.
  - destruct (acc s); try discriminate. destruct (fini s); try discriminate. inv_some.
    unfold CancelInv; fields. destruct (Nat.ltb _ _); exact I.
  - destruct (acc s); try discriminate. destruct i as [i|].
    + destruct (nth_error (workers s) i) as [w|]; try discriminate. destruct (is_waiting w); try discriminate.
      inv_some. unfold CancelInv; unf; fields. exact I.
    + destruct (existsb _ _); try discriminate. inv_some. unfold CancelInv; unf; fields. exact I.
  - destruct (acc s); try discriminate. inv_some. unfold CancelInv; unf; fields.
    destruct (guard_of _ _ _ _ _); cbn; auto.
  - destruct (acc s); try discriminate. inv_some. unfold CancelInv. destruct dw; unf; fields.
    + destruct (guard_of _ _ _ _ _); cbn; auto. intros i w Hi. lia.
    + intros i w Hi. lia.
  - destruct (acc s); try discriminate. inv_some. unfold CancelInv; unf; fields.
    destruct (guard_of _ _ _ _ _); [exact I|]. destruct k; cbn; auto. intros i w Hi. lia.
  - destruct (acc s); try discriminate. inv_some. unfold CancelInv; unf; fields. exact I.
  - (* cancel *)
    destruct (acc s) eqn:Ha; try discriminate. unfold CancelInv in HC. rewrite Ha in HC.
    destruct (nth_error (workers s) j) as [w|] eqn:Hn; inv_some; unfold CancelInv; unf; fields.
    + intros i x Hi Hx. destruct (Nat.eq_dec i j) as [->|Hne].
      * rewrite (nth_upd_same _ _ _ _ Hn) in Hx. inversion Hx; subst. reflexivity.
      * rewrite (nth_upd_other _ _ _ _ _ Hn Hne) in Hx. apply (HC i); auto. lia.
    + intros i x Hx. apply (HC i); auto.
      apply nth_error_None in Hn. assert (i < length (workers s)) by (apply nth_error_Some; congruence). lia.
  - (* join *)
    destruct (acc s) eqn:Ha; try discriminate. unfold CancelInv in HC. rewrite Ha in HC.
    destruct (nth_error (workers s) j) as [w|] eqn:Hn; [destruct (is_dead w); try discriminate|]; inv_some;
      unfold CancelInv; unf; fields; exact HC.
Qed.

Theorem run_CancelInv ls : forall s s', CancelInv s -> run wc fc s ls = Some s' -> CancelInv s'.
Proof.
  induction ls as [|l ls IH]; cbn; intros s s' HB H.
  - now inversion H; subst.
  - destruct (step wc fc s l) eqn:E; try discriminate. eapply IH; [|exact H]. eapply step_CancelInv; eauto.
Qed.
End G5.

Lemma init_CancelInv n : CancelInv (init n).
Proof. exact I. Qed.

(* ------------------------------------------------------------------------- *)
(* No deadlock: whenever the acceptor is inside work.c and work_fini has not   *)
(* returned, some step other than a spurious wake-up is enabled.              *)
(* ------------------------------------------------------------------------- *)
Definition stuck (wc fc : nat -> bool -> bool) (s : st) : Prop :=
  acc s <> ARun /\ acc s <> ADone /\ forall l, step wc fc s l <> None -> only_spurious l.

Lemma not_spurious l : (l = LAccSpurious -> False) -> (forall i, l = LSpurious i -> False) -> ~ only_spurious l.
Proof. intros H1 H2 [H|(i & H)]; eauto. Qed.

Theorem no_deadlock n tr s : n <> 0 -> run guard_or guard_or (init n) tr = Some s -> ~ stuck guard_or guard_or s.
Proof.
  intros Hn R (NR & ND & Hst). destruct (reach_invs _ _ _ _ _ Hn R) as [HI HP].
  assert (HB : BlockedOk s).
  { apply (run_BlockedOk guard_or guard_or guard_or_sound guard_or_sound tr (init n) s); [apply init_BlockedOk|exact R]. }
  assert (HC : CancelInv s).
  { apply (run_CancelInv guard_or guard_or tr (init n) s); [apply init_CancelInv|exact R]. }
  assert (K : forall l s', step guard_or guard_or s l = Some s' -> ~ only_spurious l -> False).
  { intros l s' St NS. apply NS. apply Hst. congruence. }
  destruct (acc s) eqn:Ha; try congruence.
  - (* ASig *)
    destruct (existsb is_waiting (workers s)) eqn:Hw.
    + destruct (existsb_find _ _ Hw) as (i & w & Hi & Hiw).
      eapply (K (LSignal (Some i))); [cbn [step]; rewrite Ha, Hi, Hiw; reflexivity|].
      apply not_spurious; intros; discriminate.
    + eapply (K (LSignal None)); [cbn [step]; rewrite Ha, Hw; reflexivity|].
      apply not_spurious; intros; discriminate.
  - (* blocked on finished_work: work is outstanding, and a worker step is enabled *)
    assert (P : past_wait (acc s) = false) by (rewrite Ha; reflexivity).
    destruct (drain_pre guard_or guard_or s HI HP P) as (sched & s' & F & R' & _ & _ & _ & NE).
    assert (M : mu s <> 0). { apply mu_pending. destruct (HB k Ha); [right|left]; auto. }
    destruct sched as [|l sched]; [exact (NE M eq_refl)|].
    cbn [run forallb] in *. apply andb_true_iff in F. destruct F as [Fl _].
    destruct (step guard_or guard_or s l) as [s1|] eqn:St; try discriminate.
    apply (K l s1 St). apply not_spurious; intros; subst; discriminate.
  - eapply (K LWaitWake); [cbn [step]; rewrite Ha; reflexivity|]. apply not_spurious; intros; discriminate.
  - destruct (nth_error (workers s) j) as [w|] eqn:Hj.
    + eapply (K LCancel); [cbn [step]; rewrite Ha, Hj; reflexivity|]. apply not_spurious; intros; discriminate.
    + eapply (K LCancel); [cbn [step]; rewrite Ha, Hj; reflexivity|]. apply not_spurious; intros; discriminate.
  - (* joining worker j *)
    unfold CancelInv in HC. rewrite Ha in HC.
    destruct (nth_error (workers s) j) as [w|] eqn:Hj.
    + destruct (ws w) eqn:Hw.
      * eapply (K (LStart j)); [cbn [step]; rewrite Hj, Hw; reflexivity|]. apply not_spurious; intros; discriminate.
      * eapply (K (LRetest j)); [cbn [step]; rewrite Hj, Hw; reflexivity|]. apply not_spurious; intros; discriminate.
      * eapply (K (LDie j)); [cbn [step]; rewrite Hj, Hw, (HC j w Hj); reflexivity|]. apply not_spurious; intros; discriminate.
      * eapply (K (LFinish j)); [cbn [step]; rewrite Hj, Hw; reflexivity|]. apply not_spurious; intros; discriminate.
      * eapply (K LJoin); [cbn [step]; rewrite Ha, Hj; unfold is_dead; rewrite Hw; reflexivity|].
        apply not_spurious; intros; discriminate.
    + eapply (K LJoin); [cbn [step]; rewrite Ha, Hj; reflexivity|]. apply not_spurious; intros; discriminate.
Qed.

(* ------------------------------------------------------------------------- *)
(* work_fini terminates: from every reachable state inside work_fini there is *)
(* a finite schedule after which it has returned.                             *)
(* ------------------------------------------------------------------------- *)
Lemma run_app wc fc a : forall s b, run wc fc s (a ++ b) = match run wc fc s a with Some s1 => run wc fc s1 b | None => None end.
Proof.
  induction a as [|l a IH]; intros s b; cbn [run app]; auto.
  destruct (step wc fc s l); auto.
Qed.

Definition all_cancelled (s : st) : Prop := forall i w, nth_error (workers s) i = Some w -> cp w = true.

Section G6.
Variable wc fc : nat -> bool -> bool.

Lemma kill_worker s j w : acc s = AJoining j -> nth_error (workers s) j = Some w -> all_cancelled s ->
  exists sched s', run wc fc s sched = Some s' /\ acc s' = AJoining j /\ all_cancelled s' /\
                   length (workers s') = length (workers s) /\
                   exists w', nth_error (workers s') j = Some w' /\ is_dead w' = true.
Proof.
  intros Ha Hj HA. pose proof (HA j w Hj) as Hc.
  assert (CP : forall s1, cpm (workers s) (workers s1) -> all_cancelled s1).
  { intros s1 Hm i x Hx. destruct (Hm i x Hx) as (y & Hy & C). apply C. eapply HA; eauto. }
  destruct (ws w) eqn:Hw.
  - (* Ready: starts, sees the cancel request at pthread_testcancel *)
    exists [LStart j]. eexists. cbn [run step]. rewrite Hj, Hw. unfold enter. rewrite Hc. split; [reflexivity|].
    unf; fields. splits; auto.
    + apply CP. unf; fields. eapply cpm_upd; eauto.
    + eapply upd_length; eauto.
    + eexists. split; [eapply nth_upd_same; eauto|reflexivity].
  - exists [LDie j]. eexists. cbn [run step]. rewrite Hj, Hw, Hc. split; [reflexivity|].
    unf; fields. splits; auto.
    + apply CP. unf; fields. eapply cpm_upd; eauto.
    + eapply upd_length; eauto.
    + eexists. split; [eapply nth_upd_same; eauto|reflexivity].
  - exists [LDie j]. eexists. cbn [run step]. rewrite Hj, Hw, Hc. split; [reflexivity|].
    unf; fields. splits; auto.
    + apply CP. unf; fields. eapply cpm_upd; eauto.
    + eapply upd_length; eauto.
    + eexists. split; [eapply nth_upd_same; eauto|reflexivity].
  - (* Working: finishes its item (cancellation disabled), then dies at pthread_testcancel *)
    assert (Hn1 : nth_error (workers (finish1 s j w x)) j = Some (mkw WReady (cp w))).
    { unfold finish1; fields. eapply nth_upd_same; eauto. }
    exists [LFinish j]. eexists. cbn [run step]. rewrite Hj, Hw. unfold enter. cbn [cp]. rewrite Hc.
    split; [reflexivity|]. unf; fields. splits.
    + rewrite Ha. destruct (finish_signals s); reflexivity.
    + apply CP. unf; fields. eapply cpm_trans; eapply cpm_upd; eauto.
    + erewrite upd_length; [|exact Hn1]. eapply upd_length; eauto.
    + eexists. split; [eapply nth_upd_same; exact Hn1|reflexivity].
  - exists [], s. cbn [run]. splits; auto. exists w. split; auto. unfold is_dead. now rewrite Hw.
Qed.

Lemma join_loop : forall m s j, acc s = AJoining j -> all_cancelled s -> length (workers s) - j <= m ->
  exists sched s', run wc fc s sched = Some s' /\ acc s' = ADone.
Proof.
  induction m as [|m IH]; intros s j Ha HA Hm.
  - assert (Hj : nth_error (workers s) j = None) by (apply nth_error_None; lia).
    exists [LJoin]. eexists. cbn [run step]. rewrite Ha, Hj. split; reflexivity.
  - destruct (nth_error (workers s) j) as [w|] eqn:Hj.
    + destruct (kill_worker s j w Ha Hj HA) as (sch1 & s1 & R1 & A1 & C1 & L1 & w' & Hj1 & D1).
      assert (St : step wc fc s1 LJoin = Some (set_acc s1 (AJoining (S j)))).
      { cbn [step]. now rewrite A1, Hj1, D1. }
      assert (Hlt : j < length (workers s)) by (apply nth_error_Some; congruence).
      destruct (IH (set_acc s1 (AJoining (S j))) (S j)) as (sch2 & s2 & R2 & A2).
      * reflexivity.
      * exact C1.
      * unf; fields. lia.
      * exists (sch1 ++ LJoin :: sch2), s2. rewrite run_app, R1. cbn [run]. rewrite St. auto.
    + exists [LJoin]. eexists. cbn [run step]. rewrite Ha, Hj. split; reflexivity.
Qed.

Lemma cancel_loop : forall m s j, acc s = ACancelling j ->
  (forall i w, i < j -> nth_error (workers s) i = Some w -> cp w = true) -> length (workers s) - j <= m ->
  exists sched s', run wc fc s sched = Some s' /\ acc s' = AJoining 0 /\ all_cancelled s'.
Proof.
  induction m as [|m IH]; intros s j Ha HA Hm.
  - assert (Hj : nth_error (workers s) j = None) by (apply nth_error_None; lia).
    exists [LCancel]. eexists. cbn [run step]. rewrite Ha, Hj. split; [reflexivity|]. unf; fields. split; auto.
    intros i w Hi. fields. apply (HA i); auto.
    apply nth_error_None in Hj. assert (i < length (workers s)) by (apply nth_error_Some; congruence). lia.
  - destruct (nth_error (workers s) j) as [w|] eqn:Hj.
    + assert (Hlt : j < length (workers s)) by (apply nth_error_Some; congruence).
      destruct (IH (setw (set_acc s (ACancelling (S j))) j (mkw (ws w) true)) (S j)) as (sch & s' & R & A & C).
      * reflexivity.
      * unf; fields. intros i x Hi Hx. destruct (Nat.eq_dec i j) as [->|Hne].
        -- rewrite (nth_upd_same _ _ _ _ Hj) in Hx. inversion Hx; subst. reflexivity.
        -- rewrite (nth_upd_other _ _ _ _ _ Hj Hne) in Hx. apply (HA i); auto. lia.
      * unf; fields. rewrite (upd_length _ _ _ _ Hj). lia.
      * exists (LCancel :: sch), s'. cbn [run step]. rewrite Ha, Hj. auto.
    + exists [LCancel]. eexists. cbn [run step]. rewrite Ha, Hj. split; [reflexivity|]. unf; fields. split; auto.
      intros i x Hi. fields. apply (HA i); auto.
      apply nth_error_None in Hj. assert (i < length (workers s)) by (apply nth_error_Some; congruence). lia.
Qed.

Lemma run_worker_acc k sched : forall s s', forallb worker_label sched = true -> run wc fc s sched = Some s' ->
  acc s = AWoken k \/ acc s = ABlocked k -> acc s' = AWoken k \/ acc s' = ABlocked k.
Proof.
  induction sched as [|l sched IH]; cbn [run forallb]; intros s s' F R Ha.
  - inversion R; subst; auto.
  - apply andb_true_iff in F. destruct F as [Fl F].
    destruct (step wc fc s l) as [s1|] eqn:St; try discriminate.
    apply (IH s1 s' F R).
    destruct l; try discriminate Fl.
    + exfalso. cbn [step] in St. destruct Ha as [Ha|Ha]; rewrite Ha in St; discriminate.
    + destruct (worker_step_shape wc fc s _ s1 St I) as [_ [E|(k' & E1 & E2)]].
      * rewrite E. auto.
      * rewrite E2. destruct Ha as [Ha|Ha]; rewrite Ha in E1; inversion E1; subst; auto.
    + destruct (worker_step_shape wc fc s _ s1 St I) as [_ [E|(k' & E1 & E2)]].
      * rewrite E. auto.
      * rewrite E2. destruct Ha as [Ha|Ha]; rewrite Ha in E1; inversion E1; subst; auto.
    + destruct (worker_step_shape wc fc s _ s1 St I) as [_ [E|(k' & E1 & E2)]].
      * rewrite E. auto.
      * rewrite E2. destruct Ha as [Ha|Ha]; rewrite Ha in E1; inversion E1; subst; auto.
Qed.
End G6.

Definition in_fini (a : astate) : bool :=
  match a with ABlocked KFini | AWoken KFini | ACancelling _ | AJoining _ | ADone => true | _ => false end.

Theorem fini_terminates n tr s : n <> 0 -> run guard_or guard_or (init n) tr = Some s -> in_fini (acc s) = true ->
  exists sched s', run guard_or guard_or s sched = Some s' /\ acc s' = ADone /\
                   (dwait s' = true -> Permutation (done s') (accepted s')).
Proof.
  intros Hn R Hf.
  assert (FIN : forall sched s', run guard_or guard_or s sched = Some s' -> acc s' = ADone ->
                 exists sched s', run guard_or guard_or s sched = Some s' /\ acc s' = ADone /\
                   (dwait s' = true -> Permutation (done s') (accepted s'))).
  { intros sched s' R' A'. exists sched, s'. splits; auto. intros D.
    assert (RR : run guard_or guard_or (init n) (tr ++ sched) = Some s') by (rewrite run_app, R; exact R').
    destruct (fini_drains guard_or n _ s' Hn RR D) as (_ & _ & P); auto. left. now rewrite A'. }
  assert (HC : CancelInv s).
  { apply (run_CancelInv guard_or guard_or tr (init n) s); [apply init_CancelInv|exact R]. }
  assert (FromCancel : forall sch0 s0 j, run guard_or guard_or s sch0 = Some s0 -> acc s0 = ACancelling j ->
            (forall i w, i < j -> nth_error (workers s0) i = Some w -> cp w = true) ->
            exists sched s', run guard_or guard_or s sched = Some s' /\ acc s' = ADone).
  { intros sch0 s0 j R0 A0 C0.
    destruct (cancel_loop guard_or guard_or (length (workers s0) - j) s0 j A0 C0 (le_n _)) as (sch1 & s1 & R1 & A1 & C1).
    destruct (join_loop guard_or guard_or (length (workers s1) - 0) s1 0 A1 C1 (le_n _)) as (sch2 & s2 & R2 & A2).
    exists (sch0 ++ sch1 ++ sch2), s2. rewrite run_app, R0, run_app, R1. auto. }
  assert (FromWait : acc s = AWoken KFini \/ acc s = ABlocked KFini ->
            exists sched s', run guard_or guard_or s sched = Some s' /\ acc s' = ADone).
  { intros Ha. destruct (reach_invs _ _ _ _ _ Hn R) as [HI HP].
    assert (P : past_wait (acc s) = false) by (destruct Ha as [Ha|Ha]; rewrite Ha; reflexivity).
    destruct (drain_pre guard_or guard_or s HI HP P) as (sch1 & s1 & F1 & R1 & Q1 & W1 & I1 & _).
    pose proof (run_worker_acc guard_or guard_or KFini sch1 s s1 F1 R1 Ha) as Ha1.
    assert (RR : run guard_or guard_or (init n) (tr ++ sch1) = Some s1) by (rewrite run_app, R; exact R1).
    assert (HB : BlockedOk s1).
    { apply (run_BlockedOk guard_or guard_or guard_or_sound guard_or_sound (tr ++ sch1) (init n) s1); [apply init_BlockedOk|exact RR]. }
    destruct Ha1 as [Ha1|Ha1]; [|destruct (HB KFini Ha1); congruence].
    assert (St : step guard_or guard_or s1 LWaitWake = Some (set_acc s1 (ACancelling 0))).
    { cbn [step]. rewrite Ha1. unfold check_guard. cbn [guard_of guard_exit]. rewrite W1, Q1. reflexivity. }
    apply (FromCancel (sch1 ++ [LWaitWake]) (set_acc s1 (ACancelling 0)) 0).
    - rewrite run_app, R1. cbn [run]. now rewrite St.
    - reflexivity.
    - intros i w Hi. lia. }
  unfold CancelInv in HC.
  destruct (acc s) eqn:Ha; try discriminate Hf.
  - destruct k; try discriminate Hf. destruct FromWait as (sched & s' & R' & A'); auto. eapply FIN; eauto.
  - destruct k; try discriminate Hf. destruct FromWait as (sched & s' & R' & A'); auto. eapply FIN; eauto.
  - destruct (FromCancel [] s j eq_refl Ha HC) as (sched & s' & R' & A'). eapply FIN; eauto.
  - destruct (join_loop guard_or guard_or (length (workers s) - j) s j Ha HC (le_n _)) as (sched & s' & R' & A').
    eapply FIN; eauto.
  - apply (FIN [] s); auto.
Qed.
