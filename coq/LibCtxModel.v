(* LibCtxModel.v — what libmunge's munge_encode() / munge_decode() do with the application's context (no proofs here).
   The static helpers _encode_init, _encode_req, _encode_rsp, _decode_init, _decode_req, _decode_rsp are NOT written
   here: they are translated from the C text of src/libmunge/encode.c and decode.c on every run
   (tools/facts/libfun.py -> gen/GenLibFun.v: lib_encode_init, ..., over the generated record `lctx` for struct munge_ctx
   and CredModel.msg).  Hand-written here: the sequence in which munge_encode / munge_decode call them (encode.c /
   decode.c: init; argument check; m_msg_create = a zeroed message; request; transfer; response; error into the
   context), _munge_ctx_set_err (ctx.c) and the shape of the reply message the transfer hands to _encode_rsp.
   The transfer itself (m_msg_client_xfer: socket, retries) is C13/C14; here it delivers the daemon's reply. *)
From Coq Require Import List NArith ZArith Bool.
From Coq.Strings Require Import Byte.
From RecordUpdate Require Import RecordSet.
From MV Require Import Bytes CredModel.
From MV.gen Require Import GenCred GenLibFun.
Import ListNotations RecordSetNotations.
Local Open Scope Z_scope.

(* a C string as an object in memory: its characters and the terminating NUL *)
Definition cstring (s : bytes) : bytes := s ++ [x00].
Definition no_nul (s : bytes) : bool := forallb (fun c => negb (b2n c =? 0)%N) s.

(* _munge_ctx_set_err (ctx.c): the first error wins; returns the context's error code *)
Definition ctx_set_err (ctx : option lctx) (e : Z) (s : option bytes) : option lctx * Z :=
  match ctx with
  | Some x => if (x_error_num x =? Z.of_N e_success) && negb (e =? Z.of_N e_success)
              then (Some (x <| x_error_num := e |> <| x_error_str := s |>), e)
              else (Some x, x_error_num x)
  | None => (None, e)
  end.

(* the ENC_RSP as libmunge unpacks it into a fresh message: error code and string, the credential with its NUL *)
Definition enc_rsp_msg (r : enc_rsp) : msg :=
  msg0 <| m_err := er_err r |> <| m_errstr := er_errstr r |> <| m_data := er_data r |>
       <| m_data_len := len (er_data r) |>.

Definition out_ptr (o : option (option bytes)) : option bytes := match o with Some p => p | None => None end.

(* munge_encode (&cred, ctx, buf, len) against a daemon that answers an ENC_REQ message with `daemon`:
   (return code, *cred, the context afterwards) *)
Definition lib_munge_encode (txt : nat -> bytes) (daemon : msg -> enc_rsp)
           (ctx : option lctx) (buf : option bytes) (blen : Z) : Z * option bytes * option lctx :=
  let '(_, (o_cred, ctx, _)) := lib_encode_init (Some None) ctx in
  let '(e, (m, ctx, _)) := lib_encode_req msg0 ctx buf blen in
  if negb (e =? Z.of_N e_success) then let '(ctx, e) := ctx_set_err ctx e (mptr (m_errstr m)) in (e, out_ptr o_cred, ctx) else
  let m' := enc_rsp_msg (daemon m) in
  let '(e, (m', o_cred, _)) := lib_encode_rsp txt msgt_enc_rsp m' o_cred in
  let '(ctx, e) := ctx_set_err ctx e (mptr (m_errstr m')) in
  (e, out_ptr o_cred, ctx).

(* munge_decode (cred, ctx, &buf, &len, &uid, &gid) - wb/wl/wu/wg: which of the four result pointers the caller passes
   (NULL otherwise) - against a daemon that answers a DEC_REQ message with the DEC_RSP message `daemon`:
   (return code, context afterwards, *buf, *len, *uid, *gid) *)
Definition lib_munge_decode (txt : nat -> bytes) (daemon : msg -> msg)
           (ctx : option lctx) (cred : option bytes) (wb wl wu wg : bool)
  : Z * option lctx * option (option bytes) * option Z * option Z * option Z :=
  let '(_, (ctx, ob, ol, ou, og, _)) :=
    lib_decode_init ctx (if wb then Some None else None) (if wl then Some 0 else None)
                    (if wu then Some 0 else None) (if wg then Some 0 else None) in
  if negb (is_some cred) || (c_strlen (ptrv cred) =? 0)%N
  then let '(ctx, e) := ctx_set_err ctx (Z.of_N e_bad_arg) (Some (txt 9%nat)) in (e, ctx, ob, ol, ou, og) else
  let '(e, (m, ctx, _)) := lib_decode_req msg0 ctx cred in
  if negb (e =? Z.of_N e_success) then let '(ctx, e) := ctx_set_err ctx e (mptr (m_errstr m)) in (e, ctx, ob, ol, ou, og) else
  let r := daemon m in
  let '(e, (r, ctx, ob, ol, ou, og, _)) := lib_decode_rsp txt msgt_dec_rsp r ctx ob ol ou og in
  let '(ctx, e) := ctx_set_err ctx e (mptr (m_errstr r)) in
  (e, ctx, ob, ol, ou, og).

(* an application context whose members are inside the ranges of their C types and whose options munge_ctx_set accepts:
   codes fit a byte, a non-negative TTL, ids are uid_t / gid_t values, the realm (if any) is a C string *)
Definition ctx_ok (x : lctx) : Prop :=
  0 <= x_cipher x < 256 /\ 0 <= x_mac x < 256 /\ 0 <= x_zip x < 256 /\ 0 <= x_ttl x < 2147483648 /\
  0 <= x_auth_uid x < 4294967296 /\ 0 <= x_auth_gid x < 4294967296 /\
  match x_realm_str x with
  | None => True
  | Some r => exists s, r = cstring s /\ no_nul s = true /\ (len s + 1 < 255)%N
  end.

(* the ENC_REQ libmunge builds for (ctx, payload) *)
Definition lib_enc_request (ctx : option lctx) (data : bytes) : msg :=
  let '(_, (m, _, _)) := lib_encode_req msg0 ctx (Some data) (Z.of_N (len data)) in m.
