(* ArmorProofs.v — what dec_unarmor (dec.c) hands to the base64 decoder.
   The text between the armor prefix and the LAST occurrence of the suffix is decoded as one base64 string, so the
   strictness theorems of Base64Proofs (C19_accepts_exactly, C19_rejects_foreign) apply to the whole armored text:
   nothing between the prefix and the last suffix is dropped. *)
From Coq Require Import List NArith Bool Lia.
From Coq.Strings Require Import Byte String.
From MV Require Import Bytes Base64Model Base64Proofs CredModel.
From MV.gen Require Import GenCred.
Import ListNotations.
Local Open Scope N_scope.
Local Notation length := List.length.

Lemma skip_space_spec l : exists ws, l = ws ++ skip_space l /\ forallb is_space ws = true /\
  match skip_space l with c :: _ => is_space c = false | [] => True end.
Proof.
  induction l as [|c r IH]; cbn [skip_space].
  - exists []. repeat split.
  - destruct (is_space c) eqn:Hc.
    + destruct IH as (ws & Hl & Hw & Hh). exists (c :: ws). cbn [app forallb]. rewrite Hc, Hw.
      repeat split; [now rewrite <- Hl | exact Hh].
    + exists []. cbn. repeat split. exact Hc.
Qed.

Lemma before_last_spec sfx l pre : before_last sfx l = Some pre ->
  exists tail, l = pre ++ sfx :: tail /\ forallb (fun c => negb (Byte.eqb c sfx)) tail = true.
Proof.
  revert pre; induction l as [|c r IH]; intros pre H; cbn [before_last] in H; [discriminate|].
  destruct (before_last sfx r) as [p|] eqn:E.
  - injection H as <-. destruct (IH p eq_refl) as (tail & -> & Ht). exists tail. split; [reflexivity|exact Ht].
  - destruct (Byte.eqb c sfx) eqn:Hc; [|discriminate]. injection H as <-.
    apply Byte.byte_dec_bl in Hc. subst c. exists r. split; [reflexivity|].
    clear IH. induction r as [|x r IHr]; [reflexivity|].
    cbn [before_last] in E. destruct (before_last sfx r) as [p|] eqn:E2; [discriminate|].
    destruct (Byte.eqb x sfx) eqn:Hx; [discriminate|]. cbn [forallb]. rewrite Hx. cbn. apply IHr. reflexivity.
Qed.

Lemma before_last_none sfx l : before_last sfx l = None -> forallb (fun c => negb (Byte.eqb c sfx)) l = true.
Proof.
  induction l as [|x r IH]; [reflexivity|]. cbn [before_last]. destruct (before_last sfx r) as [p|]; [discriminate|].
  destruct (Byte.eqb x sfx) eqn:Hx; [discriminate|]. intros _. cbn [forallb]. rewrite Hx. cbn. apply IH. reflexivity.
Qed.

Lemma combine_eqb_eq (p q : bytes) : length p = length q ->
  forallb (fun z => b2n (fst z) =? b2n (snd z)) (combine p q) = true -> p = q.
Proof.
  revert q; induction p as [|a p IH]; intros [|b q] Hl H; try discriminate; [reflexivity|].
  cbn in H. apply andb_true_iff in H. destruct H as [Hab Hr]. apply N.eqb_eq in Hab.
  f_equal; [now apply b2n_inj|]. apply IH; [now injection Hl|exact Hr].
Qed.

(* ACCEPT: an armored string is unarmored to [body] only if it is
       whitespace* PREFIX b64 SUFFIX tail,  the suffix not occurring in tail,  and the base64 decoder accepts ALL of b64 *)
Theorem unarmor_accepts_only : forall data body, dec_unarmor data = inl body ->
  exists ws b64 tail, data = ws ++ pfx ++ b64 ++ sfx1 :: tail /\ forallb is_space ws = true /\
    forallb (fun c => negb (Byte.eqb c sfx1)) tail = true /\ decode_block b64 = (false, body).
Proof.
  intros data body H. unfold dec_unarmor in H.
  destruct (skip_space_spec data) as (ws & Hd & Hw & _).
  destruct (skip_space data) as [|c l'] eqn:Hs; [discriminate|].
  destruct (b2n c =? 0); [discriminate|].
  destruct (take (length pfx) (c :: l')) as [[p rest]|] eqn:Ht; [|discriminate].
  destruct (negb (forallb (fun q => b2n (fst q) =? b2n (snd q)) (combine p pfx))) eqn:Hp; [discriminate|].
  apply negb_false_iff in Hp.
  destruct (before_last sfx1 rest) as [b64|] eqn:Hb; [|discriminate].
  destruct (decode_block b64) as [err bd] eqn:Hdec. destruct err; [discriminate|]. injection H as <-.
  apply take_spec in Ht. destruct Ht as [Hl Hlen].
  assert (p = pfx) by (apply combine_eqb_eq; assumption). subst p.
  destruct (before_last_spec _ _ _ Hb) as (tail & -> & Htail).
  exists ws, b64, tail. repeat split; try assumption. rewrite Hd, Hl. reflexivity.
Qed.

(* the shape lemma: on   whitespace* PREFIX b64 SUFFIX tail   (suffix not in tail) the verdict is the base64 decoder's
   verdict on ALL of b64 *)
Lemma unarmor_shape : forall ws b64 tail,
  forallb is_space ws = true -> forallb (fun c => negb (Byte.eqb c sfx1)) tail = true ->
  dec_unarmor (ws ++ pfx ++ b64 ++ sfx1 :: tail) =
  (let '(err, body) := decode_block b64 in
   if err then inr (e_bad_cred, str "Failed to base64-decode credential"%string) else inl body).
Proof.
  intros ws b64 tail Hw Htail. unfold dec_unarmor.
  assert (Hs : skip_space (ws ++ pfx ++ b64 ++ sfx1 :: tail) = pfx ++ b64 ++ sfx1 :: tail).
  { clear - Hw. induction ws as [|w ws IH]; [reflexivity|]. cbn [forallb] in Hw. apply andb_true_iff in Hw.
    destruct Hw as [Hw1 Hw2]. cbn [app skip_space]. rewrite Hw1. apply IH. exact Hw2. }
  rewrite Hs.
  assert (Hpfx : exists c r, pfx = c :: r /\ (b2n c =? 0) = false) by (vm_compute; eauto).
  destruct Hpfx as (c & r & Hpc & Hc0).
  destruct (pfx ++ b64 ++ sfx1 :: tail) as [|c0 l0] eqn:HL; [rewrite Hpc in HL; discriminate|].
  assert (c0 = c) by (rewrite Hpc in HL; injection HL; auto). subst c0. rewrite Hc0. rewrite <- HL. rewrite take_app.
  assert (Hself : forallb (fun q => b2n (fst q) =? b2n (snd q)) (combine pfx pfx) = true) by (vm_compute; reflexivity).
  rewrite Hself. cbn [negb].
  assert (Hb : before_last sfx1 (b64 ++ sfx1 :: tail) = Some b64).
  { clear - Htail. induction b64 as [|x b IH].
    - cbn [app before_last].
      assert (Hn : before_last sfx1 tail = None).
      { induction tail as [|t tl IH]; [reflexivity|]. cbn [forallb] in Htail.
        apply andb_true_iff in Htail. destruct Htail as [Ht1 Ht2]. cbn [before_last]. rewrite (IH Ht2).
        apply negb_true_iff in Ht1. now rewrite Ht1. }
      rewrite Hn. assert (He : Byte.eqb sfx1 sfx1 = true) by (vm_compute; reflexivity). now rewrite He.
    - cbn [app before_last]. now rewrite IH. }
  rewrite Hb. reflexivity.
Qed.

(* conversely every string of that shape is unarmored to the decoder's output ... *)
Theorem unarmor_accepts_all : forall ws b64 tail body,
  forallb is_space ws = true -> forallb (fun c => negb (Byte.eqb c sfx1)) tail = true ->
  decode_block b64 = (false, body) ->
  dec_unarmor (ws ++ pfx ++ b64 ++ sfx1 :: tail) = inl body.
Proof. intros ws b64 tail body Hw Ht Hd. rewrite (unarmor_shape ws b64 tail Hw Ht), Hd. reflexivity. Qed.

(* ... and REJECTED with EMUNGE_BAD_CRED if the decoder refuses the text between the prefix and the last suffix,
   whatever that text is made of (a second suffix, text after padding, a second credential) and whatever follows *)
Theorem unarmor_rejects : forall ws b64 tail body,
  forallb is_space ws = true -> forallb (fun c => negb (Byte.eqb c sfx1)) tail = true ->
  decode_block b64 = (true, body) ->
  dec_unarmor (ws ++ pfx ++ b64 ++ sfx1 :: tail) = inr (e_bad_cred, str "Failed to base64-decode credential"%string).
Proof. intros ws b64 tail body Hw Ht Hd. rewrite (unarmor_shape ws b64 tail Hw Ht), Hd. reflexivity. Qed.

(* the suffix byte is not in the base64 alphabet nor ignorable: a suffix INSIDE the armored text makes it undecodable *)
Theorem suffix_inside_rejected : forall a b, fst (decode_block (a ++ sfx1 :: b)) = true.
Proof.
  intros a b. apply (Base64Proofs.rejects_foreign (a ++ sfx1 :: b) sfx1).
  - apply in_or_app. right. left. reflexivity.
  - vm_compute. reflexivity.
  - vm_compute. reflexivity.
  - vm_compute. discriminate.
Qed.
