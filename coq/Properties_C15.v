(* Properties_C15.v — statements only.  One munged per socket; a crash never blocks the next start.
   Model: StartModel (file system of the four names, fcntl lock owners, listeners; any number of
   processes running the start-up/shutdown program of munged.c/lock.c as data; labels Step p, Crash p
   (SIGKILL, enabled in every state), Term p (clean stop)).  The program order is compared with an
   strace of the real daemon on every run; what lock.c asks the kernel for comes from gen/GenStart.v.

   Vocabulary: [run init hist = Some s0] with [quiet s0] = any earlier history (starts, SIGKILLs, clean
   stops, any number of processes) after which no munged is running; [starts_and_crashes sched] =
   the property's quantifier (no clean stop inside); [past_setlk s p] = p is running and has passed
   F_SETLK; [holder s p] = the lock path names an inode, p holds its lock through its descriptor;
   [serving s p] = p is at job_accept and the lock, socket and pid names all lead to p. *)
From Coq Require Import List Arith NArith Bool.
From MV.gen Require Import GenStart.
From MV Require Import StartModel StartProofs.
Import ListNotations.

(* For every number of processes and every interleaving of their start-up steps and SIGKILLs:
   at most one live process is past F_SETLK; it holds the lock of the inode the lock path names;
   every daemon that reached service is the one the three names lead to. *)
Theorem C15_single_holder : forall hist s0 sched s,
  run init hist = Some s0 -> quiet s0 -> starts_and_crashes sched = true -> run s0 sched = Some s ->
  (forall p q, past_setlk s p -> past_setlk s q -> p = q) /\
  (forall p, past_setlk s p -> holder s p) /\
  (forall p, at_serve s p = true -> serving s p = true).
Proof. exact single_holder_reach. Qed.
Print Assumptions C15_single_holder.

(* Only the holder ever executes an unlink / bind / write on the socket, pid or seed name (or an unlink
   of the lock name); a step of any other process and a SIGKILL of any process leave the socket, pid and
   seed names, an existing lock name, all inodes, the pid-file content, and every other process's lock,
   listening socket and state as they were. *)
Theorem C15_only_holder_mutates : forall hist s0 pre s1 l s2,
  run init hist = Some s0 -> quiet s0 -> starts_and_crashes pre = true -> run s0 pre = Some s1 ->
  step s1 l = Some s2 ->
  match l with
  | Step p => (forall a, next_prim s1 p = Some a -> mutating a = true -> past_setlk s1 p /\ holder s1 p)
              /\ (~ past_setlk s1 p -> untouched s1 s2 p)
  | Crash p => untouched s1 s2 p
  | Term _ => True
  end.
Proof. exact only_holder_mutates. Qed.
Print Assumptions C15_only_holder_mutates.

(* An instance that reaches F_SETLK while another one holds the lock exits with an error there,
   having changed nothing. *)
Theorem C15_loser_exits : forall hist s0 pre s1 w p s2,
  run init hist = Some s0 -> quiet s0 -> starts_and_crashes pre = true -> run s0 pre = Some s1 ->
  past_setlk s1 w -> w <> p -> next_prim s1 p = Some SetLk -> step s1 (Step p) = Some s2 ->
  st (procs s2 p) = Failed /\ untouched s1 s2 p.
Proof. exact loser_exits_reach. Qed.
Print Assumptions C15_loser_exits.

(* The serving daemon keeps its socket inode, lock file, pid file (same content) and stays serving,
   through any further starts and any SIGKILLs of other processes. *)
Theorem C15_winner_undisturbed : forall hist s0 pre s1 w sched s2,
  run init hist = Some s0 -> quiet s0 -> starts_and_crashes pre = true -> run s0 pre = Some s1 ->
  serving s1 w = true -> Forall (fun l => no_term l /\ l <> Crash w) sched -> run s1 sched = Some s2 ->
  serving s2 w = true /\ same_service s1 s2 w.
Proof. exact winner_undisturbed_reach. Qed.
Print Assumptions C15_winner_undisturbed.

(* Once past F_SETLK no step of the start-up can fail or block (bind never meets EADDRINUSE), whatever
   the other processes do: exactly one of k racing starts survives unless it is killed. *)
Theorem C15_holder_completes : forall hist s0 pre s1 p,
  run init hist = Some s0 -> quiet s0 -> starts_and_crashes pre = true -> run s0 pre = Some s1 ->
  past_setlk s1 p -> pc (procs s1 p) < serve_pc ->
  exists s2, step s1 (Step p) = Some s2 /\ st (procs s2 p) = Running /\ pc (procs s2 p) = S (pc (procs s1 p)).
Proof. exact holder_completes. Qed.
Print Assumptions C15_holder_completes.

(* After any history at all (clean stops included) that ends with no munged running, a fresh start
   without --force reaches service and is the daemon the names lead to. *)
Theorem C15_crash_then_start : forall sched s q,
  run init sched = Some s -> quiet s -> st (procs s q) = NotStarted ->
  exists s', run s (repeat (Step q) serve_pc) = Some s' /\ serving s' q = true.
Proof. exact crash_then_start. Qed.
Print Assumptions C15_crash_then_start.

(* In the property's words: the only running munged is SIGKILLed, wherever it is in start-up, service
   or shutdown (any reachable state in which it is the only running process). *)
Theorem C15_kill_then_start : forall sched s p s1 q,
  run init sched = Some s -> st (procs s p) = Running -> (forall w, w <> p -> st (procs s w) <> Running) ->
  step s (Crash p) = Some s1 -> st (procs s q) = NotStarted ->
  exists s', run s1 (repeat (Step q) serve_pc) = Some s' /\ serving s' q = true.
Proof. exact kill_then_start. Qed.
Print Assumptions C15_kill_then_start.

(* After the shutdown program: socket, lock and pid names absent, a new seed file present, the process
   has exited successfully and holds no lock and no listening socket. *)
Theorem C15_clean_stop_postcondition : forall s p,
  st (procs s p) = Running -> pc (procs s p) = serve_pc ->
  exists s', run s (Term p :: repeat (Step p) (length shutdown)) = Some s' /\
    st (procs s' p) = Exited /\
    names s' NSock = None /\ names s' NLock = None /\ names s' NPid = None /\
    (exists f, names s' NSeed = Some f /\ next s <= f /\ inodes s' f = seed_inode) /\
    (forall i, lockown s' i <> Some p) /\ (forall j, listener s' j <> Some p).
Proof. exact clean_stop_postcondition. Qed.
Print Assumptions C15_clean_stop_postcondition.

(* Finding F-C15-unlink.  The faithful model of the unchanged code violates "at most one ... ever" as
   soon as a CLEAN stop falls between another start's open(lock) and its F_SETLK: witness schedule
   overlap_sched 0 1 2 (A serves; B opens the lock file; A stops cleanly, unlinking the lock file while
   holding it; B locks the orphaned inode and binds; C creates and locks a new lock file, unlinks B's
   socket and binds).  Two live daemons past F_SETLK and at service; B is unreachable. *)
Theorem C15_shutdown_overlap_refuted : exists sched s b c,
  run init sched = Some s /\ b <> c /\
  past_setlk s b /\ past_setlk s c /\ at_serve s b = true /\ at_serve s c = true /\
  serving s b = false /\ serving s c = true /\
  (exists i, lockfd (procs s b) = Some i /\ lockown s i = Some b /\ names s NLock <> Some i).
Proof. exact shutdown_overlap_refuted. Qed.
Print Assumptions C15_shutdown_overlap_refuted.

Theorem C15_single_holder_needs_no_clean_stop :
  ~ (forall sched s, run init sched = Some s -> forall p q, past_setlk s p -> past_setlk s q -> p = q).
Proof. exact single_holder_needs_no_clean_stop. Qed.
Print Assumptions C15_single_holder_needs_no_clean_stop.

(* What lock.c asks the kernel for, as observed from the current source: O_CREAT without O_EXCL, a
   created mode its own fstat check accepts, a non-blocking exclusive whole-file lock, exit on EAGAIN,
   and no unlink on either path of lock_create without --force. *)
Theorem C15_lock_call_shape :
  lock_open_creat = true /\ lock_open_excl = false /\ stat_ok lock_inode = true /\
  lock_stat_accepts_nonregular = false /\
  lock_cmd_nonblocking = true /\ lock_type_exclusive = true /\ lock_whole_file = true /\
  lock_busy_exits = true /\ lock_free_exits = false /\ lock_busy_unlinks = 0%N /\ lock_free_unlinks = 0%N.
Proof. repeat split; reflexivity. Qed.
Print Assumptions C15_lock_call_shape.

(* non-vacuity: the premises are satisfiable and the conclusions are not trivially true.
   (1) three racing starts, one interleaving, then the winner is killed and a fourth start serves;
   (2) a daemon killed after each of its 1..16 steps (start-up, service, shutdown): a fresh start serves. *)
Definition race3 : list label :=
  [Step 0; Step 1; Step 2; Step 1; Step 0; Step 2; Step 2; Step 0; Step 1; Step 2; Step 2; Step 2; Step 2; Step 2].
Example C15_race3_example :
  match run init race3 with
  | Some s => serving s 2 && Nat.eqb (status_code (st (procs s 0))) 2 && Nat.eqb (status_code (st (procs s 1))) 2
  | None => false end = true
  /\ match run init (race3 ++ [Crash 2] ++ repeat (Step 3) serve_pc) with
     | Some s => serving s 3 | None => false end = true.
Proof. split; vm_compute; reflexivity. Qed.

Example C15_kill_points_example :
  forallb (fun n => match run init (firstn n (life 0) ++ [Crash 0] ++ repeat (Step 1) serve_pc) with
                    | Some s => serving s 1 | None => false end) (seq 1 16) = true.
Proof. vm_compute. reflexivity. Qed.

Example C15_quiet_init : quiet init /\ run init [] = Some init.
Proof. split; [intros p; cbn; discriminate|reflexivity]. Qed.
