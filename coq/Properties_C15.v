(* Properties_C15.v — statements only.  One munged per socket; a crash never blocks the next start.
   Model: StartModel (file system of the four names, fcntl lock owners, listeners; any number of
   processes running the start-up/shutdown program of munged.c/lock.c as data; labels Step p, Crash p
   (SIGKILL, enabled in every state), Term p (clean stop)).  The program order is compared with an
   strace of the real daemon on every run; what lock.c asks the kernel for comes from gen/GenStart.v.
   Every system call of start-up and shutdown that changes the file system or the socket is a step of its own
   (open(pid)/write(pid), unlink(seed)/open(seed)/write(seed) are separate), so the SIGKILL label falls after each
   of them and the states it leaves (empty pid file, empty seed file) are start states of the restart theorems;
   a file's content is the process that wrote it completely (the seed's generation).

   Vocabulary: [run init hist = Some s0] with [quiet s0] = any earlier history (starts, SIGKILLs, clean
   stops, any number of processes) after which no munged is running; [starts_and_crashes sched] =
   the property's quantifier (no clean stop inside); [past_setlk s p] = p is running and has passed
   F_SETLK; [holder s p] = the lock path names an inode, p holds its lock through its descriptor;
   [serving s p] = p is at job_accept and the lock, socket and pid names all lead to p.

   Second half (the C15_path theorems): StartPathModel — the same program with every name a byte string computed as the
   source computes it (lock name = strdupf "%s.lock" with its buffer limit; bound name = what strlcpy left in
   sun_path; length test translated from sock_create's text; sizes regenerated), a file system keyed by byte
   strings, one configuration per process.  For EVERY configured socket path the start is refused without binding,
   or the bound name, the unlinked names and the stem of the locked name are the configured path; the byte-string
   model of an accepted path is then in lock step with StartModel (StartPathProofs.run_sim), which carries the
   theorems above to byte-string names for every path length. *)
From Coq Require Import List Arith NArith Bool.
From MV.gen Require Import GenStart.
From Coq.Strings Require Import Byte.
From MV Require Import Bytes StartModel StartProofs StartPathModel StartPathProofs StartSearchModel StartSearchProofs.
From MV Require Import StartFdModel StartFdProofs StartLogModel StartLogProofs.
Import ListNotations.

(* For every number of processes and every interleaving of their start-up steps and SIGKILLs:
   at most one live process is past F_SETLK; it holds the lock of the inode the lock path names;
   every daemon that reached service is the one the three names lead to. *)
Theorem C15_single_holder : forall hist s0 sched s,
  run init hist = Some s0 -> quiet s0 -> starts_and_crashes sched = true -> run s0 sched = Some s ->
  (forall p q, past_setlk s p -> past_setlk s q -> p = q) /\
  (forall p, past_setlk s p -> holder s p) /\
  (forall p, at_serve s p = true -> serving s p = true).
Proof. exact single_holder_reach. Qed.
Print Assumptions C15_single_holder.

(* The first clause said directly: no interleaving of any number of starts and SIGKILLs reaches a state in which two
   live processes are bound (alive, listening on a socket they hold) — for every k, among processes 0..k-1. *)
Theorem C15_never_two_bound : forall hist s0 sched s k,
  run init hist = Some s0 -> quiet s0 -> starts_and_crashes sched = true -> run s0 sched = Some s ->
  two_bound s k = false.
Proof. exact never_two_bound. Qed.
Print Assumptions C15_never_two_bound.

(* The search the check runs on the program text the daemon shows under strace (StartSearchModel.xstep, explored by
   the extracted oracle for a two_bound state) is, on the expected program, this very transition system. *)
Theorem C15_search_semantics : forall sched s, xrun (map XP prog) s sched = run s sched.
Proof. exact xrun_prog. Qed.
Print Assumptions C15_search_semantics.

(* Only the holder ever executes an unlink / bind / write on the socket, pid or seed name (or an unlink
   of the lock name); a step of any other process and a SIGKILL of any process leave the socket, pid and
   seed names, an existing lock name, all inodes, the pid-file content, and every other process's lock,
   listening socket and state as they were. *)
Theorem C15_only_holder_mutates : forall hist s0 pre s1 l s2,
  run init hist = Some s0 -> quiet s0 -> starts_and_crashes pre = true -> run s0 pre = Some s1 ->
  step s1 l = Some s2 ->
  match l with
  | Step p => (forall a, next_prim s1 p = Some a -> mutating a = true -> past_setlk s1 p /\ holder s1 p)
              /\ (~ past_setlk s1 p -> untouched s1 s2 p)
  | Crash p => untouched s1 s2 p
  | Term _ => True
  end.
Proof. exact only_holder_mutates. Qed.
Print Assumptions C15_only_holder_mutates.

(* An instance that reaches F_SETLK while another one holds the lock exits with an error there,
   having changed nothing. *)
Theorem C15_loser_exits : forall hist s0 pre s1 w p s2,
  run init hist = Some s0 -> quiet s0 -> starts_and_crashes pre = true -> run s0 pre = Some s1 ->
  past_setlk s1 w -> w <> p -> next_prim s1 p = Some SetLk -> step s1 (Step p) = Some s2 ->
  st (procs s2 p) = Failed /\ untouched s1 s2 p.
Proof. exact loser_exits_reach. Qed.
Print Assumptions C15_loser_exits.

(* The serving daemon keeps its socket inode, lock file, pid file (same content) and stays serving,
   through any further starts and any SIGKILLs of other processes. *)
Theorem C15_winner_undisturbed : forall hist s0 pre s1 w sched s2,
  run init hist = Some s0 -> quiet s0 -> starts_and_crashes pre = true -> run s0 pre = Some s1 ->
  serving s1 w = true -> Forall (fun l => no_term l /\ l <> Crash w) sched -> run s1 sched = Some s2 ->
  serving s2 w = true /\ same_service s1 s2 w.
Proof. exact winner_undisturbed_reach. Qed.
Print Assumptions C15_winner_undisturbed.

(* Once past F_SETLK no step of the start-up can fail or block (bind never meets EADDRINUSE), whatever
   the other processes do: exactly one of k racing starts survives unless it is killed. *)
Theorem C15_holder_completes : forall hist s0 pre s1 p,
  run init hist = Some s0 -> quiet s0 -> starts_and_crashes pre = true -> run s0 pre = Some s1 ->
  past_setlk s1 p -> pc (procs s1 p) < serve_pc ->
  exists s2, step s1 (Step p) = Some s2 /\ st (procs s2 p) = Running /\ pc (procs s2 p) = S (pc (procs s1 p)).
Proof. exact holder_completes. Qed.
Print Assumptions C15_holder_completes.

(* After any history at all (clean stops included) that ends with no munged running, a fresh start
   without --force reaches service and is the daemon the names lead to. *)
Theorem C15_crash_then_start : forall sched s q,
  run init sched = Some s -> quiet s -> st (procs s q) = NotStarted ->
  exists s', run s (repeat (Step q) serve_pc) = Some s' /\ serving s' q = true.
Proof. exact crash_then_start. Qed.
Print Assumptions C15_crash_then_start.

(* In the property's words: the only running munged is SIGKILLed, wherever it is in start-up, service
   or shutdown (any reachable state in which it is the only running process). *)
Theorem C15_kill_then_start : forall sched s p s1 q,
  run init sched = Some s -> st (procs s p) = Running -> (forall w, w <> p -> st (procs s w) <> Running) ->
  step s (Crash p) = Some s1 -> st (procs s q) = NotStarted ->
  exists s', run s1 (repeat (Step q) serve_pc) = Some s' /\ serving s' q = true.
Proof. exact kill_then_start. Qed.
Print Assumptions C15_kill_then_start.

(* After the shutdown program: socket, lock and pid names absent, a NEW seed file present (an inode that did not
   exist when the stop began, complete, written by the stopping process: content = Some p), the process has exited
   successfully and holds no lock and no listening socket. *)
Theorem C15_clean_stop_postcondition : forall s p,
  st (procs s p) = Running -> pc (procs s p) = serve_pc ->
  exists s', run s (Term p :: repeat (Step p) (length shutdown)) = Some s' /\
    st (procs s' p) = Exited /\
    names s' NSock = None /\ names s' NLock = None /\ names s' NPid = None /\
    (exists f, names s' NSeed = Some f /\ next s <= f /\ inodes s' f = seed_inode /\ content s' f = Some p) /\
    (forall i, lockown s' i <> Some p) /\ (forall j, listener s' j <> Some p).
Proof. exact clean_stop_postcondition. Qed.
Print Assumptions C15_clean_stop_postcondition.

(* Every clean stop, in every reachable state (any number of earlier start/stop cycles, kills, other processes):
   the seed file it leaves is not the file the seed name led to before, and carries the stopping process's own
   generation and nobody else's. *)
Theorem C15_seed_renewed_every_stop : forall sched s p, run init sched = Some s ->
  st (procs s p) = Running -> pc (procs s p) = serve_pc ->
  exists s', run s (Term p :: repeat (Step p) (length shutdown)) = Some s' /\
    exists f, names s' NSeed = Some f /\ names s NSeed <> Some f /\ content s' f = Some p /\
              (forall q, q <> p -> content s' f <> Some q).
Proof. exact seed_renewed. Qed.
Print Assumptions C15_seed_renewed_every_stop.

(* What random.c does with the seed file, as observed from the current source: the reader returns on an empty or
   short file (what a SIGKILL between open(seed) and write() leaves) and on a complete one; the writer unlinks the
   old file first, creates with O_CREAT, not O_EXCL, mode 0600, creates a missing file and renews an existing one. *)
Theorem C15_seed_call_shape :
  (seed_read_short_returns = true /\ seed_read_full_returns = true) /\
  (seed_write_unlinks_first = 1%N /\ seed_open_creat = true /\ seed_open_excl = false /\
   seed_create_mode = 384%N /\ seed_write_creates_missing = true /\ seed_write_renews_existing = true).
Proof. exact (conj f_seed_read_returns f_seed_write_shape). Qed.
Print Assumptions C15_seed_call_shape.

(* Finding F-C15-unlink.  The faithful model of the unchanged code violates "at most one ... ever" as
   soon as a CLEAN stop falls between another start's open(lock) and its F_SETLK: witness schedule
   overlap_sched 0 1 2 (A serves; B opens the lock file; A stops cleanly, unlinking the lock file while
   holding it; B locks the orphaned inode and binds; C creates and locks a new lock file, unlinks B's
   socket and binds).  Two live daemons past F_SETLK and at service; B is unreachable. *)
Theorem C15_shutdown_overlap_refuted : exists sched s b c,
  run init sched = Some s /\ b <> c /\
  past_setlk s b /\ past_setlk s c /\ at_serve s b = true /\ at_serve s c = true /\
  serving s b = false /\ serving s c = true /\
  (exists i, lockfd (procs s b) = Some i /\ lockown s i = Some b /\ names s NLock <> Some i).
Proof. exact shutdown_overlap_refuted. Qed.
Print Assumptions C15_shutdown_overlap_refuted.

(* The pid file.  In the property's own domain (any interleaving of starts and SIGKILLs after any history that ends
   with no daemon running) a daemon at service still has the pid file it wrote: the pid name leads to a file whose
   content is this daemon. *)
Theorem C15_pidfile_kept : forall hist s0 sched s p,
  run init hist = Some s0 -> quiet s0 -> starts_and_crashes sched = true -> run s0 sched = Some s ->
  at_serve s p = true -> has_pidfile s p = true.
Proof. exact pidfile_kept. Qed.
Print Assumptions C15_pidfile_kept.

(* Finding F-C15-pidfile-late-unlink.  The faithful model of the unchanged code loses that invariant when a CLEAN stop
   overlaps a start, although every process follows the lock protocol: witness late_unlink_sched 0 1 (A serves and is
   told to stop; sock_destroy runs to its end: unlink socket, close, unlink lock file, close the lock descriptor = lock
   released; B starts without --force: new lock file, F_SETLK, bind, unlinks A's pid file, writes its own, serves; A
   goes on: unlink seed, open, write, and — destroy_conf (conf, 1), the last thing it does — unlink (pid file) by
   name: B's; A exits 0).  B is the one live daemon, holds the lock of the named lock file, listens on the named
   socket, and has no pid file. *)
Theorem C15_pidfile_late_unlink_refuted : exists sched s a b,
  run init sched = Some s /\ a <> b /\ st (procs s a) = Exited /\
  at_serve s b = true /\ holder s b /\
  (exists j, names s NSock = Some j /\ listener s j = Some b /\ sockfd (procs s b) = Some j) /\
  names s NPid = None /\ has_pidfile s b = false /\ serving s b = false.
Proof. exact pidfile_late_unlink_refuted. Qed.
Print Assumptions C15_pidfile_late_unlink_refuted.

Theorem C15_single_holder_needs_no_clean_stop :
  ~ (forall sched s, run init sched = Some s -> forall p q, past_setlk s p -> past_setlk s q -> p = q).
Proof. exact single_holder_needs_no_clean_stop. Qed.
Print Assumptions C15_single_holder_needs_no_clean_stop.

(* What lock.c asks the kernel for, as observed from the current source: O_CREAT without O_EXCL, a
   created mode its own fstat check accepts, a non-blocking exclusive whole-file lock, exit on EAGAIN whatever an
   F_GETLK answers before or after it, no unlink on either path of lock_create without --force, and no query of
   the lock before the attempt to take it (try, then ask — not ask, then try). *)
Theorem C15_lock_call_shape :
  lock_open_creat = true /\ lock_open_excl = false /\ stat_ok lock_inode = true /\
  lock_stat_accepts_nonregular = false /\
  lock_cmd_nonblocking = true /\ lock_type_exclusive = true /\ lock_whole_file = true /\
  lock_busy_exits = true /\ lock_free_exits = false /\ lock_busy_unlinks = 0%N /\ lock_free_unlinks = 0%N /\
  lock_getlk_first = false /\ lock_getlk_held_exits = true.
Proof. repeat split; reflexivity. Qed.
Print Assumptions C15_lock_call_shape.

(* The lock is a property of a DESCRIPTOR: StartModel's lockfd stays open until CloseLock by construction.  In the
   process the descriptor table is explicit (StartFdModel: open = lowest free number, dup2 (x, n) closes n).  For every
   initial table (any of 0-2 closed at exec, anything else open) and anything opened before the lock, the start-up of
   the CURRENT source (gen/GenStart.main_sanitizes_std_fds, syslog_branch_resanitizes, fini_dup2_targets), with a log
   file or with --syslog (where log_close_file () closes stderr after the first sanitize), ends daemonize_fini with the lock
   descriptor still the lock file and the socket descriptor still the socket. *)
Theorem C15_lock_descriptor_survives_daemonize : forall syslog t0 pre,
  fds_intact (start_fds_mode main_sanitizes_std_fds syslog_branch_resanitizes syslog t0 pre) = true.
Proof. exact current_start_keeps_fds. Qed.
Print Assumptions C15_lock_descriptor_survives_daemonize.

(* Finding F-C15-syslog-closes-stderr (repaired in /repo by the second sanitize_std_fds call): sanitized at the start,
   but with --syslog log_close_file () closes stderr afterwards; with nothing kept open before the lock (no /dev/log)
   the lock file gets descriptor 2 and daemonize_fini closes it. *)
Theorem C15_syslog_drops_lock_refuted : exists t0 pre,
  fds_intact (start_fds_mode true false true t0 pre) = false /\
  lock_fd (start_fds_mode true false true t0 pre) = 2.
Proof. exact syslog_start_loses_lock. Qed.
Print Assumptions C15_syslog_drops_lock_refuted.

(* Defect D6 (repaired in /repo by sanitize_std_fds): without that step, a start with descriptors 0-2 closed puts the
   lock file on descriptor 0 and daemonize_fini's dup2 of /dev/null closes it — the fcntl lock is dropped silently. *)
Theorem C15_closed_stdio_drops_lock_refuted : exists t0 pre,
  fds_intact (start_fds false t0 pre) = false /\
  lock_fd (start_fds false t0 pre) <= 2 /\
  get (tab (start_fds false t0 pre)) (lock_fd (start_fds false t0 pre)) = Some Null.
Proof. exact unsanitized_start_loses_lock. Qed.
Print Assumptions C15_closed_stdio_drops_lock_refuted.

(* The deployment mode: munged in the background with its own log file, each life inheriting the file the previous
   one created.  open_logfile's own text, run by the fact generator, gives the mode it creates under a umask and the
   permission bits it refuses on an existing file; daemonize_init's umask is translated from the text.  The created
   mode follows the recipe (base mode without the umask's bits); for EVERY umask of the invoking shell the mode a
   life creates is one the next life accepts; hence any number of lives under any umasks all start. *)
Theorem C15_log_file_inherited :
  log_recipe_holds = true /\
  (forall inherited, log_accepts (log_created_mode inherited) = true) /\
  (forall umasks, lives None umasks = true).
Proof. exact (conj f_log_recipe (conj created_log_accepted all_lives_start)). Qed.
Print Assumptions C15_log_file_inherited.

(* The daemon as it is shipped runs as a non-root user.  The lock file a previous life left (mode and access as
   lock.c asks for them: gen/GenStart.lock_create_mode, lock_open_access) can be opened again by the next life for
   every euid that owns it — a 0200 file is writable, not readable, so the open must not ask to read. *)
Theorem C15_lock_file_reopens : (forall is_root, lock_reopen_ok is_root = true) /\ owner_may_open false 128 2 = false.
Proof. exact (conj lock_file_reopens rdwr_reopen_refused). Qed.
Print Assumptions C15_lock_file_reopens.

(* The stop command.  munged --stop queries the lock file (lock_query; its open flags regenerated from lock.c) and
   signals the holder: over the model's file system it changes nothing, whatever it finds — with no lock file there
   (a redundant second stop) it creates none, so "after a clean stop the lock file is gone" survives any number of
   stop commands and the next start meets no file of the stopper's owner. *)
Theorem C15_stop_command_footprint :
  (forall s, fst (stop_query s) = s) /\ lock_query_creat = false /\ lock_query_leaves_file = false.
Proof. exact (conj stop_footprint_none f_lock_query). Qed.
Print Assumptions C15_stop_command_footprint.

(* "a new seed file exists" for EVERY seed file the start found: none, good, short, or untrusted (wrong mode, foreign
   owner, symbolic link — removed at start-up): the seed path is kept, so the shutdown program's OpenSeed / WriteSeed
   run (facts observed by running random.c's start-up reader on such files). *)
Theorem C15_seed_written_for_every_start_state : forall f, stop_writes_seed f = true.
Proof. exact stop_writes_seed_always. Qed.
Print Assumptions C15_seed_written_for_every_start_state.

(* non-vacuity of the above: a group-writable log file does keep the next life from starting *)
Theorem C15_refused_log_blocks : exists m u, life_log (Some m) u = None.
Proof. exact refused_log_blocks. Qed.
Print Assumptions C15_refused_log_blocks.

(* non-vacuity: the premises are satisfiable and the conclusions are not trivially true.
   (1) three racing starts, one interleaving, then the winner is killed and a fourth start serves;
   (2) a daemon killed after each of its 1..19 steps (start-up, service, shutdown): a fresh start serves;
   (3) killed between open(seed) and write(seed) of its shutdown: an empty seed file is left, a fresh start serves,
       and its own clean stop leaves a seed written by itself;
   (4) three start/serve/stop cycles: the seed is written by the process of each cycle in turn. *)
Definition race3 : list label :=
  [Step 0; Step 1; Step 2; Step 1; Step 0; Step 2; Step 2; Step 0; Step 1; Step 2; Step 0; Step 1;
   Step 2; Step 2; Step 2; Step 2; Step 2; Step 2].
Example C15_race3_example :
  match run init race3 with
  | Some s => serving s 2 && Nat.eqb (status_code (st (procs s 0))) 2 && Nat.eqb (status_code (st (procs s 1))) 2
  | None => false end = true
  /\ match run init (race3 ++ [Crash 2] ++ repeat (Step 3) serve_pc) with
     | Some s => serving s 3 | None => false end = true.
Proof. split; vm_compute; reflexivity. Qed.

Example C15_kill_points_example :
  forallb (fun n => match run init (firstn n (life 0) ++ [Crash 0] ++ repeat (Step 1) serve_pc) with
                    | Some s => serving s 1 | None => false end) (seq 1 19) = true.
Proof. vm_compute. reflexivity. Qed.

Definition opt_none {A} (o : option A) : bool := match o with None => true | Some _ => false end.
Example C15_empty_seed_example :
  match run init (firstn 17 (life 0) ++ [Crash 0]) with
  | Some s => negb (opt_none (names s NSeed)) && opt_none (seed_content s) && negb (opt_none (names s NPid))
  | None => false end = true
  /\ match run init (firstn 17 (life 0) ++ [Crash 0] ++ life 1) with
     | Some s => opt_is (seed_content s) 1 && opt_none (names s NPid) && opt_none (names s NSock) && opt_none (names s NLock)
     | None => false end = true.
Proof. split; vm_compute; reflexivity. Qed.

Example C15_seed_cycles_example :
  match run init (life 0), run init (life 0 ++ life 1), run init (life 0 ++ life 1 ++ life 2) with
  | Some a, Some b, Some c =>
      opt_is (seed_content a) 0 && opt_is (seed_content b) 1 && opt_is (seed_content c) 2
      && negb (Nat.eqb (match names a NSeed with Some f => f | None => 0 end) (match names b NSeed with Some f => f | None => 0 end))
      && negb (Nat.eqb (match names b NSeed with Some f => f | None => 0 end) (match names c NSeed with Some f => f | None => 0 end))
  | _, _, _ => false end = true.
Proof. vm_compute. reflexivity. Qed.

Example C15_quiet_init : quiet init /\ run init [] = Some init.
Proof. split; [intros p; cbn; discriminate|reflexivity]. Qed.

(* ================= path names as byte strings ================= *)

(* what sock_create / lock.c / str.c do with the configured name, as regenerated from the current source:
   a name that passes the length test is shorter than the strlcpy size (copied whole); the copy stays inside
   sun_path; the lock name of every accepted name fits strdupf's buffer; the longest name sun_path can hold with
   its NUL is accepted. *)
Theorem C15_path_source_facts :
  (forall n, sock_len_refuses n = false -> (n < sock_copy_size)%N) /\
  (sock_copy_size <= sun_path_cap)%N /\
  (sock_copy_size + N.of_nat (length lock_suffix) <= lock_name_max)%N /\
  lock_suffix <> [] /\
  sock_len_refuses (N.pred sun_path_cap) = false.
Proof. exact (conj f_accepted_fits (conj f_copy_within_sun_path (conj f_lock_name_fits (conj f_lock_suffix_nonempty f_longest_accepted)))). Qed.
Print Assumptions C15_path_source_facts.

(* For every configured socket path (any length, any bytes): the start is refused at the bind step, or the name
   that is bound is the configured name (which is also the name unlinked as stale socket and at shutdown) and the
   name that is locked is the configured name ++ ".lock". *)
Theorem C15_path_names_agree : forall c,
  refuses c = true \/
  (bind_name c = c_sock c /\ lock_name_of (c_sock c) = c_sock c ++ lock_suffix).
Proof. exact path_names_agree. Qed.
Print Assumptions C15_path_names_agree.

(* An accepted configuration runs exactly StartModel's program, its four tokens read as the configured names. *)
Theorem C15_path_program : forall c, refuses c = false -> cprog c = map (concretize (interp c)) prog.
Proof. exact cprog_refines. Qed.
Print Assumptions C15_path_program.

(* A refused configuration: position 5 of its program is the failing bind step, which leaves the state as it was;
   in every schedule, with any other daemons on any other paths, the process never holds a socket, never listens,
   never reaches service. *)
Theorem C15_path_refused_binds_nothing : forall cf sched cs p,
  refuses (cf p) = true -> crun (cinit cf) sched = Some cs ->
  (nth_error (cprog (cf p)) 5 = Some (CBind true (bind_name (cf p))) /\
   forall s q pr nm, cexec s q pr (CBind true nm) = CFail s) /\
  sockfd (cprocs cs p) = None /\ (forall j, clistener cs j <> Some p) /\ cat_serve cs p = false.
Proof. exact (fun cf sched cs p Hr Hrun => conj (cprog_refused (cf p) Hr) (refused_never_binds cf sched cs p Hr Hrun)). Qed.
Print Assumptions C15_path_refused_binds_nothing.

(* Two accepted configurations that bind the same name are configured with the same socket path and use the same
   lock file: "one daemon per bound name" reduces to "one daemon per lock". *)
Theorem C15_path_one_name_one_lock : forall c d, refuses c = false -> refuses d = false ->
  bind_name c = bind_name d -> c_sock c = c_sock d /\ lock_name_of (c_sock c) = lock_name_of (c_sock d).
Proof. exact bind_name_injective. Qed.
Print Assumptions C15_path_one_name_one_lock.

(* Whatever its configuration (accepted or not, any length), a step of a daemon changes the directory entry of no
   name other than its lock name, its configured socket name, its pid and seed names; SIGKILL and SIGTERM change
   none.  In particular no daemon ever binds or unlinks a shortened form of its socket name. *)
Theorem C15_path_frame : forall cs l cs' nm, cstep cs l = Some cs' ->
  match l with
  | Step q => ~ In nm (site_names (cconf cs q)) -> cnames cs' nm = cnames cs nm
  | _ => cnames cs' nm = cnames cs nm
  end.
Proof. exact step_frame. Qed.
Print Assumptions C15_path_frame.

(* C15_single_holder at byte-string names, for every accepted socket path. *)
Theorem C15_path_single_holder : forall c hist cs0 sched cs,
  conf_wf c = true -> refuses c = false ->
  crun (cinit (fun _ => c)) hist = Some cs0 -> cquiet cs0 ->
  starts_and_crashes sched = true -> crun cs0 sched = Some cs ->
  (forall p q, cpast_setlk cs p -> cpast_setlk cs q -> p = q) /\
  (forall p, cat_serve cs p = true -> cserving c cs p = true).
Proof. exact path_single_holder. Qed.
Print Assumptions C15_path_single_holder.

(* C15_winner_undisturbed at byte-string names. *)
Theorem C15_path_winner_undisturbed : forall c hist cs0 pre cs1 w sched cs2,
  conf_wf c = true -> refuses c = false ->
  crun (cinit (fun _ => c)) hist = Some cs0 -> cquiet cs0 ->
  starts_and_crashes pre = true -> crun cs0 pre = Some cs1 -> cserving c cs1 w = true ->
  Forall (fun l => no_term l /\ l <> Crash w) sched -> crun cs1 sched = Some cs2 ->
  cserving c cs2 w = true /\
  cnames cs2 (c_sock c) = cnames cs1 (c_sock c) /\
  cnames cs2 (c_sock c ++ lock_suffix) = cnames cs1 (c_sock c ++ lock_suffix) /\
  cnames cs2 (c_pid c) = cnames cs1 (c_pid c) /\ cprocs cs2 w = cprocs cs1 w.
Proof. exact path_winner_undisturbed. Qed.
Print Assumptions C15_path_winner_undisturbed.

(* C15_crash_then_start at byte-string names. *)
Theorem C15_path_crash_then_start : forall c sched cs q,
  conf_wf c = true -> refuses c = false ->
  crun (cinit (fun _ => c)) sched = Some cs -> cquiet cs -> st (cprocs cs q) = NotStarted ->
  exists cs', crun cs (repeat (Step q) serve_pc) = Some cs' /\ cserving c cs' q = true.
Proof. exact path_crash_then_start. Qed.
Print Assumptions C15_path_crash_then_start.

(* Clean stop on an accepted path: the configured socket name, the name that was bound, the lock name the program
   computed and the pid name are all gone; a new seed file exists; the process holds nothing. *)
Theorem C15_path_clean_stop : forall c cs p,
  conf_wf c = true -> refuses c = false -> (forall q, cconf cs q = c) ->
  st (cprocs cs p) = Running -> pc (cprocs cs p) = serve_pc ->
  exists cs', crun cs (Term p :: repeat (Step p) (length shutdown)) = Some cs' /\
    st (cprocs cs' p) = Exited /\
    cnames cs' (c_sock c) = None /\ cnames cs' (bind_name c) = None /\
    cnames cs' (lock_name_of (c_sock c)) = None /\ cnames cs' (c_pid c) = None /\
    (exists f, cnames cs' (c_seed c) = Some f /\ cnext cs <= f /\ cinodes cs' f = seed_inode /\
               ccontent cs' f = Some p) /\
    (forall i, clockown cs' i <> Some p) /\ (forall j, clistener cs' j <> Some p).
Proof. exact path_clean_stop. Qed.
Print Assumptions C15_path_clean_stop.

(* non-vacuity at the boundary: socket paths of sun_path_cap-2 .. sun_path_cap+1 bytes.  The two shorter ones are
   accepted, live a whole life and leave no name behind; the two longer ones are refused with nothing bound under
   the full or any shortened name; Q refused on a sun_path_cap-byte path L does not keep P from serving on L's
   (sun_path_cap-1)-byte prefix, and P's socket is P's. *)
Definition c15_path (n : nat) : bytes := repeat "s"%byte n.
Definition c15_conf (n : nat) (tag : byte) : conf := mkConf (c15_path n) ["p"%byte; tag] ["r"%byte; tag].
Definition c15_cap : nat := N.to_nat sun_path_cap.
Example C15_path_boundary_example :
  forallb (fun n => conf_wf (c15_conf n "0"%byte) && Bool.eqb (refuses (c15_conf n "0"%byte)) (c15_cap <=? n))
          [c15_cap - 2; c15_cap - 1; c15_cap; c15_cap + 1] = true
  /\ forallb (fun n =>
        match crun (cinit (fun _ => c15_conf n "0"%byte)) (repeat (Step 0) serve_pc) with
        | Some s => cserving (c15_conf n "0"%byte) s 0 | None => false end
        && match crun (cinit (fun _ => c15_conf n "0"%byte)) (life 0) with
           | Some s => negb (existsb (fun k => match cnames s (firstn k (c15_path n ++ lock_suffix)) with Some _ => true | None => false end)
                                     (seq 0 (n + 7)))
           | None => false end) [c15_cap - 2; c15_cap - 1] = true
  /\ forallb (fun n =>
        match crun (cinit (fun _ => c15_conf n "0"%byte)) (repeat (Step 0) 6) with
        | Some s => Nat.eqb (status_code (st (cprocs s 0))) 2
                    && negb (existsb (fun k => is_sock s (firstn k (c15_path n))) (seq 0 (n + 2)))
        | None => false end) [c15_cap; c15_cap + 1] = true
  /\ match crun (cinit (fun p => if Nat.eqb p 0 then c15_conf c15_cap "0"%byte else c15_conf (c15_cap - 1) "1"%byte))
                (repeat (Step 0) 6 ++ repeat (Step 1) serve_pc) with
     | Some s => cserving (c15_conf (c15_cap - 1) "1"%byte) s 1 && Nat.eqb (status_code (st (cprocs s 0))) 2
                 && opt_is (name_listener s (c15_path (c15_cap - 1))) 1
     | None => false end = true.
Proof. repeat split; vm_compute; reflexivity. Qed.
