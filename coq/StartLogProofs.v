(* StartLogProofs.v — a log file created by one life is accepted by the next, for every inherited umask. *)
From Coq Require Import List NArith Bool.
From MV.gen Require Import GenStart.
From MV Require Import StartLogModel.
Import ListNotations.
Local Open Scope N_scope.

Lemma f_log_recipe : log_recipe_holds = true.
Proof. vm_compute. reflexivity. Qed.

(* the daemon sets its own umask, so the inherited one does not matter; what it creates has none of the refused bits *)
Lemma f_daemon_umask : daemon_umask = Some 0.
Proof. reflexivity. Qed.

Theorem created_log_accepted : forall inherited, log_accepts (log_created_mode inherited) = true.
Proof. intros u. unfold log_created_mode, effective_umask. rewrite f_daemon_umask. vm_compute. reflexivity. Qed.

Lemma lives_from : forall us f, (forall m, f = Some m -> log_accepts m = true) -> lives f us = true.
Proof.
  induction us as [|u r IH]; intros f H; cbn [lives]; [reflexivity|].
  destruct f as [m|]; cbn [life_log].
  - rewrite (H m eq_refl). apply IH. exact H.
  - apply IH. intros m E. inversion E; subst. apply created_log_accepted.
Qed.

(* starting with no log file, any number of lives under any inherited umasks all start *)
Theorem all_lives_start : forall umasks, lives None umasks = true.
Proof. intros us. apply lives_from. intros m E. discriminate. Qed.

(* ... and it is not vacuous: a log file with a refused bit does keep the next life from starting *)
Theorem refused_log_blocks : exists m u, life_log (Some m) u = None.
Proof. exists 438, 18. vm_compute. reflexivity. Qed.

(* the lock file left by a killed (or any) previous life can be opened again by the next life, root or not *)
Theorem lock_file_reopens : forall is_root, lock_reopen_ok is_root = true.
Proof. intros [|]; vm_compute; reflexivity. Qed.

(* non-vacuity: a 0200 file cannot be opened read-write by its non-root owner *)
Theorem rdwr_reopen_refused : owner_may_open false 128 2 = false.
Proof. vm_compute. reflexivity. Qed.

(* munged --stop changes nothing in the file system, whatever state it finds (in particular it creates no lock file
   when none is there: after a clean stop a second --stop leaves the directory as it is) *)
From MV Require Import StartModel.
Theorem stop_footprint_none : forall s, fst (stop_query s) = s.
Proof. intros s. unfold stop_query. destruct (names s NLock); reflexivity. Qed.
Lemma f_lock_query : lock_query_creat = false /\ lock_query_leaves_file = false.
Proof. split; reflexivity. Qed.

(* whatever seed file the start found — none, a good one, a short one, an untrusted one — the clean stop of that life
   writes a seed (StartModel's shutdown program has OpenSeed / WriteSeed unconditionally: this is why it may) *)
Theorem stop_writes_seed_always : forall f, stop_writes_seed f = true.
Proof. intros [| | |]; reflexivity. Qed.
