(* Properties_C05.v — statements only; component level (src/munged/hash.c + replay.c, model: ReplayModel).
   "A credential decodes successfully at most once per daemon": what the replay cache contributes.
   Every theorem is for every slot function `slot_of` (any collision pattern, all keys in one bucket
   included), every table satisfying the invariant hash.c maintains (each chain strictly ascending in
   replay_cmp_f order, every key in the chain of its slot, count = number of nodes) — which the empty
   table satisfies and every operation preserves — and every sequence of operations.
   Keys are (first replay_mac_len MAC bytes, t_expired); equal expiry and equal MAC prefix are not excluded
   anywhere.  Pipeline-level theorems (dec_process order, retry exception) are appended by the maintainer. *)
From Coq Require Import List NArith Bool Permutation.
From Coq.Strings Require Import Byte.
From MV Require Import Bytes ReplayModel ReplayProofs.
From MV.gen Require Import GenReplay.
Import ListNotations.
Local Open Scope N_scope.

(* the numbers and sampled comparison behaviour the model is built on are the ones found in the source *)
Theorem C05_source_facts :
  replay_keyf_linear = true /\ replay_cmp_unsigned = true /\ replay_cmp_time_tiebreak = true /\
  replay_cmp_mac_first = true /\ replay_cmp_len = replay_mac_len /\
  N.of_nat replay_mac_len = munge_minimum_md_len /\
  replay_expired_when_lt = true /\ replay_expired_when_eq = false /\ replay_expired_when_gt = false /\
  replay_texp_wraps32 = false /\ replay_texp_exact = true /\ 0 < replay_hash_size /\ 0 < replay_purge_secs.
Proof. exact source_facts. Qed.
Print Assumptions C05_source_facts.

(* key_f (key) % size is a slot of the table, whatever key_f is *)
Theorem C05_c_slot_in_range : forall size : N, 0 < size -> slots_ok (c_slot size) (N.to_nat size).
Proof. exact c_slot_ok. Qed.
Print Assumptions C05_c_slot_in_range.

(* the chained table refines a finite set of keys: lookup/insert/remove/purge agree with membership in
   abs t (the keys in hash_for_each order), even when all keys collide *)
Theorem C05_hash_refines_set : forall (slot_of : rkey -> nat) (nslots : nat), slots_ok slot_of nslots ->
  rinv slot_of nslots (create nslots) /\ abs (create nslots : rtable) = [] /\
  forall t : rtable, rinv slot_of nslots t ->
    NoDup (abs t) /\ count t = N.of_nat (length (abs t)) /\
    (forall k, replay_find slot_of k t = true <-> In k (abs t)) /\
    (forall k, let r := replay_insert slot_of k t in
       rinv slot_of nslots (snd r) /\
       (fst r = AlreadyExists <-> In k (abs t)) /\ (fst r = Inserted <-> ~ In k (abs t)) /\
       (fst r = AlreadyExists -> snd r = t) /\
       (fst r = Inserted -> count (snd r) = count t + 1) /\
       (forall x, In x (abs (snd r)) <-> x = k \/ In x (abs t))) /\
    (forall k, let r := replay_remove slot_of k t in
       rinv slot_of nslots (snd r) /\
       (fst r = true <-> In k (abs t)) /\ (fst r = false -> snd r = t) /\
       (fst r = true -> count (snd r) + 1 = count t) /\
       (forall x, In x (abs (snd r)) <-> x <> k /\ In x (abs t))) /\
    (forall now, let r := replay_purge now t in
       rinv slot_of nslots (snd r) /\
       (forall x, In x (abs (snd r)) <-> In x (abs t) /\ now <= snd x)).
Proof. exact hash_refines_set. Qed.
Print Assumptions C05_hash_refines_set.

(* bridge to a list-of-keys view of the replay set (the credential pipeline's CredModel keeps a list with a
   member test, k :: rs on insert and a filter on roll-back): a list with the same members as abs t gives
   the same verdicts and keeps the same members under insert and remove; abs itself changes by a
   permutation of k :: abs t *)
Theorem C05_abs_list_bridge : forall (slot_of : rkey -> nat) (nslots : nat), slots_ok slot_of nslots ->
  forall (t : rtable) (l : list rkey), rinv slot_of nslots t -> (forall x, In x l <-> In x (abs t)) ->
  forall k,
    (fst (replay_insert slot_of k t) = AlreadyExists <-> In k l) /\
    (fst (replay_insert slot_of k t) = Inserted <-> ~ In k l) /\
    (fst (replay_insert slot_of k t) = AlreadyExists -> snd (replay_insert slot_of k t) = t) /\
    (fst (replay_insert slot_of k t) = Inserted ->
       Permutation (abs (snd (replay_insert slot_of k t))) (k :: abs t)) /\
    (forall x, In x (k :: l) <-> In x (abs (snd (replay_insert slot_of k t)))) /\
    (fst (replay_remove slot_of k t) = true <-> In k l) /\
    (fst (replay_remove slot_of k t) = true ->
       Permutation (k :: abs (snd (replay_remove slot_of k t))) (abs t)) /\
    (forall l', (forall x, In x l' <-> In x l /\ x <> k) ->
                forall x, In x l' <-> In x (abs (snd (replay_remove slot_of k t)))).
Proof. exact abs_list_bridge. Qed.
Print Assumptions C05_abs_list_bridge.

(* sequential decodes (any keys, any order, failed attempts interleaved): the i-th event, a presentation
   of k, is answered Exists exactly when k was in the table at the start or was presented before, and
   Inserted exactly otherwise *)
Theorem C05_at_most_once_sequential : forall (slot_of : rkey -> nat) (nslots : nat), slots_ok slot_of nslots ->
  forall (st : rstate) (h : list event), rinv slot_of nslots (tbl st) -> Forall decode_only h ->
  forall (i : nat) (k : rkey), nth_error h i = Some (EPresent k) ->
    (nth_error (snd (run slot_of st h)) i = Some OExists <->
       (In k (abs (tbl st)) \/ In (EPresent k) (firstn i h))) /\
    (nth_error (snd (run slot_of st h)) i = Some OInserted <->
       ~ (In k (abs (tbl st)) \/ In (EPresent k) (firstn i h))).
Proof. exact at_most_once_seq. Qed.
Print Assumptions C05_at_most_once_sequential.

(* hence: among all presentations of a fresh key exactly one — the first — creates the record, every
   other one is reported as a replay *)
Theorem C05_exactly_one_sequential : forall (slot_of : rkey -> nat) (nslots : nat), slots_ok slot_of nslots ->
  forall (st : rstate) (h : list event) (k : rkey), rinv slot_of nslots (tbl st) -> Forall decode_only h ->
  ~ In k (abs (tbl st)) -> In (EPresent k) h ->
  exists i, nth_error h i = Some (EPresent k) /\ nth_error (snd (run slot_of st h)) i = Some OInserted /\
    forall j, j <> i -> nth_error h j = Some (EPresent k) ->
              nth_error (snd (run slot_of st h)) j = Some OExists.
Proof. exact exactly_one_seq. Qed.
Print Assumptions C05_exactly_one_sequential.

(* presentations and removals of other keys — same bucket, same expiry, same MAC prefix with another
   expiry: only k' <> k is assumed — never change whether k is present nor the answer to its presentation *)
Theorem C05_distinct_keys_independent : forall (slot_of : rkey -> nat) (nslots : nat), slots_ok slot_of nslots ->
  forall (st : rstate) (h : list event) (k : rkey), rinv slot_of nslots (tbl st) ->
  Forall (fun e => ~ touches k e) h ->
  (In k (abs (tbl (final slot_of st h))) <-> In k (abs (tbl st))) /\
  snd (step slot_of (final slot_of st h) (EPresent k)) = snd (step slot_of st (EPresent k)).
Proof. exact distinct_keys. Qed.
Print Assumptions C05_distinct_keys_independent.

(* a decode that fails before dec_validate_replay does not call replay.c: erasing such attempts from any
   history changes neither the final state nor any other answer; and a presentation answered "exists"
   leaves the table as it was (C05_hash_refines_set).  That dec_process reaches dec_validate_replay only
   after every other check passed is a pipeline-level fact. *)
Theorem C05_failed_attempts_do_not_consume : forall (slot_of : rkey -> nat) (st : rstate) (h : list event),
  final slot_of st (filter (fun e => negb (is_fail e)) h) = final slot_of st h /\
  snd (run slot_of st (filter (fun e => negb (is_fail e)) h)) =
    map snd (filter (fun p => negb (is_fail (fst p))) (combine h (snd (run slot_of st h)))).
Proof. exact fails_invisible. Qed.
Print Assumptions C05_failed_attempts_do_not_consume.

(* k concurrent decoders, one atomic replay_insert each (hash mutex), any number of worker threads: for
   every schedule — any list of request ids, repeats and foreign ids are stutter steps — after which every
   request has been served: a key already recorded is reported as replayed to all its requests; a fresh
   key gets exactly one Inserted among its requests and Exists for all the others *)
Theorem C05_at_most_once_concurrent : forall (slot_of : rkey -> nat) (nslots : nat), slots_ok slot_of nslots ->
  forall (reqs : list rkey) (sched : list nat) (t0 : rtable), rinv slot_of nslots t0 ->
  let st := crun slot_of reqs sched (cinit reqs t0) in
  all_done (snd st) ->
  forall k,
    (In k (abs t0) -> forall j, nth_error reqs j = Some k ->
                      nth_error (snd st) j = Some (Some AlreadyExists)) /\
    (~ In k (abs t0) -> In k reqs ->
       exists i, nth_error reqs i = Some k /\ nth_error (snd st) i = Some (Some Inserted) /\
         forall j, j <> i -> nth_error reqs j = Some k ->
                   nth_error (snd st) j = Some (Some AlreadyExists)).
Proof. exact at_most_once_conc. Qed.
Print Assumptions C05_at_most_once_concurrent.

(* the premise all_done is satisfiable: every schedule that gives each request a turn is complete *)
Theorem C05_fair_schedules_complete : forall (slot_of : rkey -> nat) (reqs : list rkey) (sched : list nat)
  (t0 : rtable), (forall i, (i < length reqs)%nat -> In i sched) ->
  all_done (snd (crun slot_of reqs sched (cinit reqs t0))).
Proof. exact fair_schedule_completes. Qed.
Print Assumptions C05_fair_schedules_complete.

(* non-vacuity: three keys in ONE bucket of a one-slot table — same MAC with two expiries, and a second
   MAC with an equal expiry — presented twice each: first presentations Inserted, second ones Exists *)
Example C05_collision_example :
  let ka : rkey := (["a"; "b"]%byte, 100) in
  let kb : rkey := (["a"; "b"]%byte, 101) in
  let kc : rkey := (["a"; "c"]%byte, 100) in
  snd (run (fun _ => 0%nat) (mkS (create 1) 0)
           [EPresent kb; EPresent ka; EFail kc; EPresent kc; EPresent ka; EPresent kc; EPresent kb]) =
    [OInserted; OInserted; ONone; OInserted; OExists; OExists; OExists] /\
  abs (tbl (final (fun _ => 0%nat) (mkS (create 1) 0) [EPresent kb; EPresent ka; EPresent kc])) = [ka; kb; kc].
Proof. vm_compute. split; reflexivity. Qed.

(* ---- source-level tie of the replay stage (tools/facts/cfun.py -> gen/GenCredFun.v: dec_process_msg and
        dec_validate_replay TRANSLATED from the C text on every run; CredPipe.v).  For every interpretation of the
        stage functions: the replay cache is consulted LAST (after authorization and the time window), a failing stage
        ends the chain, and the record is taken back exactly when the reply of a successful decode THAT ADDED THE RECORD
        ITSELF (c->is_replay_new) could not be sent -
        not for a replayed, expired or unauthorized one. ---- *)
From Coq Require Import ZArith String.
From MV Require Import CredModel CredFun CredPipe.
From MV.gen Require Import GenCred GenCredFun.
Theorem C05_source_decode_control : forall (S : Type) (ops : pipe_ops S) (s : S),
  src_dec_process_msg ops s = pipe_control ops dec_stage_order soft_err (Some "is_replay_new"%string) s.
Proof. exact src_dec_process_msg_is_pipe. Qed.
Print Assumptions C05_source_decode_control.
Theorem C05_source_record_taken_back_exactly_when : forall (fail : string -> option N) (added send_ok : bool),
  t_unplayed (snd (src_dec_process_msg (trace_ops fail added send_ok) t0)) =
  negb send_ok && all_succeed fail dec_stage_order && added.
Proof. exact src_dec_unplay_iff. Qed.
Print Assumptions C05_source_record_taken_back_exactly_when.
(* replay_insert's outcome x the retry exemption, as in the model's replay stage *)
Theorem C05_source_replay_stage : forall (cf : conf) (clk ins en c : Z) (m : msg),
  src_dec_validate_replay cf clk ins en c m =
  ((if (ins =? 0)%Z then (if (clk =? -1)%Z then e_snafu
                          else if (clk >? Z.of_N (m_time0 m) + Z.of_N (m_ttl m))%Z then e_cred_expired else 0)
    else if (ins >? 0)%Z
         then (if cf_socket_retry cf && (0 <? m_retry m) && (m_retry m <=? c_retry_attempts) then 0 else e_cred_replayed)
    else if (en =? 12)%Z then e_no_memory else e_snafu), m,
   (if (ins =? 0)%Z && negb (clk =? -1)%Z && negb (clk >? Z.of_N (m_time0 m) + Z.of_N (m_ttl m))%Z then 1 else c)%Z).
Proof. exact dec_validate_replay_is_source. Qed.
Print Assumptions C05_source_replay_stage.
(* the translated dec_process_msg over the model's stage functions IS CredModel.dec_process (+ dec_rollback when the
   reply could not be sent): reply, replay state afterwards, return code *)
Theorem C05_source_pipeline_is_model :
  forall (hmac : N -> bytes -> bytes -> bytes) (sha1 : bytes -> bytes) (blk_dec : N -> bytes -> bytes -> bytes)
         (zdecomp : N -> bytes -> N -> option bytes) (cf : conf) (mem : N -> N -> bool) (pu pg now now2 : N)
         (rs : CredModel.rstate) (m : msg) (send_ok : bool),
  let '(rc, s) := src_dec_process_msg (dec_ops hmac sha1 blk_dec zdecomp cf mem pu pg now now2 send_ok) (dinit m rs) in
  let '(r, rs', k) := dec_process2 hmac sha1 blk_dec zdecomp cf mem rs m pu pg now now2 in
  d_msg s = r /\ d_rs s = (if send_ok then rs' else dec_rollback rs' k) /\
  rc = (if send_ok && dec_accepts hmac sha1 blk_dec zdecomp cf mem pu pg now now2 rs m then 0 else -1)%Z.
Proof. exact dec_process_is_source. Qed.
Print Assumptions C05_source_pipeline_is_model.

(* ---- first attempts decode at most once, over whole histories of one daemon (CredHistory.v).  A decode is NOT atomic
        in time: it reads the clock when the request is received (t1: time-window check, decode time of the reply) and
        again at its replay step (t2: dec_validate_replay, after replay_insert).  Events: HDecode m pu pg t1 t2 (reply
        delivered), HDecodeLost m pu pg t1 t2 (reply cannot be delivered: the daemon takes back what the request added
        and owns), HPurge p; they are linearised at their replay step / at the purge.  The request message carries the
        retry value (any N, so 0..255 in particular); clients are arbitrary per event.  The ONLY assumption on time is
        clock_ok: event times (t2 / p) non-decreasing along the history - forward jumps of any size allowed - and
        t1 <= t2 within a decode; purges may fall anywhere. ---- *)
From MV Require Import CredProofs RetryModel RetryProofs CredHistory.
(* after a DELIVERED decode of credential X that authenticated, was authorized and in time at its receipt (any retry
   value, any clock readings - in particular after a delivered success), every later request for X with retry = 0 that
   was inside the window when received is NOT accepted, whatever came before (h1) and in between (h2: any mix of
   delivered / undeliverable decodes of any credentials with any retry values from any clients, each with its own two
   clock readings, and purge ticks anywhere): it is answered 'replayed', or 'expired' when a purge has discarded the
   record (then its replay step is after the last valid second).  Hence at most one retry-0 request per credential with
   a delivered reply ever succeeds. *)
Theorem C05_first_attempts_at_most_once :
  forall (hmac : N -> bytes -> bytes -> bytes) (sha1 : bytes -> bytes) (blk_dec : N -> bytes -> bytes -> bytes)
         (zdecomp : N -> bytes -> N -> option bytes) cf mem (rs0 : CredModel.rstate) h1 h2
         mA puA pgA tA1 tA2 mA' m pu pg t1 t2 m' k,
  dec_pre hmac sha1 blk_dec zdecomp cf mem mA puA pgA tA1 = inr (mA', k) ->
  clock_ok (h2 ++ [HDecode m pu pg t1 t2]) ->
  dec_pre hmac sha1 blk_dec zdecomp cf mem m pu pg t1 = inr (m', k) -> m_retry m = 0 ->
  let rs := hrun hmac sha1 blk_dec zdecomp cf mem rs0 (h1 ++ HDecode mA puA pgA tA1 tA2 :: h2) in
  dec_process2 hmac sha1 blk_dec zdecomp cf mem rs m pu pg t1 t2
    = (dec_finish (set_err m' e_cred_replayed None), rs, None) \/
  (snd k < t2 /\ dec_process2 hmac sha1 blk_dec zdecomp cf mem rs m pu pg t1 t2
                 = (dec_finish (set_err m' e_cred_expired None), k :: rs, None)).
Proof. exact first_attempts_at_most_once. Qed.
Print Assumptions C05_first_attempts_at_most_once.
Theorem C05_two_first_attempts_not_both_ok :
  forall (hmac : N -> bytes -> bytes -> bytes) (sha1 : bytes -> bytes) (blk_dec : N -> bytes -> bytes -> bytes)
         (zdecomp : N -> bytes -> N -> option bytes) cf mem (rs0 : CredModel.rstate) h1 h2
         mA puA pgA tA1 tA2 mA' m pu pg t1 t2 m' k,
  dec_pre hmac sha1 blk_dec zdecomp cf mem mA puA pgA tA1 = inr (mA', k) ->
  clock_ok (h2 ++ [HDecode m pu pg t1 t2]) ->
  dec_pre hmac sha1 blk_dec zdecomp cf mem m pu pg t1 = inr (m', k) -> m_retry m = 0 -> m_err m = e_success ->
  let rs := hrun hmac sha1 blk_dec zdecomp cf mem rs0 (h1 ++ HDecode mA puA pgA tA1 tA2 :: h2) in
  let e := m_err (fst (fst (dec_process2 hmac sha1 blk_dec zdecomp cf mem rs m pu pg t1 t2))) in
  e = e_cred_replayed \/ e = e_cred_expired.
Proof. exact two_first_attempts_not_both_ok. Qed.
Print Assumptions C05_two_first_attempts_not_both_ok.
(* a decode whose reply cannot be delivered leaves the cache as it found it (any request, any retry value) - except
   that the record of a credential that expired between receipt and the replay step stays (the request does not own
   it; it is expired and will be purged) *)
Theorem C05_undeliverable_decode_effect :
  forall (hmac : N -> bytes -> bytes -> bytes) (sha1 : bytes -> bytes) (blk_dec : N -> bytes -> bytes -> bytes)
         (zdecomp : N -> bytes -> N -> option bytes) cf mem (rs : CredModel.rstate) m pu pg t1 t2,
  fst (hstep hmac sha1 blk_dec zdecomp cf mem rs (HDecodeLost m pu pg t1 t2)) = rs \/
  (exists m' k, dec_pre hmac sha1 blk_dec zdecomp cf mem m pu pg t1 = inr (m', k) /\ r_mem k rs = false /\ snd k < t2 /\
                fst (hstep hmac sha1 blk_dec zdecomp cf mem rs (HDecodeLost m pu pg t1 t2)) = k :: rs).
Proof. exact lost_decode_effect. Qed.
Print Assumptions C05_undeliverable_decode_effect.
(* the roll-back rule BEFORE repair 3dbe0fd (rc = 0 alone: a retry that was allowed to replay an existing record took
   that record back when its reply could not be sent; CredHistory.dec_process_old) violates
   C05_first_attempts_at_most_once: A first attempt delivered ok; B same credential retry = 1, reply undeliverable; C
   first attempt again in the window, no purge, the clock standing still inside each decode - all premises hold, C
   succeeds again under the old rule (cache empty), is 'replayed' under the model's *)
Theorem C05_old_unplay_refuted :
  let pre := dec_pre toy_hmac (fun x => x) toy_blk (fun _ x _ => Some x) cf_std (fun _ _ => false) in
  let old := dec_process_old toy_hmac (fun x => x) toy_blk (fun _ x _ => Some x) cf_std (fun _ _ => false) in
  let new := dec_process2 toy_hmac (fun x => x) toy_blk (fun _ x _ => Some x) cf_std (fun _ _ => false) in
  let A := HDecode (req toy_cred 0) 7 8 5010 5010 in
  let B := HDecodeLost (req toy_cred 1) 7 8 5011 5011 in
  let C := req toy_cred 0 in
  (exists mA' m' k, pre (req toy_cred 0) 7 8 5010 = inr (mA', k) /\ pre C 7 8 5012 = inr (m', k)) /\
  m_retry C = 0 /\ clock_ok ([A; B] ++ [HDecode C 7 8 5012 5012]) /\
  (let rs := hrun_old toy_hmac (fun x => x) toy_blk (fun _ x _ => Some x) cf_std (fun _ _ => false) [] [A; B] in
   m_err (fst (fst (old rs C 7 8 5012))) = e_success /\ rs = []) /\
  (let rs := hrun toy_hmac (fun x => x) toy_blk (fun _ x _ => Some x) cf_std (fun _ _ => false) [] [A; B] in
   m_err (fst (fst (new rs C 7 8 5012 5012))) = e_cred_replayed /\ List.length rs = 1%nat).
Proof. exact old_unplay_refuted. Qed.
Print Assumptions C05_old_unplay_refuted.
(* the rule BEFORE repair 41b6e44 (time check against the receipt clock only, no look at the clock after replay_insert;
   CredHistory.dec_process_stale) violates C05_first_attempts_at_most_once: toy credential encoded at 5000 with TTL 60,
   X = 5060 its last valid second.  A = first attempt received and processed at X: success.  Purge at X + 1: the record
   is discarded.  C = first attempt RECEIVED at X whose replay step is at X + 1.  clock_ok and every premise hold
   (h1 = [], h2 = [purge]); under the old rule C succeeds a SECOND time, under the model's rule it is answered 'expired'
   with the reply's fields intact *)
Theorem C05_stale_time_refuted :
  let pre := dec_pre toy_hmac (fun x => x) toy_blk (fun _ x _ => Some x) cf_std (fun _ _ => false) in
  let stale := dec_process_stale toy_hmac (fun x => x) toy_blk (fun _ x _ => Some x) cf_std (fun _ _ => false) in
  let new := dec_process2 toy_hmac (fun x => x) toy_blk (fun _ x _ => Some x) cf_std (fun _ _ => false) in
  let A := HDecode (req toy_cred 0) 7 8 5060 5060 in
  let P := HPurge 5061 in
  let C := req toy_cred 0 in
  (exists mA' m' k, pre (req toy_cred 0) 7 8 5060 = inr (mA', k) /\ pre C 7 8 5060 = inr (m', k) /\ snd k = 5060) /\
  m_retry C = 0 /\ clock_ok ([A; P] ++ [HDecode C 7 8 5060 5061]) /\
  (let rs := hrun_stale toy_hmac (fun x => x) toy_blk (fun _ x _ => Some x) cf_std (fun _ _ => false) [] [A; P] in
   rs = [] /\ m_err (fst (fst (stale rs C 7 8 5060))) = e_success) /\
  (let rs := hrun toy_hmac (fun x => x) toy_blk (fun _ x _ => Some x) cf_std (fun _ _ => false) [] [A; P] in
   rs = [] /\ let r := fst (fst (new rs C 7 8 5060 5061)) in
              m_err r = e_cred_expired /\ m_data_len r = 5 /\ m_cred_uid r = 1000).
Proof. exact stale_time_refuted. Qed.
Print Assumptions C05_stale_time_refuted.
