(* ConcProofs.v — C11: every interleaving is equivalent to the sequential execution in the order of the
   atomic steps; each reply is a function of its own request and of the shared state at its atomic step. *)
From Coq Require Import List Arith Bool Lia NArith.
From MV Require Import ConcModel.
Import ListNotations.

Section P.
Variables Req Pre Rep St : Type.
Variable pre : Req -> Pre.
Variable atomic : Pre -> St -> Rep * St.

Notation cstate := (cstate Pre Rep St).
Notation cstep := (cstep pre atomic).
Notation crun := (crun pre atomic).
Notation seq_run := (seq_run pre atomic).

Lemma upd_same (f : nat -> phase Pre Rep) i x : upd f i x i = x.
Proof. unfold ConcModel.upd. now rewrite Nat.eqb_refl. Qed.
Lemma upd_other (f : nat -> phase Pre Rep) i x j : j <> i -> upd f i x j = f j.
Proof. intros H. unfold ConcModel.upd. apply Nat.eqb_neq in H. now rewrite H. Qed.

Lemma seq_run_snoc reqs o i s0 :
  seq_run reqs (o ++ [i]) s0 =
  let '(s1, l1) := seq_run reqs o s0 in
  match reqs i with
  | Some q => let '(rep, s2) := atomic (pre q) s1 in (s2, l1 ++ [(i, rep)])
  | None => (s1, l1)
  end.
Proof.
  revert s0. induction o as [|j o IH]; intros s0; cbn.
  - destruct (reqs i) as [q|]; [|reflexivity]. destruct (atomic (pre q) s0). reflexivity.
  - destruct (reqs j) as [qj|].
    + destruct (atomic (pre qj) s0) as [rep s']. rewrite IH.
      destruct (seq_run reqs o s') as [s1 l1]. destruct (reqs i) as [q|]; [|reflexivity].
      destruct (atomic (pre q) s1). reflexivity.
    + apply IH.
Qed.

(* Invariant: shared state and every computed reply are those of the sequential run in atomic order *)
Definition Inv (reqs : nat -> option Req) (s0 : St) (s : cstate) : Prop :=
  shared s = fst (seq_run reqs (rev (done_order s)) s0) /\
  (forall i r, reply_of s i = Some r <-> In (i, r) (snd (seq_run reqs (rev (done_order s)) s0))) /\
  (forall i p, th s i = P1 p -> exists q, reqs i = Some q /\ p = pre q) /\
  (forall i, In i (done_order s) <-> exists r, reply_of s i = Some r) /\
  NoDup (done_order s).

Lemma inv_init reqs s0 : Inv reqs s0 (cinit s0).
Proof.
  unfold Inv, cinit, ConcModel.reply_of. cbn. repeat split; try tauto; try discriminate.
  - intros [r H]. discriminate.
  - constructor.
Qed.

Lemma inv_step reqs s0 s e s' : Inv reqs s0 s -> cstep reqs s e = Some s' -> Inv reqs s0 s'.
Proof.
  intros (Hs & Hr & Hp & Hd & Hn) H. destruct e as [i|i|i]; cbn in H.
  - (* EPre *)
    destruct (reqs i) as [q|] eqn:Q; [|discriminate]. destruct (th s i) eqn:T; try discriminate.
    inversion H; subst; clear H. unfold Inv; cbn [shared th done_order]. repeat split.
    + exact Hs.
    + intros Hx. apply Hr. unfold ConcModel.reply_of in *. cbn [th] in Hx.
      destruct (Nat.eq_dec i0 i) as [->|Hne]; [rewrite upd_same in Hx; discriminate|now rewrite upd_other in Hx].
    + intros Hx. apply Hr in Hx. unfold ConcModel.reply_of in *. cbn [th].
      destruct (Nat.eq_dec i0 i) as [->|Hne]; [rewrite T in Hx; discriminate|now rewrite upd_other].
    + intros j p Hj. destruct (Nat.eq_dec j i) as [->|Hne].
      * rewrite upd_same in Hj. inversion Hj; subst. eauto.
      * rewrite upd_other in Hj by exact Hne. eauto.
    + intros Hx. apply Hd in Hx. destruct Hx as [r Hx]. exists r. unfold ConcModel.reply_of in *. cbn [th].
      destruct (Nat.eq_dec i0 i) as [->|Hne]; [rewrite T in Hx; discriminate|now rewrite upd_other].
    + intros [r Hx]. apply Hd. exists r. unfold ConcModel.reply_of in *. cbn [th] in Hx.
      destruct (Nat.eq_dec i0 i) as [->|Hne]; [rewrite upd_same in Hx; discriminate|now rewrite upd_other in Hx].
    + exact Hn.
  - (* EAtomic *)
    destruct (th s i) eqn:T; try discriminate.
    destruct (atomic p (shared s)) as [r st'] eqn:A. inversion H; subst; clear H.
    destruct (Hp _ _ T) as (q & Q & ->).
    assert (Hnot : ~ In i (done_order s)).
    { intros Hin. apply Hd in Hin. destruct Hin as [r0 Hx]. unfold ConcModel.reply_of in Hx. rewrite T in Hx. discriminate. }
    unfold Inv; cbn [shared th done_order rev].
    rewrite seq_run_snoc. destruct (seq_run reqs (rev (done_order s)) s0) as [s1 l1] eqn:S.
    cbn [fst snd] in *. rewrite Q. rewrite <- Hs, A. cbn [fst snd]. repeat split.
    + intros Hx. unfold ConcModel.reply_of in Hx. cbn [th] in Hx. apply in_or_app.
      destruct (Nat.eq_dec i0 i) as [->|Hne].
      * rewrite upd_same in Hx. inversion Hx; subst. right. left. reflexivity.
      * rewrite upd_other in Hx by exact Hne. left. apply Hr. exact Hx.
    + intros Hx. apply in_app_or in Hx. unfold ConcModel.reply_of. cbn [th]. destruct Hx as [Hx|[Hx|[]]].
      * assert (i0 <> i).
        { intros ->. apply Hnot. apply Hd. exists r0. apply Hr. exact Hx. }
        rewrite upd_other by assumption. apply Hr. exact Hx.
      * inversion Hx; subst. now rewrite upd_same.
    + intros j p Hj. destruct (Nat.eq_dec j i) as [->|Hne].
      * rewrite upd_same in Hj. discriminate.
      * rewrite upd_other in Hj by exact Hne. eauto.
    + intros [->|Hx].
      * exists r. unfold ConcModel.reply_of. cbn [th]. now rewrite upd_same.
      * assert (i0 <> i) by (intros ->; contradiction).
        apply Hd in Hx. destruct Hx as [r0 Hx]. exists r0. unfold ConcModel.reply_of in *. cbn [th]. now rewrite upd_other.
    + intros [r0 Hx]. unfold ConcModel.reply_of in Hx. cbn [th] in Hx.
      destruct (Nat.eq_dec i0 i) as [->|Hne]; [left; reflexivity|].
      right. apply Hd. exists r0. unfold ConcModel.reply_of. now rewrite upd_other in Hx.
    + constructor; assumption.
  - (* EPost *)
    destruct (th s i) eqn:T; try discriminate. inversion H; subst; clear H.
    unfold Inv; cbn [shared th done_order]. repeat split.
    + exact Hs.
    + intros Hx. apply Hr. unfold ConcModel.reply_of in *. cbn [th] in Hx.
      destruct (Nat.eq_dec i0 i) as [->|Hne]; [rewrite upd_same in Hx; rewrite T; exact Hx|now rewrite upd_other in Hx].
    + intros Hx. apply Hr in Hx. unfold ConcModel.reply_of in *. cbn [th].
      destruct (Nat.eq_dec i0 i) as [->|Hne]; [rewrite upd_same; rewrite T in Hx; exact Hx|now rewrite upd_other].
    + intros j p Hj. destruct (Nat.eq_dec j i) as [->|Hne].
      * rewrite upd_same in Hj. discriminate.
      * rewrite upd_other in Hj by exact Hne. eauto.
    + intros Hx. apply Hd in Hx. destruct Hx as [r0 Hx]. exists r0. unfold ConcModel.reply_of in *. cbn [th].
      destruct (Nat.eq_dec i0 i) as [->|Hne]; [rewrite upd_same; rewrite T in Hx; exact Hx|now rewrite upd_other].
    + intros [r0 Hx]. apply Hd. exists r0. unfold ConcModel.reply_of in *. cbn [th] in Hx.
      destruct (Nat.eq_dec i0 i) as [->|Hne]; [rewrite upd_same in Hx; rewrite T; exact Hx|now rewrite upd_other in Hx].
    + exact Hn.
Qed.

Lemma inv_run reqs s0 es : forall s s', Inv reqs s0 s -> crun reqs s es = Some s' -> Inv reqs s0 s'.
Proof.
  induction es as [|e es IH]; intros s s' Hi H; cbn in H.
  - inversion H; subst. exact Hi.
  - destruct (cstep reqs s e) as [s1|] eqn:E; [|discriminate]. eapply IH; [|exact H]. eapply inv_step; eauto.
Qed.

(* C11 linearizability: for EVERY interleaving (any number of threads, any schedule of their three steps), the
   shared state and the reply of every request that has passed its atomic step are exactly those of the
   sequential execution of the same requests in the order of the atomic steps; that order has no repetition. *)
Theorem linearizable reqs s0 es s :
  crun reqs (cinit s0) es = Some s ->
  let order := rev (done_order s) in
  NoDup order /\
  shared s = fst (seq_run reqs order s0) /\
  (forall i r, reply_of s i = Some r <-> In (i, r) (snd (seq_run reqs order s0))).
Proof.
  intros H. destruct (inv_run reqs s0 es _ _ (inv_init reqs s0) H) as (Hs & Hr & _ & _ & Hn).
  cbv zeta. split; [apply NoDup_rev; exact Hn|]. split; assumption.
Qed.

(* each reply is a function of the thread's own request and the shared state at its atomic step only *)
Theorem reply_depends_on_own_request reqs s e s' i r :
  cstep reqs s e = Some s' -> e = EAtomic i -> reply_of s' i = Some r ->
  forall p, th s i = P1 p -> r = fst (atomic p (shared s)).
Proof.
  intros H -> Hr p T. cbn in H. rewrite T in H. destruct (atomic p (shared s)) as [r0 st'] eqn:A.
  inversion H; subst; clear H. unfold ConcModel.reply_of in Hr. cbn [th] in Hr. rewrite upd_same in Hr.
  inversion Hr; subst. reflexivity.
Qed.

End P.
