(* MsgModel.v — executable model of the client<->daemon message codec (no proofs here):
     src/libcommon/m_msg.c   _msg_length, _msg_pack, _msg_unpack, _alloc, _copy, _pack, _unpack,
                             m_msg_send, m_msg_recv, m_msg_set_err
     src/munged/job.c        _job_exec (dispatch on the received type)
     src/libmunge/m_msg_client.c  (calls m_msg_send (req, MUNGE_MAXIMUM_REQ_LEN), m_msg_recv (rsp_type, 0))
   Constants, type codes, member widths, sizeof (m->addr) and the *measured* bound on DEC_RSP addr_len come
   from gen/GenMsg.v, regenerated from /repo on every run.

   The code has three separate switch statements (_msg_length, _msg_pack, _msg_unpack); the model has one
   field list per message type for each of them, in the order of the source lines, and three generic
   interpreters.  C conversions kept: uint32 -> int at _alloc/_copy (to_int), `len < 0`, `p + len > q`,
   int accumulation in _msg_length (wrap32), unsigned compare of pkt_len with maxlen (maxlen > 0),
   magic/version tested after all five header fields were stored. *)
From Coq Require Import List NArith ZArith Bool.
From Coq.Strings Require Import Byte.
From MV Require Import Bytes.
From MV.gen Require Import GenMsg.
Import ListNotations.
Local Open Scope Z_scope.

(* ---- struct m_msg members ------------------------------------------------------------------- *)
(* numeric members (Nmagic, Nversion are the locals `magic`, `version` of _msg_pack/_msg_unpack) *)
Inductive nfld :=
  | Nmagic | Nversion | Ntype | Nretry | Npkt_len | Ncipher | Nmac | Nzip | Nrealm_len | Nttl | Naddr_len
  | Ntime0 | Ntime1 | Nclient_uid | Nclient_gid | Ncred_uid | Ncred_gid | Nauth_uid | Nauth_gid | Ndata_len
  | Nauth_s_len | Nauth_c_len | Nerror_num | Nerror_len.
(* pointer members (None = NULL; Some l = a block of length l + 1 whose last byte is NUL) and the one
   fixed-size array member, addr (Some l, length l = sizeof_addr) *)
Inductive bfld := Bpkt | Brealm | Baddr | Bdata | Bauth_s | Bauth_c | Berror.

Definition nfld_eqb (a b : nfld) : bool :=
  match a, b with
  | Nmagic, Nmagic | Nversion, Nversion | Ntype, Ntype | Nretry, Nretry | Npkt_len, Npkt_len
  | Ncipher, Ncipher | Nmac, Nmac | Nzip, Nzip | Nrealm_len, Nrealm_len | Nttl, Nttl | Naddr_len, Naddr_len
  | Ntime0, Ntime0 | Ntime1, Ntime1 | Nclient_uid, Nclient_uid | Nclient_gid, Nclient_gid
  | Ncred_uid, Ncred_uid | Ncred_gid, Ncred_gid | Nauth_uid, Nauth_uid | Nauth_gid, Nauth_gid
  | Ndata_len, Ndata_len | Nauth_s_len, Nauth_s_len | Nauth_c_len, Nauth_c_len
  | Nerror_num, Nerror_num | Nerror_len, Nerror_len => true
  | _, _ => false
  end.
Definition bfld_eqb (a b : bfld) : bool :=
  match a, b with
  | Bpkt, Bpkt | Brealm, Brealm | Baddr, Baddr | Bdata, Bdata | Bauth_s, Bauth_s | Bauth_c, Bauth_c
  | Berror, Berror => true
  | _, _ => false
  end.

(* err_local: m_msg_set_err took effect, so error_len / error_str hold a locally generated diagnostic
   text (strdupf), whose wording is not part of the model *)
Record msg := { nv : nfld -> N; bv : bfld -> option bytes; err_local : bool }.

Definition setn (m : msg) (f : nfld) (v : N) : msg :=
  {| nv := fun g => if nfld_eqb g f then v else nv m g; bv := bv m; err_local := err_local m |}.
Definition setb (m : msg) (b : bfld) (v : option bytes) : msg :=
  {| nv := nv m; bv := fun g => if bfld_eqb g b then v else bv m g; err_local := err_local m |}.

(* m_msg_create: calloc; type = MUNGE_MSG_UNDEF; (sd = -1 is not part of the codec) *)
Definition msg0 : msg :=
  {| nv := fun f => match f with Ntype => mt_undef | _ => 0%N end;
     bv := fun b => match b with Baddr => Some (repeat x00 (N.to_nat sizeof_addr)) | _ => None end;
     err_local := false |}.

(* sizeof of the member / local as the code packs it *)
Definition nwidth (f : nfld) : N :=
  match f with
  | Nmagic => w_magic | Nversion => w_version | Ntype => w_type | Nretry => w_retry | Npkt_len => w_pkt_len
  | Ncipher => w_cipher | Nmac => w_mac | Nzip => w_zip | Nrealm_len => w_realm_len | Nttl => w_ttl
  | Naddr_len => w_addr_len | Ntime0 => w_time0 | Ntime1 => w_time1 | Nclient_uid => w_client_uid
  | Nclient_gid => w_client_gid | Ncred_uid => w_cred_uid | Ncred_gid => w_cred_gid
  | Nauth_uid => w_auth_uid | Nauth_gid => w_auth_gid | Ndata_len => w_data_len
  | Nauth_s_len => w_auth_s_len | Nauth_c_len => w_auth_c_len | Nerror_num => w_error_num
  | Nerror_len => w_error_len
  end.

(* ---- field descriptors ------------------------------------------------------------------------ *)
(* Fixed cap lim: destination is a member of cap bytes; lim = largest length the code lets through to the
   copy (a bound check `len > lim => error` in front of _copy; lim = 255 for a uint8 length field means
   "no check") *)
Inductive dest := Heap | Fixed (cap lim : N).
Inductive fdesc := U8 (f : nfld) | U32 (f : nfld) | Var (b : bfld) (lf : nfld) (d : dest).

Inductive mtype := T_HDR | T_ENC_REQ | T_ENC_RSP | T_DEC_REQ | T_DEC_RSP | T_AUTH_FD_REQ.
Definition all_types : list mtype := [T_HDR; T_ENC_REQ; T_ENC_RSP; T_DEC_REQ; T_DEC_RSP; T_AUTH_FD_REQ].

Definition code_of (t : mtype) : N :=
  match t with
  | T_HDR => mt_hdr | T_ENC_REQ => mt_enc_req | T_ENC_RSP => mt_enc_rsp | T_DEC_REQ => mt_dec_req
  | T_DEC_RSP => mt_dec_rsp | T_AUTH_FD_REQ => mt_auth_fd_req
  end.
(* the `switch (type)` of the three functions; anything else is `default:` *)
Definition type_of_code (c : N) : option mtype :=
  if (c =? mt_hdr)%N then Some T_HDR
  else if (c =? mt_enc_req)%N then Some T_ENC_REQ
  else if (c =? mt_enc_rsp)%N then Some T_ENC_RSP
  else if (c =? mt_dec_req)%N then Some T_DEC_REQ
  else if (c =? mt_dec_rsp)%N then Some T_DEC_RSP
  else if (c =? mt_auth_fd_req)%N then Some T_AUTH_FD_REQ
  else None.
Definition is_hdr (t : mtype) : bool := match t with T_HDR => true | _ => false end.

(* _msg_length (m_msg.c:458): the terms of `n += ...`, in source order *)
Definition len_fields (t : mtype) : list fdesc :=
  match t with
  | T_HDR => [U32 Nmagic; U8 Nversion; U8 Ntype; U8 Nretry; U32 Npkt_len]
  | T_ENC_REQ => [U8 Ncipher; U8 Nmac; U8 Nzip; U8 Nrealm_len; Var Brealm Nrealm_len Heap; U32 Nttl;
                  U32 Nauth_uid; U32 Nauth_gid; U32 Ndata_len; Var Bdata Ndata_len Heap]
  | T_ENC_RSP => [U8 Nerror_num; U8 Nerror_len; Var Berror Nerror_len Heap; U32 Ndata_len;
                  Var Bdata Ndata_len Heap]
  | T_DEC_REQ => [U32 Ndata_len; Var Bdata Ndata_len Heap]
  | T_DEC_RSP => [U8 Nerror_num; U8 Nerror_len; Var Berror Nerror_len Heap; U8 Ncipher; U8 Nmac; U8 Nzip;
                  U8 Nrealm_len; Var Brealm Nrealm_len Heap; U32 Nttl; U8 Naddr_len;
                  Var Baddr Naddr_len (Fixed sizeof_addr 255); U32 Ntime0; U32 Ntime1; U32 Ncred_uid;
                  U32 Ncred_gid; U32 Nauth_uid; U32 Nauth_gid; U32 Ndata_len; Var Bdata Ndata_len Heap]
  | T_AUTH_FD_REQ => [U32 Nauth_s_len; Var Bauth_s Nauth_s_len Heap; U32 Nauth_c_len;
                      Var Bauth_c Nauth_c_len Heap]
  end.

(* _msg_pack (m_msg.c:533): the if/else-if chain of each case, in source order.  The copy out of m->addr
   has no bound check in the code (lim = 255). *)
Definition pack_fields (t : mtype) : list fdesc :=
  match t with
  | T_HDR => [U32 Nmagic; U8 Nversion; U8 Ntype; U8 Nretry; U32 Npkt_len]
  | T_ENC_REQ => [U8 Ncipher; U8 Nmac; U8 Nzip; U8 Nrealm_len; Var Brealm Nrealm_len Heap; U32 Nttl;
                  U32 Nauth_uid; U32 Nauth_gid; U32 Ndata_len; Var Bdata Ndata_len Heap]
  | T_ENC_RSP => [U8 Nerror_num; U8 Nerror_len; Var Berror Nerror_len Heap; U32 Ndata_len;
                  Var Bdata Ndata_len Heap]
  | T_DEC_REQ => [U32 Ndata_len; Var Bdata Ndata_len Heap]
  | T_DEC_RSP => [U8 Nerror_num; U8 Nerror_len; Var Berror Nerror_len Heap; U8 Ncipher; U8 Nmac; U8 Nzip;
                  U8 Nrealm_len; Var Brealm Nrealm_len Heap; U32 Nttl; U8 Naddr_len;
                  Var Baddr Naddr_len (Fixed sizeof_addr 255); U32 Ntime0; U32 Ntime1; U32 Ncred_uid;
                  U32 Ncred_gid; U32 Nauth_uid; U32 Nauth_gid; U32 Ndata_len; Var Bdata Ndata_len Heap]
  | T_AUTH_FD_REQ => [U32 Nauth_s_len; Var Bauth_s Nauth_s_len Heap; U32 Nauth_c_len;
                      Var Bauth_c Nauth_c_len Heap]
  end.

(* _msg_unpack (m_msg.c:622): the chain of each case, in source order.  [lim] is the bound on addr_len in
   front of the copy into m->addr: the unchanged code has none (lim = 255, defect D2); the repaired code
   rejects addr_len > sizeof (m->addr).  The repository's value is measured (GenMsg.addr_len_accept_max). *)
Definition unpack_fields_g (lim : N) (t : mtype) : list fdesc :=
  match t with
  | T_HDR => [U32 Nmagic; U8 Nversion; U8 Ntype; U8 Nretry; U32 Npkt_len]
  | T_ENC_REQ => [U8 Ncipher; U8 Nmac; U8 Nzip; U8 Nrealm_len; Var Brealm Nrealm_len Heap; U32 Nttl;
                  U32 Nauth_uid; U32 Nauth_gid; U32 Ndata_len; Var Bdata Ndata_len Heap]
  | T_ENC_RSP => [U8 Nerror_num; U8 Nerror_len; Var Berror Nerror_len Heap; U32 Ndata_len;
                  Var Bdata Ndata_len Heap]
  | T_DEC_REQ => [U32 Ndata_len; Var Bdata Ndata_len Heap]
  | T_DEC_RSP => [U8 Nerror_num; U8 Nerror_len; Var Berror Nerror_len Heap; U8 Ncipher; U8 Nmac; U8 Nzip;
                  U8 Nrealm_len; Var Brealm Nrealm_len Heap; U32 Nttl; U8 Naddr_len;
                  Var Baddr Naddr_len (Fixed sizeof_addr lim); U32 Ntime0; U32 Ntime1; U32 Ncred_uid;
                  U32 Ncred_gid; U32 Nauth_uid; U32 Nauth_gid; U32 Ndata_len; Var Bdata Ndata_len Heap]
  | T_AUTH_FD_REQ => [U32 Nauth_s_len; Var Bauth_s Nauth_s_len Heap; U32 Nauth_c_len;
                      Var Bauth_c Nauth_c_len Heap]
  end.
Definition unpack_fields : mtype -> list fdesc := unpack_fields_g addr_len_accept_max.

(* ---- C integer conversions ---------------------------------------------------------------------- *)
Definition two31 : Z := 2147483648.
Definition two32 : Z := 4294967296.
(* value of a C int after a (modular) conversion from a wider / unsigned value *)
Definition wrap32 (z : Z) : Z := (z + two31) mod two32 - two31.
(* uint8_t / uint32_t member passed as the `int len` parameter of _alloc and _copy *)
Definition to_int (n : N) : Z := wrap32 (Z.of_N n).

(* the size_t that `malloc (len + 1)` of _alloc receives: `len + 1` is evaluated in int (at len = INT_MAX
   this is a signed overflow - undefined in ISO C, wraps to INT_MIN with gcc - and the request becomes
   2^64 - 2^31 bytes, which no allocator grants) *)
Definition two64 : Z := 18446744073709551616.
Definition alloc_req (len : Z) : Z := wrap32 (len + 1) mod two64.

(* ---- _msg_length ---------------------------------------------------------------------------------- *)
Definition fsize (m : msg) (d : fdesc) : Z :=
  match d with U8 _ => 1 | U32 _ => 4 | Var _ lf _ => Z.of_N (nv m lf) end.
Definition sum_sizes (fs : list fdesc) (m : msg) : Z := fold_right (fun d a => fsize m d + a) 0 fs.
(* `int n` accumulates size_t / uint32_t / promoted uint8_t terms; every step wraps, so the end value is
   the wrapped sum *)
Definition msg_length (t : mtype) (m : msg) : Z := wrap32 (sum_sizes (len_fields t) m).

(* ---- _msg_pack --------------------------------------------------------------------------------------- *)
(* PFault: the code would read outside the source object (NULL / short heap block / beyond m->addr) *)
Inductive pres := POk (out : bytes) | PErr | PFault.
Definition papp (s : bytes) (r : pres) : pres := match r with POk o => POk (s ++ o) | e => e end.

Definition content (m : msg) (b : bfld) : bytes := match bv m b with Some l => l | None => [] end.

(* source bytes of a _copy out of the message *)
Definition src_bytes (m : msg) (b : bfld) (d : dest) (len : Z) : option bytes :=
  match bv m b with
  | None => None
  | Some l =>
    if Z.of_nat (length l) <? len then None
    else match d with
         | Heap => Some (firstn (Z.to_nat len) l)
         | Fixed cap _ => if Z.of_N cap <? len then None else Some (firstn (Z.to_nat len) l)
         end
  end.

(* p = dst offset, q = dstlen *)
Fixpoint pack_list (fs : list fdesc) (m : msg) (p q : Z) : pres :=
  match fs with
  | [] => POk []
  | U8 f :: r => if p + 1 >? q then PErr else papp [n2b (nv m f)] (pack_list r m (p + 1) q)
  | U32 f :: r => if p + 4 >? q then PErr else papp (be32 (nv m f)) (pack_list r m (p + 4) q)
  | Var b lf d :: r =>
    let len := to_int (nv m lf) in
    if len <? 0 then PErr                                  (* _copy: len < 0 *)
    else if len =? 0 then pack_list r m p q                (* _copy: len == 0, nothing touched *)
    else if p + len >? q then PErr                         (* _copy: first + len > last *)
    else match src_bytes m b d len with
         | None => PFault
         | Some s => papp s (pack_list r m (p + len) q)
         end
  end.

(* ---- m_msg_send (fresh message: m->pkt == NULL) -------------------------------------------------- *)
(* SFault: pack read outside its source, or fewer bytes were packed than were allocated and sent *)
Inductive sres := SOk (wire : bytes) | SErr (e : N) | SFault.

(* m->pkt_len = n; m->type = type; (magic and version are the packer's locals) *)
Definition stamp (m : msg) (code : N) (n : Z) : msg :=
  setn (setn (setn (setn m Nmagic msg_magic) Nversion msg_version) Ntype code) Npkt_len (Z.to_N n).

Definition send (hp : Z -> bool) (code : N) (m : msg) (maxlen : Z) : sres :=
  match type_of_code code with
  | None => SErr e_snafu                                   (* _msg_length: default => -1 *)
  | Some t =>
    let n := msg_length t m in
    if n <=? 0 then SErr e_snafu
    else if negb (hp n) then SErr e_no_memory              (* malloc (n) *)
    else
      let mh := stamp m code n in       (* set before the body is packed *)
      match pack_list (pack_fields t) mh 0 n with
      | PErr => SErr e_snafu
      | PFault => SFault
      | POk body =>
        if Z.of_nat (length body) <? n then SFault         (* n bytes go out, fewer were written *)
        else if (0 <? maxlen) && (n >? maxlen) then SErr e_bad_length
        else match pack_list (pack_fields T_HDR) mh 0 (Z.of_N msg_hdr_size) with
             | POk h => SOk (h ++ body)
             | PErr => SErr e_snafu
             | PFault => SFault
             end
      end
  end.

(* ---- _msg_unpack --------------------------------------------------------------------------------------- *)
(* memory events: a read of [off, off+len) from a source buffer of cap bytes, a write of [off, off+len)
   into a destination object of cap bytes *)
Inductive ev := Rd (cap off len : Z) | Wr (cap off len : Z).

(* UFault: a write went beyond its destination member; the state after it is not modelled *)
Inductive ures := UOk (m : msg) (p : Z) | UErr (e : N) (m : msg) | UFault (m : msg).
Definition with_ev (e : list ev) (r : ures * list ev) : ures * list ev := (fst r, e ++ snd r).

Definition sub (p len : Z) (body : bytes) : bytes := firstn (Z.to_nat len) (skipn (Z.to_nat p) body).
Definition rd8 (l : bytes) : N := match l with [a] => b2n a | _ => 0%N end.
Definition rd32l (l : bytes) : N := match l with [a; b; c; d] => rd32 a b c d | _ => 0%N end.

(* hp = the allocator's answer for a request of z bytes (environment).  bl = size of the source buffer,
   q = srclen as the C int the caller passed, p = offset of the read pointer. *)
Fixpoint unpack_list (hp : Z -> bool) (fs : list fdesc) (body : bytes) (q p : Z) (m : msg)
  : ures * list ev :=
  let bl := Z.of_nat (length body) in
  match fs with
  | [] => (UOk m p, [])
  | U8 f :: r =>
    if p + 1 >? q then (UErr e_snafu m, [])
    else with_ev [Rd bl p 1; Wr 1 0 1]
           (unpack_list hp r body q (p + 1) (setn m f (rd8 (sub p 1 body))))
  | U32 f :: r =>
    if p + 4 >? q then (UErr e_snafu m, [])
    else with_ev [Rd bl p 4; Wr 4 0 4]
           (unpack_list hp r body q (p + 4) (setn m f (rd32l (sub p 4 body))))
  | Var b lf Heap :: r =>
    let len := to_int (nv m lf) in
    if len =? 0 then unpack_list hp r body q p m           (* _alloc: no-op; _copy: returns 0 *)
    else if len <? 0 then (UErr e_no_memory m, [])         (* _alloc: invalid length => nomem *)
    else if negb (hp (alloc_req len)) then (UErr e_no_memory m, [])   (* malloc (len + 1) *)
    else if p + len >? q then                              (* block stays attached, contents unset *)
      (UErr e_snafu (setb m b (Some [])), [Wr (alloc_req len) len 1])
    else with_ev [Wr (alloc_req len) len 1; Rd bl p len; Wr (alloc_req len) 0 len]
           (unpack_list hp r body q (p + len) (setb m b (Some (sub p len body))))
  | Var b lf (Fixed cap lim) :: r =>
    let len := to_int (nv m lf) in
    if len >? Z.of_N lim then (UErr e_snafu m, [])         (* bound check in front of the copy, if any *)
    else if len <? 0 then (UErr e_snafu m, [])
    else if len =? 0 then unpack_list hp r body q p m
    else if p + len >? q then (UErr e_snafu m, [])
    else if len >? Z.of_N cap then (UFault m, [Rd bl p len; Wr (Z.of_N cap) 0 len])
    else with_ev [Rd bl p len; Wr (Z.of_N cap) 0 len]
           (unpack_list hp r body q (p + len)
              (setb m b (Some (sub p len body ++ skipn (Z.to_nat len) (content m b)))))
  end.

(* m_msg_set_err: only the first error sticks *)
Definition set_err (m : msg) (e : N) : msg :=
  if (nv m Nerror_num =? 0)%N && negb (e =? 0)%N then
    let m' := setb (setn m Nerror_num e) Berror (Some []) in
    {| nv := nv m'; bv := bv m'; err_local := true |}
  else m.

Definition msg_unpack_g (lim : N) (hp : Z -> bool) (code : N) (body : bytes) (q : Z) (m : msg)
  : ures * list ev :=
  match type_of_code code with
  | None => (UErr e_snafu (set_err m e_snafu), [])         (* default: goto err *)
  | Some t =>
    let r := unpack_list hp (unpack_fields_g lim t) body q 0 m in
    match fst r with
    | UOk m' p =>
      if is_hdr t && negb (nv m' Nmagic =? msg_magic)%N then (UErr e_socket (set_err m' e_socket), snd r)
      else if is_hdr t && negb (nv m' Nversion =? msg_version)%N
           then (UErr e_socket (set_err m' e_socket), snd r)
      else (UOk m' p, snd r)
    | UErr e m' => (UErr e (set_err m' e), snd r)
    | UFault m' => (UFault m', snd r)
    end
  end.

(* ---- m_msg_recv ------------------------------------------------------------------------------------------ *)
(* stream = the bytes that arrive on the socket before EOF (time-outs and I/O errors are environment) *)
Inductive rres := ROk (m : msg) | RErr (e : N) (m : msg) | RFault (m : msg).

Definition recv_g (lim : N) (hp : Z -> bool) (stream : bytes) (exptype : N) (maxlen : Z) (m : msg)
  : rres * list ev :=
  let hs := Z.of_N msg_hdr_size in
  if Z.of_nat (length stream) <? hs then (RErr e_socket (set_err m e_socket), [])
  else
    let hdr := firstn (Z.to_nat hs) stream in
    let rest := skipn (Z.to_nat hs) stream in
    let r1 := msg_unpack_g lim hp mt_hdr hdr hs m in
    match fst r1 with
    | UErr _ m1 => (RErr e_socket (set_err m1 e_socket), snd r1)
    | UFault m1 => (RFault m1, snd r1)
    | UOk m1 _ =>
      let ty := nv m1 Ntype in
      let plen := Z.of_N (nv m1 Npkt_len) in
      if negb (exptype =? mt_undef)%N && negb (ty =? exptype)%N
      then (RErr e_socket (set_err m1 e_socket), snd r1)
      else if (0 <? maxlen) && (plen >? maxlen) then (RErr e_bad_length (set_err m1 e_socket), snd r1)
      else if negb (hp plen) then (RErr e_no_memory (set_err m1 e_no_memory), snd r1)
      else
        let m2 := setb m1 Bpkt (Some []) in
        if Z.of_nat (length rest) <? plen then (RErr e_socket (set_err m2 e_socket), snd r1)
        else
          let body := firstn (Z.to_nat plen) rest in
          let r2 := msg_unpack_g lim hp ty body (to_int (nv m1 Npkt_len)) m2 in
          match fst r2 with
          | UOk m3 _ => (ROk (setn (setb m3 Bpkt None) Npkt_len 0%N), snd r1 ++ snd r2)
          | UErr _ m3 => (RErr e_socket (set_err m3 e_socket), snd r1 ++ snd r2)
          | UFault m3 => (RFault m3, snd r1 ++ snd r2)
          end
    end.

(* the repository's codec: bound on addr_len as measured on the current source *)
Definition msg_unpack := msg_unpack_g addr_len_accept_max.
Definition recv := recv_g addr_len_accept_max.

(* ---- job.c _job_exec: what the daemon does with a connection ---------------------------------------- *)
(* JEnc / JDec: the request is handed to enc_process_msg / dec_process_msg, which always answer with
   m_msg_send (m, ENC_RSP / DEC_RSP, 0); JClose: no reply, m_msg_destroy closes the socket *)
Inductive job := JEnc (m : msg) | JDec (m : msg) | JClose (m : msg) | JFault.

Definition job_exec_g (lim : N) (hp : Z -> bool) (stream : bytes) : job :=
  match fst (recv_g lim hp stream mt_undef (Z.of_N max_req_len) msg0) with
  | ROk m => if (nv m Ntype =? mt_enc_req)%N then JEnc m
             else if (nv m Ntype =? mt_dec_req)%N then JDec m
             else JClose (set_err m e_snafu)
  | RErr _ m => JClose m
  | RFault _ => JFault
  end.
Definition job_exec := job_exec_g addr_len_accept_max.

(* libmunge: m_msg_client_xfer receives with the expected response type and maxlen = 0 *)
Definition client_recv_g (lim : N) (hp : Z -> bool) (stream : bytes) (rsp : mtype) : rres * list ev :=
  recv_g lim hp stream (code_of rsp) 0 msg0.

(* ---- what a round trip must give -------------------------------------------------------------------- *)
(* the fields carried by the list, taken from m, laid over acc (zero-length variable fields leave the
   destination pointer alone; a fixed destination keeps its bytes beyond len) *)
Fixpoint merge_list (fs : list fdesc) (m acc : msg) : msg :=
  match fs with
  | [] => acc
  | U8 f :: r => merge_list r m (setn acc f (nv m f))
  | U32 f :: r => merge_list r m (setn acc f (nv m f))
  | Var b lf Heap :: r =>
    if (nv m lf =? 0)%N then merge_list r m acc
    else merge_list r m (setb acc b (Some (firstn (N.to_nat (nv m lf)) (content m b))))
  | Var b lf (Fixed _ _) :: r =>
    if (nv m lf =? 0)%N then merge_list r m acc
    else merge_list r m (setb acc b (Some (firstn (N.to_nat (nv m lf)) (content m b)
                                           ++ skipn (N.to_nat (nv m lf)) (content acc b))))
  end.
Definition restrict (t : mtype) (m acc : msg) : msg := merge_list (pack_fields t) m acc.

(* what m_msg_recv leaves in acc after receiving the wire form of m (type t, body of n bytes) *)
Definition recv_expect (t : mtype) (m acc : msg) (n : Z) : msg :=
  let a1 := restrict T_HDR (stamp m (code_of t) n) acc in
  let a3 := restrict t m (setb a1 Bpkt (Some [])) in
  setn (setb a3 Bpkt None) Npkt_len 0%N.

(* does the list carry the member? *)
Definition carries_n (fs : list fdesc) (f : nfld) : bool :=
  existsb (fun d => match d with U8 g | U32 g => nfld_eqb g f | Var _ _ _ => false end) fs.
Definition carries_b (fs : list fdesc) (b : bfld) : bool :=
  existsb (fun d => match d with Var c _ _ => bfld_eqb c b | _ => false end) fs.

(* ---- computed checks on the three tables --------------------------------------------------------- *)
(* same member, same order, same width / length field / destination kind and capacity *)
Definition erase (d : fdesc) : fdesc :=
  match d with Var b lf (Fixed cap _) => Var b lf (Fixed cap 0) | x => x end.
Definition dest_eqb (a b : dest) : bool :=
  match a, b with
  | Heap, Heap => true
  | Fixed c l, Fixed c' l' => (c =? c')%N && (l =? l')%N
  | _, _ => false
  end.
Definition fdesc_eqb (a b : fdesc) : bool :=
  match a, b with
  | U8 f, U8 g | U32 f, U32 g => nfld_eqb f g
  | Var b lf d, Var b' lf' d' => bfld_eqb b b' && nfld_eqb lf lf' && dest_eqb d d'
  | _, _ => false
  end.
Fixpoint list_eqb (a b : list fdesc) : bool :=
  match a, b with
  | [], [] => true
  | x :: r, y :: s => fdesc_eqb x y && list_eqb r s
  | _, _ => false
  end.
Definition lists_agree (lim : N) : bool :=
  forallb (fun t => list_eqb (map erase (pack_fields t)) (map erase (unpack_fields_g lim t))
                    && list_eqb (map erase (pack_fields t)) (map erase (len_fields t))) all_types.

(* U8 / U32 match the sizeof of the member in the current source *)
Definition widths_ok (fs : list fdesc) : bool :=
  forallb (fun d => match d with U8 f => (nwidth f =? 1)%N | U32 f => (nwidth f =? 4)%N
                               | Var _ _ _ => true end) fs.
(* every variable field is preceded by its length field; no member twice *)
Fixpoint order_ok (seen : list nfld) (seenb : list bfld) (fs : list fdesc) : bool :=
  match fs with
  | [] => true
  | U8 f :: r | U32 f :: r => negb (existsb (nfld_eqb f) seen) && order_ok (f :: seen) seenb r
  | Var b lf _ :: r => existsb (nfld_eqb lf) seen && negb (existsb (bfld_eqb b) seenb)
                       && order_ok seen (b :: seenb) r
  end.
(* every fixed-size destination is protected: nothing longer than the member reaches the copy *)
Definition fixed_guarded (fs : list fdesc) : bool :=
  forallb (fun d => match d with Var _ _ (Fixed cap lim) => (lim <=? cap)%N | _ => true end) fs.
Definition all_guarded (lim : N) : bool := forallb (fun t => fixed_guarded (unpack_fields_g lim t)) all_types.
