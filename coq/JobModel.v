(* JobModel.v — the acceptor of munged: src/munged/job.c, job_accept ().

   The function is represented as a small program (deep embedding: [cond],
   [stmt], [prog]) that tools/facts/job.py TRANSLATES FROM THE TEXT of job.c on
   every run (gen/GenJob.v, [src_job]); [job_ref] below is the program the
   theorems of JobProofs.v are about, and Properties_C12.v states
   [src_job = job_ref].

   The program is run against an adversarial environment:
     * [calls]  one [answer] per call the acceptor makes (accept, time, log_msg,
                work_wait, work_queue, close, fd_set_nonblocking, m_msg_create,
                m_msg_bind, m_msg_destroy, gids_update, work_init, work_fini), in
                the order of the calls: the value returned and the signals whose
                handler runs while the acceptor is inside that call.  When the
                list is exhausted the call never returns ([KStuck]).
     * [reads]  signals whose handler runs immediately before the n-th access
                to got_terminate / got_reconfig.  A statement that is neither
                a call nor a flag access neither sees nor changes the flags, so
                delivery "between any two statements" is delivery before the next
                call or flag access: the two streams cover every delivery point.
   and emits the sequence of its calls plus the signal deliveries ([event]).
   No proofs here.                                                            *)
From Coq Require Import List ZArith Bool.
Import ListNotations.
Local Open Scope Z_scope.

(* ---- vocabulary ---------------------------------------------------------- *)
Inductive errno := E0 | EINTR | ECONNABORTED | EMFILE | ENFILE | ENOBUFS | ENOMEM
                 | EAGAIN | EBADF | EINVAL | EPERM | ENOTSOCK | EPROTO.

(* position in the script vocabulary (harness/job_harness.c maps it to the platform's value) *)
Definition errno_code (e : errno) : Z :=
  match e with E0 => 0 | EINTR => 1 | ECONNABORTED => 2 | EMFILE => 3 | ENFILE => 4 | ENOBUFS => 5
             | ENOMEM => 6 | EAGAIN => 7 | EBADF => 8 | EINVAL => 9 | EPERM => 10 | ENOTSOCK => 11 | EPROTO => 12 end.
Definition errno_of_code (z : Z) : errno :=
  match z with 1 => EINTR | 2 => ECONNABORTED | 3 => EMFILE | 4 => ENFILE | 5 => ENOBUFS | 6 => ENOMEM
             | 7 => EAGAIN | 8 => EBADF | 10 => EPERM | 11 => ENOTSOCK | 12 => EPROTO | _ => EINVAL end.
Definition errno_eqb (a b : errno) : bool := errno_code a =? errno_code b.

Inductive sig := SIGHUP | SIGINT | SIGTERM.
Definition signo (s : sig) : Z := match s with SIGHUP => 1 | SIGINT => 2 | SIGTERM => 15 end.

Inductive prio := PErr | PWarning | PNotice | PInfo | PDebug.
Inductive logtag := TCreated | TReconfig | TAcceptFail | TNonblock | TCreate | TBind | TQueue | TExiting | TOther.
Inductive fataltag := FInit | FTime | FAccept | FOther.

Inductive event :=
| EInit (ok : bool)                       (* work_init *)
| EAcceptConn (fd : Z)                    (* accept () returned a connection *)
| EAcceptErr (e : errno)                  (* accept () = -1, errno = e *)
| ETime (t : Z)                           (* time (NULL) = t *)
| ELog (p : prio) (t : logtag) (arg : Z)  (* log_msg; arg: errno position / signal number / 0 *)
| EWait                                   (* work_wait *)
| EQueue (fd : Z) (ok : bool)             (* work_queue of the request bound to fd *)
| EClose (fd : Z)                         (* close *)
| ENonblock (fd : Z) (ok : bool)          (* fd_set_nonblocking *)
| ECreate (ok : bool)                     (* m_msg_create *)
| EBind (fd : Z) (ok : bool)              (* m_msg_bind *)
| EDestroy (fd : Z)                       (* m_msg_destroy of a request bound to fd (-1: unbound, -2: no request) *)
| EGids                                   (* gids_update *)
| EFatal (t : fataltag)                   (* log_errno: the process exits *)
| EFini (dowait : bool)                   (* work_fini *)
| ESig (s : sig).                         (* the handler of s ran *)

(* ---- the program --------------------------------------------------------- *)
Inductive cond :=
| CTerm                  (* got_terminate *)
| CReconf                (* got_reconfig *)
| CSdNeg                 (* sd < 0 *)
| CSdNonneg              (* sd >= 0 *)
| CErrnoIn (l : list errno)   (* errno is one of the case labels *)
| CTimeFailed            (* curr_time == (time_t) -1 *)
| CTimeAfter (lim : Z)   (* curr_time > last_log_time + lim *)
| CErrnoChanged          (* curr_errno != last_log_errno *)
| CInitFails             (* !(w = work_init (...)) *)
| CNonblockFails         (* fd_set_nonblocking (sd) < 0 *)
| CCreateFails           (* m_msg_create (&m) != EMUNGE_SUCCESS *)
| CBindFails             (* m_msg_bind (m, sd) != EMUNGE_SUCCESS *)
| CQueueFails            (* work_queue (w, m) < 0 *)
| CNot (c : cond)
| CAnd (a b : cond)
| COr (a b : cond).

Inductive stmt :=
| SSkip
| SSeq (a b : stmt)
| SIf (c : cond) (a b : stmt)
| SLog (p : prio) (t : logtag)
| SFatal (t : fataltag)
| SClearReconf           (* got_reconfig = 0 *)
| SGids                  (* gids_update (conf->gids) *)
| SAccept                (* sd = accept (conf->ld, NULL, NULL) *)
| SSaveErrno             (* curr_errno = errno *)
| STime                  (* curr_time = time (NULL) *)
| SSetLastErrno          (* last_log_errno = curr_errno *)
| SSetLastTime           (* last_log_time = curr_time *)
| SWait                  (* work_wait (w) *)
| SClose                 (* close (sd) *)
| SDestroy               (* m_msg_destroy (m) *)
| SFini (dowait : bool)  (* work_fini (w, dowait) *)
| SContinue | SBreak | SReturn.

(* pre; while (cnd) { body }; post *)
Record prog := mkprog { p_pre : stmt; p_cond : cond; p_body : stmt; p_post : stmt }.

Fixpoint seq (l : list stmt) : stmt := match l with [] => SSkip | s :: r => SSeq s (seq r) end.

(* ---- state ---------------------------------------------------------------- *)
Record vars := mkv {
  g_term : Z; g_reconf : Z;               (* the two sig_atomic_t flags: 0 or the signal number *)
  v_sd : Z; v_errno : errno; v_cerrno : errno; v_ctime : Z; v_lerrno : errno; v_ltime : Z;
  v_msg : option Z;                       (* the request m: None = none, Some fd = bound to fd (-1 unbound) *)
  v_nextfd : Z }.

Record answer := mka { a_ret : Z; a_sigs : list sig }.

Record st := mks { vs : vars; calls : list answer; reads : nat -> list sig; rdx : nat; trace : list event }.

Definition set_term z v := mkv z (g_reconf v) (v_sd v) (v_errno v) (v_cerrno v) (v_ctime v) (v_lerrno v) (v_ltime v) (v_msg v) (v_nextfd v).
Definition set_reconf z v := mkv (g_term v) z (v_sd v) (v_errno v) (v_cerrno v) (v_ctime v) (v_lerrno v) (v_ltime v) (v_msg v) (v_nextfd v).
Definition set_sd z v := mkv (g_term v) (g_reconf v) z (v_errno v) (v_cerrno v) (v_ctime v) (v_lerrno v) (v_ltime v) (v_msg v) (v_nextfd v).
Definition set_errno e v := mkv (g_term v) (g_reconf v) (v_sd v) e (v_cerrno v) (v_ctime v) (v_lerrno v) (v_ltime v) (v_msg v) (v_nextfd v).
Definition set_cerrno e v := mkv (g_term v) (g_reconf v) (v_sd v) (v_errno v) e (v_ctime v) (v_lerrno v) (v_ltime v) (v_msg v) (v_nextfd v).
Definition set_ctime z v := mkv (g_term v) (g_reconf v) (v_sd v) (v_errno v) (v_cerrno v) z (v_lerrno v) (v_ltime v) (v_msg v) (v_nextfd v).
Definition set_lerrno e v := mkv (g_term v) (g_reconf v) (v_sd v) (v_errno v) (v_cerrno v) (v_ctime v) e (v_ltime v) (v_msg v) (v_nextfd v).
Definition set_ltime z v := mkv (g_term v) (g_reconf v) (v_sd v) (v_errno v) (v_cerrno v) (v_ctime v) (v_lerrno v) z (v_msg v) (v_nextfd v).
Definition set_msg m v := mkv (g_term v) (g_reconf v) (v_sd v) (v_errno v) (v_cerrno v) (v_ctime v) (v_lerrno v) (v_ltime v) m (v_nextfd v).
Definition set_nextfd z v := mkv (g_term v) (g_reconf v) (v_sd v) (v_errno v) (v_cerrno v) (v_ctime v) (v_lerrno v) (v_ltime v) (v_msg v) z.

Definition with_vars (f : vars -> vars) (x : st) : st := mks (f (vs x)) (calls x) (reads x) (rdx x) (trace x).

(* first descriptor accept () hands out; errno value left behind by time () *)
Definition first_fd : Z := 100.
Definition clobber : errno := EAGAIN.

Definition init_vars : vars := mkv 0 0 (-1) E0 E0 0 E0 0 None first_fd.
Definition init (cs : list answer) (rs : nat -> list sig) : st := mks init_vars cs rs 0%nat [].
Definition no_reads : nat -> list sig := fun _ => [].

(* ---- signals --------------------------------------------------------------- *)
(* munged.c, sig_handler: SIGHUP -> got_reconfig = sig; SIGINT/SIGTERM -> got_terminate = sig
   (translated from munged.c's text into GenJob.src_handler; Properties_C12_job.v: src_handler = handler) *)
Inductive sigflag := FTerm | FReconf | FNone.
Definition handler (s : sig) : sigflag := match s with SIGHUP => FReconf | SIGINT | SIGTERM => FTerm end.
Definition deliver1 (x : st) (s : sig) : st :=
  mks (match handler s with
       | FReconf => set_reconf (signo s) (vs x)
       | FTerm => set_term (signo s) (vs x)
       | FNone => vs x end)
      (calls x) (reads x) (rdx x) (ESig s :: trace x).
Definition deliver (l : list sig) (x : st) : st := fold_left deliver1 l x.

(* an access to one of the flags: the handlers scheduled before it run first *)
Definition sync (x : st) : st :=
  deliver (reads x (rdx x)) (mks (vs x) (calls x) (reads x) (S (rdx x)) (trace x)).

(* a call: the next answer; the event is logged, the variables updated, then the
   handlers of the signals that arrive during the call run *)
Definition call (ev : Z -> vars -> event) (upd : Z -> vars -> vars) (x : st) : option (Z * st) :=
  match calls x with
  | [] => None
  | a :: r => Some (a_ret a, deliver (a_sigs a) (mks (upd (a_ret a) (vs x)) r (reads x) (rdx x) (ev (a_ret a) (vs x) :: trace x)))
  end.

Definition keep (_ : Z) (v : vars) : vars := v.
Definition msgfd (v : vars) : Z := match v_msg v with Some fd => fd | None => -2 end.

(* ---- conditions ------------------------------------------------------------ *)
Fixpoint eval_cond (c : cond) (x : st) : option bool * st :=
  match c with
  | CTerm => let x := sync x in (Some (negb (g_term (vs x) =? 0)), x)
  | CReconf => let x := sync x in (Some (negb (g_reconf (vs x) =? 0)), x)
  | CSdNeg => (Some (v_sd (vs x) <? 0), x)
  | CSdNonneg => (Some (0 <=? v_sd (vs x)), x)
  | CErrnoIn l => (Some (existsb (errno_eqb (v_errno (vs x))) l), x)
  | CTimeFailed => (Some (v_ctime (vs x) =? -1), x)
  | CTimeAfter lim => (Some (v_ltime (vs x) + lim <? v_ctime (vs x)), x)
  | CErrnoChanged => (Some (negb (errno_eqb (v_cerrno (vs x)) (v_lerrno (vs x)))), x)
  | CInitFails =>
      match call (fun r _ => EInit (r =? 0)) keep x with
      | None => (None, x) | Some (r, x') => (Some (negb (r =? 0)), x') end
  | CNonblockFails =>
      match call (fun r v => ENonblock (v_sd v) (r =? 0)) keep x with
      | None => (None, x) | Some (r, x') => (Some (negb (r =? 0)), x') end
  | CCreateFails =>
      match call (fun r _ => ECreate (r =? 0)) (fun r v => if r =? 0 then set_msg (Some (-1)) v else v) x with
      | None => (None, x) | Some (r, x') => (Some (negb (r =? 0)), x') end
  | CBindFails =>
      match call (fun r v => EBind (v_sd v) (r =? 0))
                 (fun r v => if r =? 0 then match v_msg v with Some _ => set_msg (Some (v_sd v)) v | None => v end else v) x with
      | None => (None, x) | Some (r, x') => (Some (negb (r =? 0)), x') end
  | CQueueFails =>
      match call (fun r v => EQueue (msgfd v) (r =? 0)) (fun r v => if r =? 0 then set_msg None v else v) x with
      | None => (None, x) | Some (r, x') => (Some (negb (r =? 0)), x') end
  | CNot c => match eval_cond c x with (Some b, x') => (Some (negb b), x') | r => r end
  | CAnd a b => match eval_cond a x with (Some true, x') => eval_cond b x' | r => r end
  | COr a b => match eval_cond a x with (Some false, x') => eval_cond b x' | r => r end
  end.

(* ---- statements ------------------------------------------------------------ *)
Inductive ctl := KNormal | KContinue | KBreak | KReturn | KFatal | KStuck | KSpin.

Definition void_call (ev : vars -> event) (upd : vars -> vars) (x : st) : ctl * st :=
  match call (fun _ v => ev v) (fun _ v => upd v) x with None => (KStuck, x) | Some (_, x') => (KNormal, x') end.

(* the argument of the message: read when the call is made *)
Definition log_arg (t : logtag) (v : vars) : Z :=
  match t with TAcceptFail => errno_code (v_cerrno v) | TReconfig => g_reconf v | TExiting => g_term v | _ => 0 end.
Definition reads_flag (t : logtag) : bool := match t with TReconfig | TExiting => true | _ => false end.

Fixpoint exec (s : stmt) (x : st) : ctl * st :=
  match s with
  | SSkip => (KNormal, x)
  | SSeq a b => match exec a x with (KNormal, x') => exec b x' | r => r end
  | SIf c a b => match eval_cond c x with
                 | (None, x') => (KStuck, x')
                 | (Some true, x') => exec a x'
                 | (Some false, x') => exec b x' end
  | SLog p t => let x := if reads_flag t then sync x else x in
                void_call (fun v => ELog p t (log_arg t v)) (fun v => v) x
  | SFatal t => (KFatal, mks (vs x) (calls x) (reads x) (rdx x) (EFatal t :: trace x))
  | SClearReconf => (KNormal, with_vars (set_reconf 0) (sync x))
  | SGids => void_call (fun _ => EGids) (fun v => v) x
  | SAccept =>
      match call (fun r v => if r =? 0 then EAcceptConn (v_nextfd v) else EAcceptErr (errno_of_code r))
                 (fun r v => if r =? 0 then set_nextfd (v_nextfd v + 1) (set_sd (v_nextfd v) v)
                             else set_errno (errno_of_code r) (set_sd (-1) v)) x with
      | None => (KStuck, x) | Some (_, x') => (KNormal, x') end
  | SSaveErrno => (KNormal, with_vars (fun v => set_cerrno (v_errno v) v) x)
  | STime =>
      match call (fun r _ => ETime r) (fun r v => set_errno clobber (set_ctime r v)) x with
      | None => (KStuck, x) | Some (_, x') => (KNormal, x') end
  | SSetLastErrno => (KNormal, with_vars (fun v => set_lerrno (v_cerrno v) v) x)
  | SSetLastTime => (KNormal, with_vars (fun v => set_ltime (v_ctime v) v) x)
  | SWait => void_call (fun _ => EWait) (fun v => v) x
  | SClose => void_call (fun v => EClose (v_sd v)) (fun v => v) x
  | SDestroy => void_call (fun v => EDestroy (msgfd v)) (set_msg None) x
  | SFini d => void_call (fun _ => EFini d) (fun v => v) x
  | SContinue => (KContinue, x)
  | SBreak => (KBreak, x)
  | SReturn => (KReturn, x)
  end.

(* while (c) body: an iteration that goes round without having made a call is a busy loop *)
Fixpoint loop (fuel : nat) (c : cond) (body : stmt) (x : st) : ctl * st :=
  match fuel with
  | O => (KSpin, x)
  | S f =>
      match eval_cond c x with
      | (None, x') => (KStuck, x')
      | (Some false, x') => (KNormal, x')
      | (Some true, x') =>
          match exec body x' with
          | (KNormal, x'') | (KContinue, x'') =>
              if (length (calls x'') <? length (calls x))%nat then loop f c body x'' else (KSpin, x'')
          | (KBreak, x'') => (KNormal, x'')
          | r => r
          end
      end
  end.

Definition run_from (p : prog) (x : st) : ctl * st :=
  match exec (p_pre p) x with
  | (KNormal, x1) =>
      match loop (S (length (calls x1))) (p_cond p) (p_body p) x1 with
      | (KNormal, x2) => exec (p_post p) x2
      | r => r
      end
  | r => r
  end.

(* the run: how it ended and what was called, in order ([isigs]: signals delivered before job_accept is entered) *)
Definition run (p : prog) (isigs : list sig) (cs : list answer) (rs : nat -> list sig) : ctl * list event :=
  let (k, x) := run_from p (deliver isigs (init cs rs)) in (k, rev (trace x)).

(* the function returned or the process exited (as opposed to: blocked in a call for ever, busy loop) *)
Definition ended (k : ctl) : bool := match k with KStuck | KSpin => false | _ => true end.

(* ---- job_accept as it is in job.c, for any value of LOG_LIMIT_SECS ---------------- *)
Definition log_limit_secs : Z := 60.

Definition job_prog (lim : Z) : prog := mkprog
  (seq [SIf (CInitFails) (seq [SFatal FInit]) (seq []);
        SLog PInfo TCreated])
  (CNot CTerm)
  (seq [SIf CReconf (seq [SLog PNotice TReconfig; SClearReconf; SGids]) (seq []);
        SAccept;
        SIf CSdNeg
          (seq [SIf (CErrnoIn [ECONNABORTED; EINTR]) (seq [SContinue])
               (seq [SIf (CErrnoIn [EMFILE; ENFILE; ENOBUFS; ENOMEM])
                  (seq [SSaveErrno; STime;
                        SIf CTimeFailed (seq [SFatal FTime]) (seq []);
                        SIf (COr (CTimeAfter lim) CErrnoChanged)
                            (seq [SLog PInfo TAcceptFail; SSetLastErrno; SSetLastTime]) (seq []);
                        SWait; SContinue])
                  (seq [SFatal FAccept])])])
          (seq []);
        SIf CNonblockFails (seq [SClose; SLog PWarning TNonblock])
       (seq [SIf CCreateFails (seq [SClose; SLog PWarning TCreate])
       (seq [SIf CBindFails (seq [SDestroy; SLog PWarning TBind])
       (seq [SIf CQueueFails (seq [SDestroy; SLog PWarning TQueue]) (seq [])])])])])
  (seq [SLog PNotice TExiting; SFini true; SReturn]).

(* with the value LOG_LIMIT_SECS has in job.c today *)
Definition job_ref : prog := job_prog log_limit_secs.

(* ---- the clauses of C12 that concern the acceptor, as monitors over the call log ---- *)
(* The monitors read a log in chronological order.  None = the clause is violated. *)

(* (A) hand-off: a connection returned by accept () is handed to work_queue exactly once;
   the acceptor closes it (close, or m_msg_destroy of the request bound to it) only after
   one of the steps towards queueing it failed; it does not go back to accept (), leave the
   loop or exit with the connection neither queued nor failed. *)
Inductive hstate := HIdle | HConn (fd : Z) | HFailed (fd : Z) | HQueued (fd : Z).

Definition hstep (h : hstate) (e : event) : option hstate :=
  match e with
  | EAcceptConn fd => match h with HConn _ => None | _ => Some (HConn fd) end
  | EAcceptErr _ => match h with HConn _ => None | _ => Some HIdle end
  | ENonblock _ ok | ECreate ok | EBind _ ok =>
      match h with HConn f => Some (if ok then HConn f else HFailed f) | _ => Some h end
  | EQueue fd ok =>
      match h with
      | HConn f => if fd =? f then Some (if ok then HQueued f else HFailed f) else None
      | _ => None end
  | EClose fd | EDestroy fd =>
      match h with
      | HConn f | HQueued f => if fd =? f then None else Some h
      | _ => Some h end
  | EFini _ | EFatal _ => match h with HConn _ => None | _ => Some h end
  | _ => Some h
  end.

(* (B) backlog: after accept () failed for lack of descriptors or memory the acceptor calls
   work_wait before it calls accept () again (no busy loop), and it does not give up
   (log_errno) on a transient failure: EINTR, ECONNABORTED and the shortage errors; the one
   exit allowed is a failing time (). *)
Definition shortage (e : errno) : bool := match e with EMFILE | ENFILE | ENOBUFS | ENOMEM => true | _ => false end.
Definition retryable (e : errno) : bool := match e with EINTR | ECONNABORTED => true | _ => false end.

Inductive bstate := BOk | BRetry | BNeed | BWaited.

Definition bstep (b : bstate) (e : event) : option bstate :=
  match e with
  | EAcceptConn _ => match b with BNeed => None | _ => Some BOk end
  | EAcceptErr e => match b with
                    | BNeed => None
                    | _ => Some (if shortage e then BNeed else if retryable e then BRetry else BOk) end
  | EWait => match b with BNeed => Some BWaited | _ => Some b end
  | EFatal t => match b with
                | BOk => Some b
                | BNeed => match t with FTime => Some b | _ => None end
                | _ => None end
  | _ => Some b
  end.

(* (D) stop: work_fini is called only after SIGINT/SIGTERM was delivered, once, with
   do_wait = 1, and nothing is called after it; once the signal has been delivered accept ()
   is called at most one more time (the call the acceptor was about to make: F-C12-accept). *)
Inductive dstate := D0 | D1 | D2 | DF.

Definition dstep (d : dstate) (e : event) : option dstate :=
  match e with
  | ESig SIGHUP => Some d
  | ESig _ => Some (match d with D0 => D1 | _ => d end)
  | EAcceptConn _ | EAcceptErr _ =>
      match d with D0 => Some D0 | D1 => Some D2 | _ => None end
  | EFini w => match d with D1 | D2 => if w then Some DF else None | _ => None end
  | _ => match d with DF => None | _ => Some d end
  end.

(* (E) SIGHUP: after SIGHUP is delivered gids_update is called before the second
   following call of accept (). *)
Definition estep (p : option nat) (e : event) : option (option nat) :=
  match e with
  | ESig SIGHUP => Some (match p with None => Some O | _ => p end)
  | EGids => Some None
  | EAcceptConn _ | EAcceptErr _ =>
      match p with None => Some None | Some O => Some (Some 1%nat) | Some _ => None end
  | _ => Some p
  end.

(* (P) progress: the acceptor does not keep making calls without blocking where it is meant to wait
   (accept, work_wait, work_fini): at most [progress_bound] other calls in a row (the longest stretch of the
   unchanged code is 8: a failed work_queue and its clean-up, then the service of a SIGHUP). *)
Definition progress_bound : nat := 8.
Definition pstep (n : nat) (e : event) : option nat :=
  match e with
  | ESig _ => Some n
  | EAcceptConn _ | EAcceptErr _ | EWait | EFini _ => Some O
  | _ => if (n <? progress_bound)%nat then Some (S n) else None
  end.

Section Monitor.
Variable M : Type.
Variable step : M -> event -> option M.
(* over a log in reverse chronological order (as [trace] keeps it) *)
Fixpoint mon_rev (s0 : M) (t : list event) : option M :=
  match t with
  | [] => Some s0
  | e :: r => match mon_rev s0 r with Some s => step s e | None => None end
  end.
(* over a log in chronological order *)
Fixpoint mon (s : M) (l : list event) : option M :=
  match l with [] => Some s | e :: r => match step s e with Some s' => mon s' r | None => None end end.
End Monitor.
Arguments mon {M} step s l.
Arguments mon_rev {M} step s0 t.

Definition isSome {A} (o : option A) : bool := match o with Some _ => true | None => false end.

(* at the end of the log: a run that ended must not leave a connection neither queued nor failed *)
Definition handoff_ok (l : list event) (k : ctl) : bool :=
  match mon hstep HIdle l with
  | Some (HConn _) => negb (ended k)
  | Some _ => true
  | None => false end.
Definition backlog_ok (l : list event) (k : ctl) : bool :=
  isSome (mon bstep BOk l) && match k with KSpin => false | _ => true end.
Definition stop_ok (l : list event) (k : ctl) : bool :=
  match mon dstep D0 l with
  | Some DF => match k with KReturn | KNormal => true | _ => false end
  | Some _ => match k with KReturn | KNormal => false | _ => true end     (* returning without work_fini *)
  | None => false end.
Definition sighup_ok (l : list event) : bool := isSome (mon estep None l).

Definition progress_ok (l : list event) : bool := isSome (mon pstep O l).

Definition clauses (l : list event) (k : ctl) : bool * bool * bool * bool * bool :=
  (handoff_ok l k, backlog_ok l k, stop_ok l k, sighup_ok l, progress_ok l).
