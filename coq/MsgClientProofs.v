(* MsgClientProofs.v — lemmas and proofs about MsgClientModel (property C14, the libmunge side). *)
From Coq Require Import List NArith ZArith Bool Lia ZifyBool ZifyNat ZifyN.
From Coq.Strings Require Import Byte.
From MV Require Import Bytes MsgModel MsgProofs MsgClientModel.
From MV.gen Require Import GenMsg GenMsgClient.
Import ListNotations.
Local Open Scope Z_scope.
Ltac Zify.zify_post_hook ::= Z.div_mod_to_equations.

(* ================================================================================================== *)
(*  1. a successful unpack is the inverse of pack: the members it leaves re-encode to the bytes consumed  *)
(* ================================================================================================== *)
Lemma firstn_plus {A} (a b : nat) (l : list A) : firstn (a + b) l = firstn a l ++ firstn b (skipn a l).
Proof. revert l. induction a as [|a IH]; intros [|x l]; cbn; try reflexivity; [now rewrite firstn_nil|]. f_equal. apply IH. Qed.
Lemma skipn_plus {A} (a b : nat) (l : list A) : skipn (a + b) l = skipn b (skipn a l).
Proof. revert l. induction a as [|a IH]; intros [|x l]; cbn; try reflexivity; [now rewrite skipn_nil|]. apply IH. Qed.

Lemma sub_split p a b body : 0 <= p -> 0 <= a -> 0 <= b ->
  sub p a body ++ sub (p + a) b body = sub p (a + b) body.
Proof.
  intros Hp Ha Hb. unfold sub. rewrite !Z2Nat.inj_add by lia.
  rewrite firstn_plus, skipn_plus. reflexivity.
Qed.

Lemma sub_one p body : 0 <= p -> p + 1 <= Z.of_nat (length body) -> exists a, sub p 1 body = [a].
Proof.
  intros Hp Hb. pose proof (sub_length p 1 body Hp ltac:(lia) Hb) as L.
  destruct (sub p 1 body) as [|a [|? ?]]; cbn in L; try lia. eauto.
Qed.
Lemma sub_four p body : 0 <= p -> p + 4 <= Z.of_nat (length body) -> exists a b c d, sub p 4 body = [a; b; c; d].
Proof.
  intros Hp Hb. pose proof (sub_length p 4 body Hp ltac:(lia) Hb) as L.
  destruct (sub p 4 body) as [|a [|b [|c [|d [|? ?]]]]]; cbn in L; try lia. eauto 6.
Qed.
Lemma firstn_len_app {A} (a b : list A) n : n = length a -> firstn n (a ++ b) = a.
Proof. intros ->. apply firstn_app_len. Qed.

Lemma unpack_list_pack hp fs body q : q <= Z.of_nat (length body) ->
  forall seen seenb p m m' p',
    order_ok seen seenb fs = true -> 0 <= p ->
    fst (unpack_list hp fs body q p m) = UOk m' p' ->
    p <= p' /\ (p' = p \/ p' <= q) /\ pack_list fs m' p q = POk (sub p (p' - p) body).
Proof.
  intros Hq. induction fs as [|d r IH]; intros seen seenb p m m' p' O Hp E.
  - cbn in E. inversion E; subst. split; [lia|]. split; [lia|]. cbn. rewrite Z.sub_diag. reflexivity.
  - destruct d as [g|g|c lf dd]; cbn [order_ok] in O; cbn [unpack_list] in E.
    + apply andb_true_iff in O. destruct O as [_ O].
      destruct (p + 1 >? q) eqn:C; [discriminate|]. rewrite fst_with_ev in E.
      pose proof (order_ok_seen_not_carried r (g :: seen) seenb g O (or_introl eq_refl)) as NC.
      pose proof (unpack_list_nv_other hp r body q g NC (p + 1) (setn m g (rd8 (sub p 1 body)))) as V.
      rewrite E in V. cbn [ures_msg] in V. rewrite nv_setn_same in V.
      assert (Hp1 : 0 <= p + 1) by lia. assert (Hp4 : 0 <= p + 4) by lia.
      destruct (IH (g :: seen) seenb _ _ _ _ O Hp1 E) as (B & B2 & PK).
      split; [lia|]. split; [lia|]. cbn [pack_list]. rewrite C, PK, V. cbn [papp].
      destruct (sub_one p body Hp ltac:(lia)) as (a & Sa). f_equal.
      replace (p' - p) with (1 + (p' - (p + 1))) by lia. rewrite <- (sub_split p 1 (p' - (p + 1)) body) by lia.
      rewrite Sa. cbn [rd8]. rewrite n2b_b2n. reflexivity.
    + apply andb_true_iff in O. destruct O as [_ O].
      destruct (p + 4 >? q) eqn:C; [discriminate|]. rewrite fst_with_ev in E.
      pose proof (order_ok_seen_not_carried r (g :: seen) seenb g O (or_introl eq_refl)) as NC.
      pose proof (unpack_list_nv_other hp r body q g NC (p + 4) (setn m g (rd32l (sub p 4 body)))) as V.
      rewrite E in V. cbn [ures_msg] in V. rewrite nv_setn_same in V.
      assert (Hp1 : 0 <= p + 1) by lia. assert (Hp4 : 0 <= p + 4) by lia.
      destruct (IH (g :: seen) seenb _ _ _ _ O Hp4 E) as (B & B2 & PK).
      split; [lia|]. split; [lia|]. cbn [pack_list]. rewrite C, PK, V. cbn [papp].
      destruct (sub_four p body Hp ltac:(lia)) as (a & b & c & d & Sa). f_equal.
      replace (p' - p) with (4 + (p' - (p + 4))) by lia. rewrite <- (sub_split p 4 (p' - (p + 4)) body) by lia.
      rewrite Sa. cbn [rd32l]. rewrite be32_rd32. reflexivity.
    + apply andb_true_iff in O. destruct O as [O O2]. apply andb_true_iff in O. destruct O as [O0 O1].
      apply existsb_nfld_In in O0.
      pose proof (order_ok_seen_not_carried r seen (c :: seenb) lf O2 O0) as NC.
      pose proof (order_ok_seenb_not_carried r seen (c :: seenb) c O2 (or_introl eq_refl)) as NB.
      pose proof (to_int_range (nv m lf)) as RG.
      destruct dd as [|cap lim].
      * destruct (to_int (nv m lf) =? 0) eqn:C0.
        { pose proof (unpack_list_nv_other hp r body q lf NC p m) as V. rewrite E in V. cbn [ures_msg] in V.
          destruct (IH seen (c :: seenb) _ _ _ _ O2 Hp E) as (B & B2 & PK).
          split; [exact B|]. split; [exact B2|]. cbn [pack_list]. rewrite V.
          destruct (to_int (nv m lf) <? 0) eqn:C1; [lia|]. rewrite C0. exact PK. }
        destruct (to_int (nv m lf) <? 0) eqn:C1; [discriminate|].
        destruct (negb (hp (alloc_req (to_int (nv m lf))))); [discriminate|].
        destruct (p + to_int (nv m lf) >? q) eqn:C3; [discriminate|].
        rewrite fst_with_ev in E.
        set (len := to_int (nv m lf)) in *.
        pose proof (unpack_list_nv_other hp r body q lf NC (p + len) (setb m c (Some (sub p len body)))) as V.
        rewrite E in V. cbn [ures_msg] in V. rewrite nv_setb in V.
        pose proof (unpack_list_bv_other hp r body q c NB _ _ _ _ E) as W. rewrite bv_setb_same in W.
        assert (Hpl : 0 <= p + len) by lia.
        destruct (IH seen (c :: seenb) _ _ _ _ O2 Hpl E) as (B & B2 & PK).
        split; [lia|]. split; [lia|]. cbn [pack_list]. rewrite V. fold len. rewrite C1, C0, C3.
        unfold src_bytes. rewrite W.
        pose proof (sub_length p len body Hp ltac:(lia) ltac:(lia)) as SL.
        destruct (Z.of_nat (length (sub p len body)) <? len) eqn:C4; [lia|].
        rewrite PK. cbn [papp]. f_equal.
        rewrite firstn_all2 by lia.
        replace (p' - p) with (len + (p' - (p + len))) by lia. symmetry. apply eq_sym.
        apply (sub_split p len (p' - (p + len)) body); lia.
      * destruct (to_int (nv m lf) >? Z.of_N lim) eqn:CL; [discriminate|].
        destruct (to_int (nv m lf) <? 0) eqn:C1; [discriminate|].
        destruct (to_int (nv m lf) =? 0) eqn:C0.
        { pose proof (unpack_list_nv_other hp r body q lf NC p m) as V. rewrite E in V. cbn [ures_msg] in V.
          destruct (IH seen (c :: seenb) _ _ _ _ O2 Hp E) as (B & B2 & PK).
          split; [exact B|]. split; [exact B2|]. cbn [pack_list]. rewrite V, C1, C0. exact PK. }
        destruct (p + to_int (nv m lf) >? q) eqn:C3; [discriminate|].
        destruct (to_int (nv m lf) >? Z.of_N cap) eqn:CC; [discriminate|].
        rewrite fst_with_ev in E.
        set (len := to_int (nv m lf)) in *.
        match type of E with fst (unpack_list _ _ _ _ _ (setb m c (Some ?l))) = _ => set (blk := l) in * end.
        pose proof (unpack_list_nv_other hp r body q lf NC (p + len) (setb m c (Some blk))) as V.
        rewrite E in V. cbn [ures_msg] in V. rewrite nv_setb in V.
        pose proof (unpack_list_bv_other hp r body q c NB _ _ _ _ E) as W. rewrite bv_setb_same in W.
        assert (Hpl : 0 <= p + len) by lia.
        destruct (IH seen (c :: seenb) _ _ _ _ O2 Hpl E) as (B & B2 & PK).
        split; [lia|]. split; [lia|]. cbn [pack_list]. rewrite V. fold len. rewrite C1, C0, C3.
        unfold src_bytes. rewrite W.
        pose proof (sub_length p len body Hp ltac:(lia) ltac:(lia)) as SL.
        assert (BL : len <= Z.of_nat (length blk)) by (subst blk; rewrite app_length; lia).
        destruct (Z.of_nat (length blk) <? len) eqn:C4; [lia|].
        destruct (Z.of_N cap <? len) eqn:C5; [lia|].
        rewrite PK. cbn [papp]. f_equal.
        subst blk. rewrite firstn_len_app by lia.
        replace (p' - p) with (len + (p' - (p + len))) by lia.
        apply (sub_split p len (p' - (p + len)) body); lia.
Qed.

(* ================================================================================================== *)
(*  2. what a successful m_msg_recv with an expected type says about the bytes on the connection         *)
(* ================================================================================================== *)
(* the stream carries a well-formed message of type t whose members are exactly those of m: a header with the
   magic, the version, type t and the body length; a body that begins with the packing of m; every member the
   type does not carry is that of a fresh object; every heap member is absent or a block of its length *)
Definition carries_msg (t : mtype) (stream : bytes) (m : msg) : Prop :=
  exists retry body rest p,
    stream = hdr_bytes (code_of t) retry (Z.of_nat (length body)) ++ body ++ rest
    /\ (retry < 256)%N /\ 0 < Z.of_nat (length body) < two31 /\ 0 <= p <= Z.of_nat (length body)
    /\ pack_list (pack_fields t) m 0 (Z.of_nat (length body)) = POk (firstn (Z.to_nat p) body)
    /\ nv m Ntype = code_of t /\ nv m Nretry = retry /\ nv m Npkt_len = 0%N /\ bv m Bpkt = None
    /\ err_local m = false
    /\ (forall f, carries_n (pack_fields t) f = false -> carries_n (pack_fields T_HDR) f = false -> nv m f = nv msg0 f)
    /\ (forall b, carries_b (pack_fields t) b = false -> b <> Bpkt -> bv m b = bv msg0 b)
    /\ (forall b lf, In (Var b lf Heap) (pack_fields t) ->
          (nv m lf = 0%N /\ bv m b = None)
          \/ (exists l, bv m b = Some l /\ Z.of_nat (length l) = Z.of_N (nv m lf) /\ (0 < nv m lf)%N)).

Lemma recv_ok_inv2 lim hp stream exptype maxlen m0 m :
  fst (recv_g lim hp stream exptype maxlen m0) = ROk m ->
  exists hdr body rest m1 p1 m3 p3,
    stream = hdr ++ body ++ rest /\ length hdr = N.to_nat msg_hdr_size
    /\ fst (msg_unpack_g lim hp mt_hdr hdr (Z.of_N msg_hdr_size) m0) = UOk m1 p1
    /\ (exptype = mt_undef \/ nv m1 Ntype = exptype)
    /\ Z.of_nat (length body) = Z.of_N (nv m1 Npkt_len)
    /\ fst (msg_unpack_g lim hp (nv m1 Ntype) body (to_int (nv m1 Npkt_len)) (setb m1 Bpkt (Some []))) = UOk m3 p3
    /\ m = setn (setb m3 Bpkt None) Npkt_len 0%N.
Proof.
  unfold recv_g. set (hs := Z.of_N msg_hdr_size).
  destruct (Z.of_nat (length stream) <? hs) eqn:CS; [cbn; discriminate|].
  set (hdr := firstn (Z.to_nat hs) stream). set (rest := skipn (Z.to_nat hs) stream).
  destruct (fst (msg_unpack_g lim hp mt_hdr hdr hs m0)) as [m1 p1|e1 m1|m1] eqn:E1; [|cbn; discriminate..].
  destruct (negb (exptype =? mt_undef)%N && negb (nv m1 Ntype =? exptype)%N) eqn:CT; [cbn; discriminate|].
  destruct ((0 <? maxlen) && (Z.of_N (nv m1 Npkt_len) >? maxlen)) eqn:CM; [cbn; discriminate|].
  destruct (negb (hp (Z.of_N (nv m1 Npkt_len)))); [cbn; discriminate|].
  destruct (Z.of_nat (length rest) <? Z.of_N (nv m1 Npkt_len)) eqn:CL; [cbn; discriminate|].
  set (body := firstn (Z.to_nat (Z.of_N (nv m1 Npkt_len))) rest).
  destruct (fst (msg_unpack_g lim hp (nv m1 Ntype) body (to_int (nv m1 Npkt_len)) (setb m1 Bpkt (Some []))))
    as [m3 p3|e3 m3|m3] eqn:E3; cbn; [|discriminate..].
  intros H. inversion H.
  exists hdr, body, (skipn (Z.to_nat (Z.of_N (nv m1 Npkt_len))) rest), m1, p1, m3, p3.
  repeat split; auto.
  - subst body hdr rest. rewrite firstn_skipn, firstn_skipn. reflexivity.
  - subst hdr. rewrite firstn_length. subst hs. unfold msg_hdr_size in *. lia.
  - destruct (exptype =? mt_undef)%N eqn:A; [left; lia|]. right.
    destruct (nv m1 Ntype =? exptype)%N eqn:B; [lia|discriminate].
  - subst body. rewrite firstn_length. lia.
Qed.

Lemma msg_unpack_hdr_inv lim hp hdr q m0 m1 p1 :
  fst (msg_unpack_g lim hp mt_hdr hdr q m0) = UOk m1 p1 ->
  fst (unpack_list hp (unpack_fields_g lim T_HDR) hdr q 0 m0) = UOk m1 p1
  /\ nv m1 Nmagic = msg_magic /\ nv m1 Nversion = msg_version.
Proof.
  unfold msg_unpack_g. change (type_of_code mt_hdr) with (Some T_HDR). cbv beta iota zeta.
  destruct (fst (unpack_list hp (unpack_fields_g lim T_HDR) hdr q 0 m0)) as [m p|e m|m]; cbn [is_hdr andb];
    [|cbn; discriminate..].
  destruct (nv m Nmagic =? msg_magic)%N eqn:A; cbn [negb]; [|cbn; discriminate].
  destruct (nv m Nversion =? msg_version)%N eqn:B; cbn [negb]; [|cbn; discriminate].
  cbn [fst]. intros H. inversion H; subst. repeat split; lia.
Qed.

Lemma unpack_list_first hp d r body q p m m' p' :
  match d with U8 _ | U32 _ => True | Var _ _ _ => False end ->
  fst (unpack_list hp (d :: r) body q p m) = UOk m' p' -> p + 1 <= q.
Proof.
  destruct d as [f|f|? ? ?]; intros T H; [| |destruct T]; cbn [unpack_list] in H.
  - destruct (p + 1 >? q) eqn:C; [discriminate|lia].
  - destruct (p + 4 >? q) eqn:C; [discriminate|lia].
Qed.

Lemma unpack_first_field lim hp t body q m m' p' : t <> T_HDR ->
  fst (unpack_list hp (unpack_fields_g lim t) body q 0 m) = UOk m' p' -> 1 <= q.
Proof.
  intros NH H. destruct t; [congruence|..]; cbn [unpack_fields_g] in H;
    (eapply unpack_list_first in H; [lia|exact I]).
Qed.

Lemma code_of_not_undef t : code_of t <> mt_undef.
Proof. destruct t; vm_compute; discriminate. Qed.
Lemma code_of_inj a b : code_of a = code_of b -> a = b.
Proof. destruct a, b; vm_compute; congruence. Qed.

Lemma carries_n_tables lim t f : carries_n (unpack_fields_g lim t) f = carries_n (pack_fields t) f.
Proof. destruct t; reflexivity. Qed.
Lemma carries_b_tables lim t b : carries_b (unpack_fields_g lim t) b = carries_b (pack_fields t) b.
Proof. destruct t; reflexivity. Qed.

Lemma pack_list_final t m p q : t <> T_HDR ->
  pack_list (pack_fields t) (setn (setb m Bpkt None) Npkt_len 0%N) p q = pack_list (pack_fields t) m p q.
Proof. intros H. destruct t; [congruence|reflexivity..]. Qed.

Lemma heap_member_fresh t b lf : In (Var b lf Heap) (pack_fields t) -> b <> Bpkt /\ bv msg0 b = None /\ lf <> Npkt_len.
Proof.
  destruct t; cbn; intros H;
    repeat (destruct H as [H|H]; [try discriminate; inversion H; subst; repeat split; try discriminate; reflexivity|]);
    destruct H.
Qed.

Lemma hdr_decompose (hdr : bytes) lim hp m1 p1 :
  length hdr = N.to_nat msg_hdr_size ->
  fst (unpack_list hp (unpack_fields_g lim T_HDR) hdr (Z.of_N msg_hdr_size) 0 msg0) = UOk m1 p1 ->
  nv m1 Nmagic = msg_magic -> nv m1 Nversion = msg_version ->
  hdr = hdr_bytes (nv m1 Ntype) (nv m1 Nretry) (Z.of_N (nv m1 Npkt_len)) /\ (nv m1 Nretry < 256)%N
  /\ (nv m1 Npkt_len < 4294967296)%N.
Proof.
  intros L U HM HV.
  destruct hdr as [|a1 [|a2 [|a3 [|a4 [|a5 [|a6 [|a7 [|a8 [|a9 [|a10 [|a11 [|? ?]]]]]]]]]]]]; try discriminate L.
  unfold unpack_fields_g, sub in U. cbn in U. inversion U; subst m1 p1. clear U.
  cbn [nv setn nfld_eqb] in *.
  unfold hdr_bytes. rewrite N2Z.id. rewrite <- HM, <- HV, !be32_rd32, !n2b_b2n.
  repeat split; [apply b2n_lt|apply rd32_lt].
Qed.

Theorem recv_ok_carries lim hp stream t maxlen m : t <> T_HDR ->
  fst (recv_g lim hp stream (code_of t) maxlen msg0) = ROk m -> carries_msg t stream m.
Proof.
  intros NH R.
  apply recv_ok_inv2 in R. destruct R as (hdr & body & rest & m1 & p1 & m3 & p3 & ST & LH & E1 & TY & LB & E3 & ->).
  destruct TY as [TY|TY]; [exfalso; exact (code_of_not_undef t TY)|].
  apply msg_unpack_hdr_inv in E1. destruct E1 as (U1 & HM & HV).
  destruct (hdr_decompose hdr lim hp m1 p1 LH U1 HM HV) as (HD & RT & PL).
  apply msg_unpack_ok_inv in E3. destruct E3 as (t2 & T2 & U3).
  rewrite TY, type_of_code_of in T2. inversion T2; subst t2. clear T2.
  set (m2 := setb m1 Bpkt (Some [])) in *.
  set (q := to_int (nv m1 Npkt_len)) in *.
  pose proof (unpack_first_field lim hp t body q m2 m3 p3 NH U3) as Q1.
  assert (QE : q = Z.of_N (nv m1 Npkt_len)) by (subst q; apply to_int_nonneg_inv; [exact PL|lia]).
  pose proof (to_int_range (nv m1 Npkt_len)) as QR. fold q in QR.
  assert (Hq : q <= Z.of_nat (length body)) by lia.
  destruct (unpack_list_pack hp (unpack_fields_g lim t) body q Hq [] [] 0 m2 m3 p3 (tables_order lim t)
              ltac:(lia) U3) as (P0 & P1 & PK).
  (* members the header unpacker and the body unpacker leave alone *)
  assert (N1 : forall f, carries_n (unpack_fields_g lim T_HDR) f = false -> nv m1 f = nv msg0 f).
  { intros f C. pose proof (unpack_list_nv_other hp _ hdr (Z.of_N msg_hdr_size) f C 0 msg0) as X.
    rewrite U1 in X. exact X. }
  assert (B1 : forall b, bv m1 b = bv msg0 b).
  { intros b. exact (unpack_list_bv_other hp (unpack_fields_g lim T_HDR) hdr (Z.of_N msg_hdr_size) b eq_refl _ _ _ _ U1). }
  assert (L1 : err_local m1 = false).
  { pose proof (unpack_list_err_local hp (unpack_fields_g lim T_HDR) hdr (Z.of_N msg_hdr_size) 0 msg0) as X.
    rewrite U1 in X. exact X. }
  assert (N3 : forall f, carries_n (pack_fields t) f = false -> nv m3 f = nv m1 f).
  { intros f C. rewrite <- (carries_n_tables lim) in C.
    pose proof (unpack_list_nv_other hp _ body q f C 0 m2) as X. rewrite U3 in X. cbn [ures_msg] in X.
    rewrite X. subst m2. apply nv_setb. }
  assert (B3 : forall b, carries_b (pack_fields t) b = false -> bv m3 b = bv m2 b).
  { intros b C. rewrite <- (carries_b_tables lim) in C. exact (unpack_list_bv_other hp _ body q b C _ _ _ _ U3). }
  assert (L3 : err_local m3 = false).
  { pose proof (unpack_list_err_local hp (unpack_fields_g lim t) body q 0 m2) as X. rewrite U3 in X.
    cbn [ures_msg] in X. rewrite X. exact L1. }
  pose proof (unpack_list_consistent hp (unpack_fields_g lim t) body q Hq [] [] 0 m2 m3 p3
                (tables_order lim t) ltac:(intros ? []) ltac:(lia) U3) as CV.
  assert (NT : carries_n (pack_fields t) Ntype = false) by (destruct t; [congruence|reflexivity..]).
  assert (NR : carries_n (pack_fields t) Nretry = false) by (destruct t; [congruence|reflexivity..]).
  exists (nv m1 Nretry), body, rest, p3.
  split. { rewrite ST, HD, TY. do 3 f_equal. lia. }
  split; [exact RT|]. split; [lia|]. split; [lia|].
  split.
  { rewrite (pack_list_final t m3 0 _ NH), (pack_list_tables lim).
    replace (Z.of_nat (length body)) with q by lia. rewrite PK.
    unfold sub. rewrite Z.sub_0_r. reflexivity. }
  cbn [nv bv err_local setn setb nfld_eqb bfld_eqb].
  split. { rewrite (N3 Ntype NT). exact TY. }
  split. { apply (N3 Nretry NR). }
  split; [reflexivity|]. split; [reflexivity|]. split; [exact L3|].
  split.
  { intros f C CH. destruct (nfld_eqb_spec f Npkt_len) as [->|NP]; [discriminate CH|].
    rewrite (N3 f C). apply N1. rewrite carries_n_tables. exact CH. }
  split.
  { intros b C NB. destruct (bfld_eqb_spec b Bpkt) as [->|_]; [contradiction|].
    rewrite (B3 b C). subst m2. rewrite bv_setb_other by exact NB. apply B1. }
  intros b lf I. destruct (heap_member_fresh t b lf I) as (NB & FB & NL).
  destruct (nfld_eqb_spec lf Npkt_len) as [->|_]; [contradiction|].
  destruct (bfld_eqb_spec b Bpkt) as [->|_]; [contradiction|].
  destruct (CV b lf (in_heap_tables lim t b lf I)) as [[A B]|(l & A & B & D)].
  - left. split; [exact A|]. rewrite B. subst m2. rewrite bv_setb_other by exact NB. rewrite B1. exact FB.
  - right. exists l. repeat split; auto; lia.
Qed.

(* ================================================================================================== *)
(*  3. m_msg_client_xfer: the retry loop ends in the first response that m_msg_recv accepts, or an error  *)
(* ================================================================================================== *)
Lemma send_err_codes hp code m maxlen e :
  send hp code m maxlen = SErr e -> e = e_snafu \/ e = e_no_memory \/ e = e_bad_length.
Proof.
  unfold send. destruct (type_of_code code) as [t|]; [|intros H; inversion H; auto].
  destruct (msg_length t m <=? 0); [intros H; inversion H; auto|].
  destruct (negb (hp (msg_length t m))); [intros H; inversion H; auto|].
  destruct (pack_list (pack_fields t) _ 0 (msg_length t m)) as [body | | ]; [|intros H; inversion H; auto|discriminate].
  destruct (Z.of_nat (length body) <? msg_length t m); [discriminate|].
  destruct ((0 <? maxlen) && (msg_length t m >? maxlen)); [intros H; inversion H; auto|].
  destruct (pack_list (pack_fields T_HDR) _ 0 _); [discriminate|intros H; inversion H; auto|discriminate].
Qed.

Lemma err_codes_nonzero e :
  e = e_snafu \/ e = e_no_memory \/ e = e_bad_length \/ e = e_socket -> e <> 0%N.
Proof. intros [-> | [-> | [-> | ->]]]; vm_compute; discriminate. Qed.

Lemma nth_tl {A} k (l : list A) d : nth k (tl l) d = nth (S k) l d.
Proof. destruct l; [destruct k; reflexivity|reflexivity]. Qed.
Lemma nth_0_hd {A} (l : list A) d : nth 0 l d = hd d l.
Proof. destruct l; reflexivity. Qed.

(* what an outcome of the transfer means in terms of the peer's answers *)
Definition xfer_spec (lim : N) (hp : Z -> bool) (exptype : N) (peer : list bytes) (bound : nat) (r : xres) : Prop :=
  match r with
  | XRsp m => exists k, (k < bound)%nat
                        /\ fst (recv_g lim hp (nth k peer []) exptype xfer_recv_maxlen msg0) = ROk m
  | XRspErr e _ | XReqErr e => e <> 0%N
  | XFault => False
  end.

Lemma xfer_loop_spec lim hp exptype code mreq :
  (lim <= sizeof_addr)%N ->
  (forall r, send hp code (setn mreq Nretry r) xfer_send_maxlen <> SFault) ->
  forall fuel i peer, xfer_spec lim hp exptype peer fuel (fst (xfer_loop lim hp exptype code mreq fuel i peer)).
Proof.
  intros HL HS. induction fuel as [|fuel IH]; intros i peer; cbn [xfer_loop].
  - cbn. vm_compute; discriminate.
  - destruct (send hp code (setn mreq Nretry (i - 1)%N) xfer_send_maxlen) as [wire | e | ] eqn:SE.
    + destruct (recv_total_bounded lim hp (hd [] peer) exptype xfer_recv_maxlen msg0 HL) as [F _].
      destruct (fst (recv_g lim hp (hd [] peer) exptype xfer_recv_maxlen msg0)) as [m|e m|m] eqn:RE.
      * cbn. exists 0%nat. split; [lia|]. rewrite nth_0_hd. exact RE.
      * assert (NZ : e <> 0%N).
        { destruct F as [(?&?)|(e'&m'&EQ&C)]; [discriminate|]. inversion EQ; subst.
          apply err_codes_nonzero. tauto. }
        destruct ((xfer_attempts <=? i)%N || (e =? e_bad_length)%N); [exact NZ|].
        cbn [fst]. specialize (IH (i + 1)%N (tl peer)).
        destruct (fst (xfer_loop lim hp exptype code mreq fuel (i + 1)%N (tl peer))); cbn in IH |- *; try exact IH.
        destruct IH as (k & K & R). exists (S k). split; [lia|]. rewrite <- nth_tl. exact R.
      * exfalso. destruct F as [(?&?)|(?&?&?&?)]; discriminate.
    + assert (NZ : e <> 0%N) by (apply err_codes_nonzero; destruct (send_err_codes _ _ _ _ _ SE) as [?|[?|?]]; tauto).
      destruct ((xfer_attempts <=? i)%N || (e =? e_bad_length)%N); [exact NZ|].
      cbn [fst]. specialize (IH (i + 1)%N (tl peer)).
      destruct (fst (xfer_loop lim hp exptype code mreq fuel (i + 1)%N (tl peer))); cbn in IH |- *; try exact IH.
      destruct IH as (k & K & R). exists (S k). split; [lia|]. rewrite <- nth_tl. exact R.
    + exfalso. exact (HS _ SE).
Qed.

Lemma xfer_g_spec lim hp ex code mreq peer :
  (lim <= sizeof_addr)%N ->
  (forall r, send hp code (setn mreq Nretry r) xfer_send_maxlen <> SFault) ->
  match ex code with
  | None => fst (xfer_g lim hp ex code mreq peer) = XReqErr e_snafu
  | Some exptype => xfer_spec lim hp exptype peer (N.to_nat xfer_attempts) (fst (xfer_g lim hp ex code mreq peer))
  end.
Proof.
  intros HL HS. unfold xfer_g. destruct (ex code) as [exptype|]; [|reflexivity].
  apply xfer_loop_spec; assumption.
Qed.

(* ================================================================================================== *)
(*  4. munge_decode / munge_encode: an error that hands nothing to the caller, or exactly the members of  *)
(*     a well-formed message of the expected type carried by one of the peer's answers                  *)
(* ================================================================================================== *)
Definition dec_result_ok (peer : list bytes) (r : dres) : Prop :=
  (d_err r <> 0%N /\ exists s, r = dec_fail (d_err r) s)
  \/ (exists k m, (k < N.to_nat xfer_attempts)%nat /\ carries_msg T_DEC_RSP (nth k peer []) m /\ r = dec_out m).

Definition enc_result_ok (peer : list bytes) (r : eres) : Prop :=
  (e_err r <> 0%N /\ exists s, r = enc_fail (e_err r) s)
  \/ (exists k m, (k < N.to_nat xfer_attempts)%nat /\ carries_msg T_ENC_RSP (nth k peer []) m
                  /\ nv m Ndata_len <> 0%N /\ r = enc_out m).

Lemma snafu_nonzero : e_snafu <> 0%N.
Proof. vm_compute; discriminate. Qed.

Theorem client_decode_wf lim hp ex acc cred peer :
  (lim <= sizeof_addr)%N ->
  (forall x, ex mt_dec_req = Some x -> x = mt_dec_rsp) ->
  (forall r, send hp mt_dec_req (setn (dec_req cred) Nretry r) xfer_send_maxlen <> SFault) ->
  exists r, fst (client_decode_g lim hp ex acc cred peer) = Some r /\ dec_result_ok peer r.
Proof.
  intros HL EX HS. unfold client_decode_g. cbn [fst].
  pose proof (xfer_g_spec lim hp ex mt_dec_req (dec_req cred) peer HL HS) as X.
  destruct (ex mt_dec_req) as [x|] eqn:EE.
  2:{ rewrite X. eexists. split; [reflexivity|]. left. split; [exact snafu_nonzero|eexists; reflexivity]. }
  rewrite (EX x eq_refl) in X.
  destruct (fst (xfer_g lim hp ex mt_dec_req (dec_req cred) peer)) as [m | e m | e | ]; cbn in X.
  - destruct X as (k & K & R). eexists. split; [reflexivity|].
    unfold decode_rsp. destruct (acc (nv m Ntype)).
    + right. exists k, m. split; [exact K|]. split; [|reflexivity].
      apply (recv_ok_carries lim hp _ T_DEC_RSP xfer_recv_maxlen m); [discriminate|exact R].
    + left. split; [exact snafu_nonzero|eexists; reflexivity].
  - eexists. split; [reflexivity|]. left. split; [exact X|eexists; reflexivity].
  - eexists. split; [reflexivity|]. left. split; [exact X|eexists; reflexivity].
  - contradiction.
Qed.

Theorem client_encode_wf lim hp ex acc mreq peer :
  (lim <= sizeof_addr)%N ->
  (forall x, ex mt_enc_req = Some x -> x = mt_enc_rsp) ->
  (forall r, send hp mt_enc_req (setn mreq Nretry r) xfer_send_maxlen <> SFault) ->
  exists r, fst (client_encode_g lim hp ex acc mreq peer) = Some r /\ enc_result_ok peer r.
Proof.
  intros HL EX HS. unfold client_encode_g. cbn [fst].
  pose proof (xfer_g_spec lim hp ex mt_enc_req mreq peer HL HS) as X.
  destruct (ex mt_enc_req) as [x|] eqn:EE.
  2:{ rewrite X. eexists. split; [reflexivity|]. left. split; [exact snafu_nonzero|eexists; reflexivity]. }
  rewrite (EX x eq_refl) in X.
  destruct (fst (xfer_g lim hp ex mt_enc_req mreq peer)) as [m | e m | e | ]; cbn in X.
  - destruct X as (k & K & R). eexists. split; [reflexivity|].
    unfold encode_rsp. destruct (acc (nv m Ntype)); cbn [negb].
    + destruct (nv m Ndata_len =? 0)%N eqn:DL.
      * left. split; [exact snafu_nonzero|eexists; reflexivity].
      * right. exists k, m. split; [exact K|]. split; [|split; [lia|reflexivity]].
        apply (recv_ok_carries lim hp _ T_ENC_RSP xfer_recv_maxlen m); [discriminate|exact R].
    + left. split; [exact snafu_nonzero|eexists; reflexivity].
  - eexists. split; [reflexivity|]. left. split; [exact X|eexists; reflexivity].
  - eexists. split; [reflexivity|]. left. split; [exact X|eexists; reflexivity].
  - contradiction.
Qed.

(* the requests _decode_req builds are sendable: no fault for any credential string *)
Lemma wrap32_add_wrap a b : wrap32 (a + wrap32 b) = wrap32 (a + b).
Proof. unfold wrap32, two31, two32. lia. Qed.

Lemma dec_req_no_fault hp cred r maxlen : send hp mt_dec_req (setn (dec_req cred) Nretry r) maxlen <> SFault.
Proof.
  unfold send. change (type_of_code mt_dec_req) with (Some T_DEC_REQ). cbv beta iota.
  set (m := setn (dec_req cred) Nretry r).
  set (n := msg_length T_DEC_REQ m).
  rewrite pack_hdr.
  destruct (n <=? 0) eqn:C0; [discriminate|].
  destruct (negb (hp n)); [discriminate|].
  set (L := (N.of_nat (length cred) + 1)%N).
  assert (NE : n = wrap32 (4 + to_int L)).
  { subst n. unfold msg_length. cbn [len_fields sum_sizes fold_right fsize]. change (nv m Ndata_len) with L.
    unfold to_int. rewrite wrap32_add_wrap. f_equal. lia. }
  assert (PK : pack_list (pack_fields T_DEC_REQ) (stamp m mt_dec_req n) 0 n =
    if 0 + 4 >? n then PErr
    else papp (be32 L)
           (if to_int L <? 0 then PErr
            else if to_int L =? 0 then POk []
            else if 0 + 4 + to_int L >? n then PErr
            else match src_bytes (stamp m mt_dec_req n) Bdata Heap (to_int L) with
                 | None => PFault
                 | Some s => papp s (POk [])
                 end)) by reflexivity.
  rewrite PK. clear PK.
  destruct (0 + 4 >? n) eqn:C1; [discriminate|].
  destruct (to_int L <? 0) eqn:C2; [cbn; discriminate|].
  pose proof (wrap32_le (4 + to_int L) ltac:(lia)) as WL. rewrite <- NE in WL.
  destruct (to_int L =? 0) eqn:C3.
  { cbn [papp]. rewrite app_nil_r, be32_length.
    destruct (Z.of_nat 4 <? n) eqn:C6; [lia|]. destruct ((0 <? maxlen) && (n >? maxlen)); discriminate. }
  destruct (0 + 4 + to_int L >? n) eqn:C4; [cbn; discriminate|].
  unfold src_bytes. change (bv (stamp m mt_dec_req n) Bdata) with (Some (cred ++ [x00])). cbv beta iota.
  assert (LL : Z.of_nat (length (cred ++ [x00])) = Z.of_N L).
  { rewrite app_length. cbn. subst L. lia. }
  pose proof (to_int_le L) as TL.
  destruct (Z.of_nat (length (cred ++ [x00])) <? to_int L) eqn:C5; [lia|].
  cbn [papp]. rewrite app_nil_r.
  match goal with |- context [Z.of_nat (length ?b) <? n] => set (body := b) end.
  assert (BL : Z.of_nat (length body) = 4 + to_int L).
  { subst body. rewrite app_length, be32_length, firstn_length. lia. }
  destruct (Z.of_nat (length body) <? n) eqn:C6; [lia|].
  destruct ((0 <? maxlen) && (n >? maxlen)); discriminate.
Qed.

(* _msg_unpack followed by _msg_pack of what it left: the bytes consumed *)
Theorem unpack_then_pack lim hp t body m m' p' :
  fst (msg_unpack_g lim hp (code_of t) body (Z.of_nat (length body)) m) = UOk m' p' ->
  0 <= p' <= Z.of_nat (length body)
  /\ pack_list (pack_fields t) m' 0 (Z.of_nat (length body)) = POk (firstn (Z.to_nat p') body).
Proof.
  intros E. apply msg_unpack_ok_inv in E. destruct E as (t2 & T2 & U).
  rewrite type_of_code_of in T2. inversion T2; subst t2.
  destruct (unpack_list_pack hp (unpack_fields_g lim t) body _ (Z.le_refl _) [] [] 0 m m' p' (tables_order lim t)
              (Z.le_refl 0) U) as (P0 & P1 & PK).
  split; [lia|]. rewrite (pack_list_tables lim), PK. unfold sub. rewrite Z.sub_0_r. reflexivity.
Qed.

(* ================================================================================================== *)
(*  5. without the expected type (m_msg_recv (mrsp, MUNGE_MSG_UNDEF, 0)): refuted                        *)
(* ================================================================================================== *)
(* header of type HDR whose 11-byte body is a packed header naming DEC_RSP: the body unpacker rewrites m->type,
   the sanity check of _decode_rsp then sees DEC_RSP although no member of a DEC_RSP was ever unpacked *)
Definition nested_attack : bytes := hdr_bytes mt_hdr 0 (Z.of_N msg_hdr_size) ++ hdr_bytes mt_dec_rsp 0 0.

Lemma nth5_hdr c r n l : nth 5 (hdr_bytes c r n ++ l) x00 = n2b c.
Proof.
  unfold hdr_bytes. pose proof (be32_length msg_magic) as L.
  destruct (be32 msg_magic) as [|a1 [|a2 [|a3 [|a4 [|? ?]]]]]; cbn in L; try discriminate L. reflexivity.
Qed.

Lemma carries_msg_type t s m : carries_msg t s m -> nth 5 s x00 = n2b (code_of t).
Proof. intros (retry & body & rest & p & ST & _). rewrite ST. apply nth5_hdr. Qed.

Theorem client_unchecked_type_refuted :
  exists cred peer r,
    fst (client_decode_g sizeof_addr (fun _ => true) (fun _ => Some mt_undef) (fun t => (t =? mt_dec_rsp)%N)
           cred peer) = Some r
    /\ d_err r = 0%N /\ d_uid r = 0%N /\ d_gid r = 0%N /\ d_len r = 0 /\ d_ctx r <> dctx_init
    /\ forall s m, In s peer -> ~ carries_msg T_DEC_RSP s m.
Proof.
  exists ["M"%byte], [nested_attack]. eexists. split; [vm_compute; reflexivity|].
  repeat split; try discriminate.
  intros s m [<-|[]] C. apply carries_msg_type in C. vm_compute in C. discriminate.
Qed.

(* a concrete exchange with the repository's client: the first answer is the nested header, the second a
   well-formed DEC_RSP; the caller gets the members of the second *)
Definition example_dec_rsp : bytes :=
  let body := [x00; x00; x04; x03; x00; x00] ++ be32 300 ++ [x04; x7f; x00; x00; x01] ++ be32 1000 ++ be32 1001
              ++ be32 42 ++ be32 43 ++ be32 4294967295 ++ be32 4294967295 ++ be32 5 ++ ["h"; "e"; "l"; "l"; "o"]%byte in
  hdr_bytes mt_dec_rsp 1 (Z.of_nat (length body)) ++ body.
