(* MsgClientProofs.v — lemmas and proofs about MsgClientModel (property C14, the libmunge side). *)
From Coq Require Import List NArith ZArith Bool Lia ZifyBool ZifyNat ZifyN.
From Coq.Strings Require Import Byte.
From MV Require Import Bytes MsgModel MsgProofs MsgClientModel.
From MV.gen Require Import GenMsg GenMsgClient.
Import ListNotations.
Local Open Scope Z_scope.
Ltac Zify.zify_post_hook ::= Z.div_mod_to_equations.

(* ================================================================================================== *)
(*  1. a successful unpack is the inverse of pack: the members it leaves re-encode to the bytes consumed  *)
(* ================================================================================================== *)
Lemma firstn_plus {A} (a b : nat) (l : list A) : firstn (a + b) l = firstn a l ++ firstn b (skipn a l).
Proof. revert l. induction a as [|a IH]; intros [|x l]; cbn; try reflexivity; [now rewrite firstn_nil|]. f_equal. apply IH. Qed.
Lemma skipn_plus {A} (a b : nat) (l : list A) : skipn (a + b) l = skipn b (skipn a l).
Proof. revert l. induction a as [|a IH]; intros [|x l]; cbn; try reflexivity; [now rewrite skipn_nil|]. apply IH. Qed.

Lemma sub_split p a b body : 0 <= p -> 0 <= a -> 0 <= b ->
  sub p a body ++ sub (p + a) b body = sub p (a + b) body.
Proof.
  intros Hp Ha Hb. unfold sub. rewrite !Z2Nat.inj_add by lia.
  rewrite firstn_plus, skipn_plus. reflexivity.
Qed.

Lemma sub_one p body : 0 <= p -> p + 1 <= Z.of_nat (length body) -> exists a, sub p 1 body = [a].
Proof.
  intros Hp Hb. pose proof (sub_length p 1 body Hp ltac:(lia) Hb) as L.
  destruct (sub p 1 body) as [|a [|? ?]]; cbn in L; try lia. eauto.
Qed.
Lemma sub_four p body : 0 <= p -> p + 4 <= Z.of_nat (length body) -> exists a b c d, sub p 4 body = [a; b; c; d].
Proof.
  intros Hp Hb. pose proof (sub_length p 4 body Hp ltac:(lia) Hb) as L.
  destruct (sub p 4 body) as [|a [|b [|c [|d [|? ?]]]]]; cbn in L; try lia. eauto 6.
Qed.
Lemma firstn_len_app {A} (a b : list A) n : n = length a -> firstn n (a ++ b) = a.
Proof. intros ->. apply firstn_app_len. Qed.

Lemma unpack_list_pack hp fs body q : q <= Z.of_nat (length body) ->
  forall seen seenb p m m' p',
    order_ok seen seenb fs = true -> 0 <= p ->
    fst (unpack_list hp fs body q p m) = UOk m' p' ->
    p <= p' /\ (p' = p \/ p' <= q) /\ pack_list fs m' p q = POk (sub p (p' - p) body).
Proof.
  intros Hq. induction fs as [|d r IH]; intros seen seenb p m m' p' O Hp E.
  - cbn in E. inversion E; subst. split; [lia|]. split; [lia|]. cbn. rewrite Z.sub_diag. reflexivity.
  - destruct d as [g|g|c lf dd]; cbn [order_ok] in O; cbn [unpack_list] in E.
    + apply andb_true_iff in O. destruct O as [_ O].
      destruct (p + 1 >? q) eqn:C; [discriminate|]. rewrite fst_with_ev in E.
      pose proof (order_ok_seen_not_carried r (g :: seen) seenb g O (or_introl eq_refl)) as NC.
      pose proof (unpack_list_nv_other hp r body q g NC (p + 1) (setn m g (rd8 (sub p 1 body)))) as V.
      rewrite E in V. cbn [ures_msg] in V. rewrite nv_setn_same in V.
      assert (Hp1 : 0 <= p + 1) by lia. assert (Hp4 : 0 <= p + 4) by lia.
      destruct (IH (g :: seen) seenb _ _ _ _ O Hp1 E) as (B & B2 & PK).
      split; [lia|]. split; [lia|]. cbn [pack_list]. rewrite C, PK, V. cbn [papp].
      destruct (sub_one p body Hp ltac:(lia)) as (a & Sa). f_equal.
      replace (p' - p) with (1 + (p' - (p + 1))) by lia. rewrite <- (sub_split p 1 (p' - (p + 1)) body) by lia.
      rewrite Sa. cbn [rd8]. rewrite n2b_b2n. reflexivity.
    + apply andb_true_iff in O. destruct O as [_ O].
      destruct (p + 4 >? q) eqn:C; [discriminate|]. rewrite fst_with_ev in E.
      pose proof (order_ok_seen_not_carried r (g :: seen) seenb g O (or_introl eq_refl)) as NC.
      pose proof (unpack_list_nv_other hp r body q g NC (p + 4) (setn m g (rd32l (sub p 4 body)))) as V.
      rewrite E in V. cbn [ures_msg] in V. rewrite nv_setn_same in V.
      assert (Hp1 : 0 <= p + 1) by lia. assert (Hp4 : 0 <= p + 4) by lia.
      destruct (IH (g :: seen) seenb _ _ _ _ O Hp4 E) as (B & B2 & PK).
      split; [lia|]. split; [lia|]. cbn [pack_list]. rewrite C, PK, V. cbn [papp].
      destruct (sub_four p body Hp ltac:(lia)) as (a & b & c & d & Sa). f_equal.
      replace (p' - p) with (4 + (p' - (p + 4))) by lia. rewrite <- (sub_split p 4 (p' - (p + 4)) body) by lia.
      rewrite Sa. cbn [rd32l]. rewrite be32_rd32. reflexivity.
    + apply andb_true_iff in O. destruct O as [O O2]. apply andb_true_iff in O. destruct O as [O0 O1].
      apply existsb_nfld_In in O0.
      pose proof (order_ok_seen_not_carried r seen (c :: seenb) lf O2 O0) as NC.
      pose proof (order_ok_seenb_not_carried r seen (c :: seenb) c O2 (or_introl eq_refl)) as NB.
      pose proof (to_int_range (nv m lf)) as RG.
      destruct dd as [|cap lim].
      * destruct (to_int (nv m lf) =? 0) eqn:C0.
        { pose proof (unpack_list_nv_other hp r body q lf NC p m) as V. rewrite E in V. cbn [ures_msg] in V.
          destruct (IH seen (c :: seenb) _ _ _ _ O2 Hp E) as (B & B2 & PK).
          split; [exact B|]. split; [exact B2|]. cbn [pack_list]. rewrite V.
          destruct (to_int (nv m lf) <? 0) eqn:C1; [lia|]. rewrite C0. exact PK. }
        destruct (to_int (nv m lf) <? 0) eqn:C1; [discriminate|].
        destruct (negb (hp (alloc_req (to_int (nv m lf))))); [discriminate|].
        destruct (p + to_int (nv m lf) >? q) eqn:C3; [discriminate|].
        rewrite fst_with_ev in E.
        set (len := to_int (nv m lf)) in *.
        pose proof (unpack_list_nv_other hp r body q lf NC (p + len) (setb m c (Some (sub p len body)))) as V.
        rewrite E in V. cbn [ures_msg] in V. rewrite nv_setb in V.
        pose proof (unpack_list_bv_other hp r body q c NB _ _ _ _ E) as W. rewrite bv_setb_same in W.
        assert (Hpl : 0 <= p + len) by lia.
        destruct (IH seen (c :: seenb) _ _ _ _ O2 Hpl E) as (B & B2 & PK).
        split; [lia|]. split; [lia|]. cbn [pack_list]. rewrite V. fold len. rewrite C1, C0, C3.
        unfold src_bytes. rewrite W.
        pose proof (sub_length p len body Hp ltac:(lia) ltac:(lia)) as SL.
        destruct (Z.of_nat (length (sub p len body)) <? len) eqn:C4; [lia|].
        rewrite PK. cbn [papp]. f_equal.
        rewrite firstn_all2 by lia.
        replace (p' - p) with (len + (p' - (p + len))) by lia. symmetry. apply eq_sym.
        apply (sub_split p len (p' - (p + len)) body); lia.
      * destruct (to_int (nv m lf) >? Z.of_N lim) eqn:CL; [discriminate|].
        destruct (to_int (nv m lf) <? 0) eqn:C1; [discriminate|].
        destruct (to_int (nv m lf) =? 0) eqn:C0.
        { pose proof (unpack_list_nv_other hp r body q lf NC p m) as V. rewrite E in V. cbn [ures_msg] in V.
          destruct (IH seen (c :: seenb) _ _ _ _ O2 Hp E) as (B & B2 & PK).
          split; [exact B|]. split; [exact B2|]. cbn [pack_list]. rewrite V, C1, C0. exact PK. }
        destruct (p + to_int (nv m lf) >? q) eqn:C3; [discriminate|].
        destruct (to_int (nv m lf) >? Z.of_N cap) eqn:CC; [discriminate|].
        rewrite fst_with_ev in E.
        set (len := to_int (nv m lf)) in *.
        match type of E with fst (unpack_list _ _ _ _ _ (setb m c (Some ?l))) = _ => set (blk := l) in * end.
        pose proof (unpack_list_nv_other hp r body q lf NC (p + len) (setb m c (Some blk))) as V.
        rewrite E in V. cbn [ures_msg] in V. rewrite nv_setb in V.
        pose proof (unpack_list_bv_other hp r body q c NB _ _ _ _ E) as W. rewrite bv_setb_same in W.
        assert (Hpl : 0 <= p + len) by lia.
        destruct (IH seen (c :: seenb) _ _ _ _ O2 Hpl E) as (B & B2 & PK).
        split; [lia|]. split; [lia|]. cbn [pack_list]. rewrite V. fold len. rewrite C1, C0, C3.
        unfold src_bytes. rewrite W.
        pose proof (sub_length p len body Hp ltac:(lia) ltac:(lia)) as SL.
        assert (BL : len <= Z.of_nat (length blk)) by (subst blk; rewrite app_length; lia).
        destruct (Z.of_nat (length blk) <? len) eqn:C4; [lia|].
        destruct (Z.of_N cap <? len) eqn:C5; [lia|].
        rewrite PK. cbn [papp]. f_equal.
        subst blk. rewrite firstn_len_app by lia.
        replace (p' - p) with (len + (p' - (p + len))) by lia.
        apply (sub_split p len (p' - (p + len)) body); lia.
Qed.

(* ================================================================================================== *)
(*  2. what a successful m_msg_recv with an expected type says about the bytes on the connection         *)
(* ================================================================================================== *)
(* the stream carries a well-formed message of type t whose members are exactly those of m: a header with the
   magic, the version, type t and the body length; a body that begins with the packing of m; every member the
   type does not carry is that of a fresh object; every heap member is absent or a block of its length *)
Definition carries_msg (t : mtype) (stream : bytes) (m : msg) : Prop :=
  exists retry body rest p,
    stream = hdr_bytes (code_of t) retry (Z.of_nat (length body)) ++ body ++ rest
    /\ (retry < 256)%N /\ 0 < Z.of_nat (length body) < two31 /\ 0 <= p <= Z.of_nat (length body)
    /\ pack_list (pack_fields t) m 0 (Z.of_nat (length body)) = POk (firstn (Z.to_nat p) body)
    /\ nv m Ntype = code_of t /\ nv m Nretry = retry /\ nv m Npkt_len = 0%N /\ bv m Bpkt = None
    /\ err_local m = false
    /\ (forall f, carries_n (pack_fields t) f = false -> carries_n (pack_fields T_HDR) f = false -> nv m f = nv msg0 f)
    /\ (forall b, carries_b (pack_fields t) b = false -> b <> Bpkt -> bv m b = bv msg0 b)
    /\ (forall b lf, In (Var b lf Heap) (pack_fields t) ->
          (nv m lf = 0%N /\ bv m b = None)
          \/ (exists l, bv m b = Some l /\ Z.of_nat (length l) = Z.of_N (nv m lf) /\ (0 < nv m lf)%N)).

Lemma recv_ok_inv2 lim hp stream exptype maxlen m0 m :
  fst (recv_g lim hp stream exptype maxlen m0) = ROk m ->
  exists hdr body rest m1 p1 m3 p3,
    stream = hdr ++ body ++ rest /\ length hdr = N.to_nat msg_hdr_size
    /\ fst (msg_unpack_g lim hp mt_hdr hdr (Z.of_N msg_hdr_size) m0) = UOk m1 p1
    /\ (exptype = mt_undef \/ nv m1 Ntype = exptype)
    /\ Z.of_nat (length body) = Z.of_N (nv m1 Npkt_len)
    /\ fst (msg_unpack_g lim hp (nv m1 Ntype) body (to_int (nv m1 Npkt_len)) (setb m1 Bpkt (Some []))) = UOk m3 p3
    /\ m = setn (setb m3 Bpkt None) Npkt_len 0%N.
Proof.
  unfold recv_g. set (hs := Z.of_N msg_hdr_size).
  destruct (Z.of_nat (length stream) <? hs) eqn:CS; [cbn; discriminate|].
  set (hdr := firstn (Z.to_nat hs) stream). set (rest := skipn (Z.to_nat hs) stream).
  destruct (fst (msg_unpack_g lim hp mt_hdr hdr hs m0)) as [m1 p1|e1 m1|m1] eqn:E1; [|cbn; discriminate..].
  destruct (negb (exptype =? mt_undef)%N && negb (nv m1 Ntype =? exptype)%N) eqn:CT; [cbn; discriminate|].
  destruct ((0 <? maxlen) && (Z.of_N (nv m1 Npkt_len) >? maxlen)) eqn:CM; [cbn; discriminate|].
  destruct (negb (hp (Z.of_N (nv m1 Npkt_len)))); [cbn; discriminate|].
  destruct (Z.of_nat (length rest) <? Z.of_N (nv m1 Npkt_len)) eqn:CL; [cbn; discriminate|].
  set (body := firstn (Z.to_nat (Z.of_N (nv m1 Npkt_len))) rest).
  destruct (fst (msg_unpack_g lim hp (nv m1 Ntype) body (to_int (nv m1 Npkt_len)) (setb m1 Bpkt (Some []))))
    as [m3 p3|e3 m3|m3] eqn:E3; cbn; [|discriminate..].
  intros H. inversion H.
  exists hdr, body, (skipn (Z.to_nat (Z.of_N (nv m1 Npkt_len))) rest), m1, p1, m3, p3.
  repeat split; auto.
  - subst body hdr rest. rewrite firstn_skipn, firstn_skipn. reflexivity.
  - subst hdr. rewrite firstn_length. subst hs. unfold msg_hdr_size in *. lia.
  - destruct (exptype =? mt_undef)%N eqn:A; [left; lia|]. right.
    destruct (nv m1 Ntype =? exptype)%N eqn:B; [lia|discriminate].
  - subst body. rewrite firstn_length. lia.
Qed.

Lemma msg_unpack_hdr_inv lim hp hdr q m0 m1 p1 :
  fst (msg_unpack_g lim hp mt_hdr hdr q m0) = UOk m1 p1 ->
  fst (unpack_list hp (unpack_fields_g lim T_HDR) hdr q 0 m0) = UOk m1 p1
  /\ nv m1 Nmagic = msg_magic /\ nv m1 Nversion = msg_version.
Proof.
  unfold msg_unpack_g. change (type_of_code mt_hdr) with (Some T_HDR). cbv beta iota zeta.
  destruct (fst (unpack_list hp (unpack_fields_g lim T_HDR) hdr q 0 m0)) as [m p|e m|m]; cbn [is_hdr andb];
    [|cbn; discriminate..].
  destruct (nv m Nmagic =? msg_magic)%N eqn:A; cbn [negb]; [|cbn; discriminate].
  destruct (nv m Nversion =? msg_version)%N eqn:B; cbn [negb]; [|cbn; discriminate].
  cbn [fst]. intros H. inversion H; subst. repeat split; lia.
Qed.

Lemma unpack_first_field lim hp t body q m m' p' : t <> T_HDR ->
  fst (unpack_list hp (unpack_fields_g lim t) body q 0 m) = UOk m' p' -> 1 <= q.
Proof.
  intros NH H. destruct t; [congruence|..]; cbn [unpack_fields_g unpack_list] in H.
  all: match type of H with fst (if ?c then _ else _) = _ => destruct c eqn:C; [discriminate|lia] end.
Qed.

Lemma code_of_not_undef t : code_of t <> mt_undef.
Proof. destruct t; vm_compute; discriminate. Qed.
Lemma code_of_inj a b : code_of a = code_of b -> a = b.
Proof. destruct a, b; vm_compute; congruence. Qed.

Lemma carries_n_tables lim t f : carries_n (unpack_fields_g lim t) f = carries_n (pack_fields t) f.
Proof. destruct t; reflexivity. Qed.
Lemma carries_b_tables lim t b : carries_b (unpack_fields_g lim t) b = carries_b (pack_fields t) b.
Proof. destruct t; reflexivity. Qed.

Lemma pack_list_final t m p q : t <> T_HDR ->
  pack_list (pack_fields t) (setn (setb m Bpkt None) Npkt_len 0%N) p q = pack_list (pack_fields t) m p q.
Proof. intros H. destruct t; [congruence|reflexivity..]. Qed.

Lemma heap_member_fresh t b lf : In (Var b lf Heap) (pack_fields t) -> b <> Bpkt /\ bv msg0 b = None /\ lf <> Npkt_len.
Proof.
  destruct t; cbn; intros H;
    repeat (destruct H as [H|H]; [try discriminate; inversion H; subst; repeat split; try discriminate; reflexivity|]);
    destruct H.
Qed.

Lemma hdr_decompose (hdr : bytes) lim hp m1 p1 :
  length hdr = N.to_nat msg_hdr_size ->
  fst (unpack_list hp (unpack_fields_g lim T_HDR) hdr (Z.of_N msg_hdr_size) 0 msg0) = UOk m1 p1 ->
  nv m1 Nmagic = msg_magic -> nv m1 Nversion = msg_version ->
  hdr = hdr_bytes (nv m1 Ntype) (nv m1 Nretry) (Z.of_N (nv m1 Npkt_len)) /\ (nv m1 Nretry < 256)%N
  /\ (nv m1 Npkt_len < 4294967296)%N.
Proof.
  intros L U HM HV.
  destruct hdr as [|a1 [|a2 [|a3 [|a4 [|a5 [|a6 [|a7 [|a8 [|a9 [|a10 [|a11 [|? ?]]]]]]]]]]]]; try discriminate L.
  unfold unpack_fields_g, sub in U. cbn in U. inversion U; subst m1 p1. clear U.
  cbn [nv setn nfld_eqb] in *.
  unfold hdr_bytes. rewrite N2Z.id. rewrite <- HM, <- HV, !be32_rd32, !n2b_b2n.
  repeat split; [apply b2n_lt|apply rd32_lt].
Qed.

Theorem recv_ok_carries lim hp stream t maxlen m : t <> T_HDR ->
  fst (recv_g lim hp stream (code_of t) maxlen msg0) = ROk m -> carries_msg t stream m.
Proof.
  intros NH R.
  apply recv_ok_inv2 in R. destruct R as (hdr & body & rest & m1 & p1 & m3 & p3 & ST & LH & E1 & TY & LB & E3 & ->).
  destruct TY as [TY|TY]; [exfalso; exact (code_of_not_undef t TY)|].
  apply msg_unpack_hdr_inv in E1. destruct E1 as (U1 & HM & HV).
  destruct (hdr_decompose hdr lim hp m1 p1 LH U1 HM HV) as (HD & RT & PL).
  apply msg_unpack_ok_inv in E3. destruct E3 as (t2 & T2 & U3).
  rewrite TY, type_of_code_of in T2. inversion T2; subst t2. clear T2.
  set (m2 := setb m1 Bpkt (Some [])) in *.
  set (q := to_int (nv m1 Npkt_len)) in *.
  pose proof (unpack_first_field lim hp t body q m2 m3 p3 NH U3) as Q1.
  assert (QE : q = Z.of_N (nv m1 Npkt_len)) by (subst q; apply to_int_nonneg_inv; [exact PL|lia]).
  pose proof (to_int_range (nv m1 Npkt_len)) as QR. fold q in QR.
  assert (Hq : q <= Z.of_nat (length body)) by lia.
  destruct (unpack_list_pack hp (unpack_fields_g lim t) body q Hq [] [] 0 m2 m3 p3 (tables_order lim t)
              ltac:(lia) U3) as (P0 & P1 & PK).
  (* members the header unpacker and the body unpacker leave alone *)
  assert (N1 : forall f, carries_n (unpack_fields_g lim T_HDR) f = false -> nv m1 f = nv msg0 f).
  { intros f C. pose proof (unpack_list_nv_other hp _ hdr (Z.of_N msg_hdr_size) f C 0 msg0) as X.
    rewrite U1 in X. exact X. }
  assert (B1 : forall b, bv m1 b = bv msg0 b).
  { intros b. exact (unpack_list_bv_other hp (unpack_fields_g lim T_HDR) hdr (Z.of_N msg_hdr_size) b eq_refl _ _ _ _ U1). }
  assert (L1 : err_local m1 = false).
  { pose proof (unpack_list_err_local hp (unpack_fields_g lim T_HDR) hdr (Z.of_N msg_hdr_size) 0 msg0) as X.
    rewrite U1 in X. exact X. }
  assert (N3 : forall f, carries_n (pack_fields t) f = false -> nv m3 f = nv m1 f).
  { intros f C. rewrite <- (carries_n_tables lim) in C.
    pose proof (unpack_list_nv_other hp _ body q f C 0 m2) as X. rewrite U3 in X. cbn [ures_msg] in X.
    rewrite X. subst m2. apply nv_setb. }
  assert (B3 : forall b, carries_b (pack_fields t) b = false -> bv m3 b = bv m2 b).
  { intros b C. rewrite <- (carries_b_tables lim) in C. exact (unpack_list_bv_other hp _ body q b C _ _ _ _ U3). }
  assert (L3 : err_local m3 = false).
  { pose proof (unpack_list_err_local hp (unpack_fields_g lim t) body q 0 m2) as X. rewrite U3 in X.
    cbn [ures_msg] in X. rewrite X. exact L1. }
  pose proof (unpack_list_consistent hp (unpack_fields_g lim t) body q Hq [] [] 0 m2 m3 p3
                (tables_order lim t) ltac:(intros ? []) ltac:(lia) U3) as CV.
  assert (NT : carries_n (pack_fields t) Ntype = false) by (destruct t; [congruence|reflexivity..]).
  assert (NR : carries_n (pack_fields t) Nretry = false) by (destruct t; [congruence|reflexivity..]).
  exists (nv m1 Nretry), body, rest, p3.
  split. { rewrite ST, HD, TY. do 3 f_equal. lia. }
  split; [exact RT|]. split; [lia|]. split; [lia|].
  split.
  { rewrite (pack_list_final t m3 0 _ NH), (pack_list_tables lim).
    replace (Z.of_nat (length body)) with q by lia. rewrite PK.
    unfold sub. rewrite Z.sub_0_r. reflexivity. }
  cbn [nv bv err_local setn setb nfld_eqb bfld_eqb].
  split. { rewrite (N3 Ntype NT). exact TY. }
  split. { apply (N3 Nretry NR). }
  split; [reflexivity|]. split; [reflexivity|]. split; [exact L3|].
  split.
  { intros f C CH. destruct (nfld_eqb_spec f Npkt_len) as [->|NP]; [discriminate CH|].
    rewrite (N3 f C). apply N1. rewrite carries_n_tables. exact CH. }
  split.
  { intros b C NB. destruct (bfld_eqb_spec b Bpkt) as [->|_]; [contradiction|].
    rewrite (B3 b C). subst m2. rewrite bv_setb_other by exact NB. apply B1. }
  intros b lf I. destruct (heap_member_fresh t b lf I) as (NB & FB & NL).
  destruct (nfld_eqb_spec lf Npkt_len) as [->|_]; [contradiction|].
  destruct (bfld_eqb_spec b Bpkt) as [->|_]; [contradiction|].
  destruct (CV b lf (in_heap_tables lim t b lf I)) as [[A B]|(l & A & B & D)].
  - left. split; [exact A|]. rewrite B. subst m2. rewrite bv_setb_other by exact NB. rewrite B1. exact FB.
  - right. exists l. repeat split; auto; lia.
Qed.
