(* KeyModel.v — executable model of key creation (src/mungekey/conf.c, key.c) and
   of the daemon's subkey derivation (src/munged/conf.c create_subkeys).  No
   proofs here.  Every number and flag below comes from gen/GenKeys.v, which is
   regenerated from the sources (and from running key.c with its syscalls
   interposed) on every check. *)
From Coq Require Import List NArith ZArith Bool Arith.
From Coq.Strings Require Import Byte.
From MV Require Import Bytes HkdfModel.
From MV.gen Require Import GenKeys.
Import ListNotations.

(* ---------------------------------------------------------------------- *)
(* mungekey/conf.c: --bits                                                 *)
(* ---------------------------------------------------------------------- *)

(* _conf_parse_bits_opt: _conf_set_int (&n, src, min, max) with
   min = MUNGE_KEY_LEN_MIN_BYTES * 8, max = MUNGE_KEY_LEN_MAX_BYTES * 8 (error
   exit when out of range), then n = (n + 7) / 8.  [bits] is the value strtol
   produced (strings that are not a decimal integer are rejected before). *)
Definition parse_bits (bits : Z) : option Z :=
  if (Z.ltb bits key_len_min_bits || Z.ltb key_len_max_bits bits)%bool then None
  else Some (Z.div (bits + 7) 8).

(* _conf_validate: key_num_bytes within [MIN_BYTES, MAX_BYTES] or error exit *)
Definition conf_validate (nbytes : Z) : bool :=
  negb (Z.ltb (Z.of_N key_len_max_bytes) nbytes) && negb (Z.ltb nbytes (Z.of_N key_len_min_bytes)).

(* parse_cmdline: no --bits => MUNGE_KEY_LEN_DFL_BYTES; result = confp->key_num_bytes
   of a run that reaches create_key, None = the program exits with an error *)
Definition key_num_bytes (bits : option Z) : option N :=
  let n := match bits with None => Some (Z.of_N key_len_dfl_bytes) | Some b => parse_bits b end in
  match n with
  | None => None
  | Some z => if conf_validate z then Some (Z.to_N z) else None
  end.

(* ---------------------------------------------------------------------- *)
(* key.c: _create_key_secret                                               *)
(* ---------------------------------------------------------------------- *)

(* snprintf "%d" of a non-negative int *)
Fixpoint dec_digits (fuel : nat) (n : N) (acc : bytes) : bytes :=
  match fuel with
  | O => acc
  | S f => let acc' := n2b (48 + N.modulo n 10) :: acc in
           if N.eqb (N.div n 10) 0 then acc' else dec_digits f (N.div n 10) acc'
  end.
Definition decimal (n : N) : bytes := dec_digits 20 n [].

(* info = "<prefix>:<md_str>:<num_bits>:" with num_bits = buflen * 8; prefix
   (including the digest name) and suffix are taken from a run of key.c *)
Definition key_info (nbytes : N) : bytes :=
  map n2b key_info_prefix ++ decimal (nbytes * 8) ++ map n2b key_info_suffix.

(* mac_size (md) as the running code reported it (0 = unsupported digest) *)
Definition digest_len (md : N) : N :=
  match find (fun e => N.eqb (fst (fst e)) md) digest_sizes with
  | Some e => snd (fst e)
  | None => 0%N
  end.

Section KeySecret.
  Variable hmac : bytes -> bytes -> bytes.
  Variable hash_len : nat.
  (* ikm = the ENTROPY_NUM_BYTES_GUARANTEED bytes entropy_read() returned from the
     kernel; salt = the memory image of the unsigned int entropy_read_uint() made *)
  Definition key_secret (ikm salt : bytes) (nbytes : nat) : option bytes :=
    hkdf hmac hash_len (Some salt) (Some ikm) (key_info (N.of_nat nbytes)) nbytes.
End KeySecret.

(* ---------------------------------------------------------------------- *)
(* a tiny file system: name -> option (mode, content)                      *)
(* ---------------------------------------------------------------------- *)
Notation path := N.
Record file := mkfile { f_mode : N; f_data : bytes }.
Notation fsys := (path -> option file).

Definition fs_set (fs : fsys) (p : path) (v : option file) : fsys :=
  fun q => if N.eqb q p then v else fs q.

(* unlink(2): removes the name; ENOENT when absent (key.c ignores ENOENT) *)
Definition sys_unlink (fs : fsys) (p : path) : fsys := fs_set fs p None.

(* open(2) with O_WRONLY and the given O_CREAT/O_EXCL/O_TRUNC; a created file
   gets mode & ~umask (POSIX); None = -1 (EEXIST or ENOENT) *)
Definition sys_open (fs : fsys) (p : path) (creat excl trunc : bool) (mode umask : N) : option fsys :=
  match fs p with
  | Some f => if creat && excl then None
              else Some (if trunc then fs_set fs p (Some (mkfile (f_mode f) [])) else fs)
  | None => if creat then Some (fs_set fs p (Some (mkfile (N.ldiff mode umask) []))) else None
  end.

(* write(2) of [d] at offset 0 on a fresh descriptor: overwrites the prefix *)
Definition sys_write (fs : fsys) (p : path) (d : bytes) : fsys :=
  match fs p with
  | Some f => fs_set fs p (Some (mkfile (f_mode f) (d ++ skipn (length d) (f_data f))))
  | None => fs
  end.

(* key.c create_key: [unlink if --force]; open; _create_key_secret; fd_write_n
   of key_num_bytes; close.  Any failure is a log_err exit (false) that leaves
   the file system as it is at that point.  [secret] is what
   _create_key_secret put into buf (None = it failed). *)
Definition create_key (fs : fsys) (p : path) (force : bool) (umask : N) (nbytes : nat)
           (secret : option bytes) : bool * fsys :=
  let fs1 := if (if force then key_force_unlinks else key_noforce_unlinks)
             then sys_unlink fs p else fs in
  match sys_open fs1 p key_open_creat key_open_excl key_open_trunc key_open_mode umask with
  | None => (false, fs1)
  | Some fs2 =>
    match secret with
    | None => (false, fs2)
    | Some s => (true, sys_write fs2 p (firstn nbytes s))
    end
  end.

(* ---------------------------------------------------------------------- *)
(* munged/conf.c create_subkeys                                            *)
(* ---------------------------------------------------------------------- *)
Section Subkeys.
  (* streaming digest: md_init / md_update / md_final (md_copy duplicates a state) *)
  Variable st : Type.
  Variable hinit : st.
  Variable hupd : st -> bytes -> st.
  Variable hfin : st -> bytes.

  (* read (fd, buf, sizeof buf) until it returns 0: full reads on a regular file *)
  Fixpoint read_chunks (fuel n : nat) (l : bytes) : list bytes :=
    match fuel with
    | O => []
    | S f => match l with
             | [] => []
             | _ => firstn n l :: read_chunks f n (skipn n l)
             end
    end.

  (* the loop for an arbitrary sequence of read() results [cs] (short reads
     included): md_update per chunk, n_total += n; then the minimum-length
     check; then md_copy, update "1" / "2", final. *)
  Definition subkeys_of_chunks (cs : list bytes) : option (bytes * bytes) :=
    let ctx := fold_left hupd cs hinit in
    let n_total := fold_left (fun a c => a + length c) cs 0 in
    if Nat.ltb n_total (N.to_nat key_len_min_bytes) then None
    else Some (hfin (hupd ctx ["1"%byte]), hfin (hupd ctx ["2"%byte])).

  Definition subkeys_buf : nat := 1024.   (* unsigned char buf[1024] *)

  Definition create_subkeys (content : bytes) : option (bytes * bytes) :=
    subkeys_of_chunks (read_chunks (S (length content)) subkeys_buf content).

  (* what the property says: the whole file keys the daemon *)
  Definition H (x : bytes) : bytes := hfin (hupd hinit x).
  Definition subkeys_spec (content : bytes) : option (bytes * bytes) :=
    if Nat.ltb (length content) 32 then None
    else Some (H (content ++ ["1"%byte]), H (content ++ ["2"%byte])).
End Subkeys.
