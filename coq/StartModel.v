(* StartModel.v — executable model of munged's start-up / shutdown with respect to the socket,
   its lock file, the pid file and the seed file (src/munged/munged.c: sock_create, write_pidfile,
   sock_destroy, main; lock.c: lock_create; conf.c: destroy_conf; random.c: random_fini).  No proofs.

   File system = names -> inodes, per-inode fcntl lock owner, per-socket-inode listener, pid-file
   content.  Any number of processes each run the same *program* (a list of primitive steps, data, so
   that it can be compared with an strace of the real daemon); any process may take its next step at any
   time (label Step), may be SIGKILLed at any time (label Crash: the kernel drops its locks and
   descriptors, files stay) and a serving process may be asked to stop (label Term).
   What lock.c asks the kernel for (flags, mode, lock shape, behaviour on EAGAIN) and whether random.c's seed
   reader returns on an empty / short / complete seed file come from gen/GenStart.v, regenerated from the source
   on every run.

   Granularity: every system call of start-up and shutdown that changes the file system or the socket is a step
   of its own, so that SIGKILL (label Crash, enabled in every state) falls after each of them: in particular
   open(pid)/write(pid) and unlink(seed)/open(seed)/write(seed) are separate, and the states "pid file empty" and
   "seed file empty" (killed between the open and the write) exist.  The close() of the pid and seed descriptors
   changes nothing in the file system and shares the kill point of the preceding write.  A file's [content] is
   None while it is empty / incomplete and Some p once process p has written it completely: for the seed file
   this is the generation that wrote it.  The reads of start-up (lstat/open/fstat/read/close of the old seed,
   random.c random_init) are the single step ReadSeed: it changes nothing; whether it returns on the file it finds
   is a regenerated fact.  (random.c unlinks a seed file with wrong owner/permissions before the lock is taken;
   munged creates its seed with mode 0600 and its own uid, so this branch is not reachable from the states the
   program produces and is not modelled.)  Writes to the pid / seed file go through the name, not a descriptor. *)
From Coq Require Import List Arith NArith Bool.
From MV.gen Require Import GenStart.
Import ListNotations.

Inductive name := NLock | NSock | NPid | NSeed.
Definition name_eqb (a b : name) : bool :=
  match a, b with
  | NLock, NLock | NSock, NSock | NPid, NPid | NSeed, NSeed => true
  | _, _ => false
  end.

Inductive kind := Reg | Sock.
Record inode := mkIno { ikind : kind; imode : N }.

(* the step alphabet *)
Inductive prim :=
| ReadSeed            (* lstat, open (seed, O_RDONLY), fstat, read ... until seed_bytes or EOF, close *)
| OpenLock            (* open (lock, O_WRONLY|O_CREAT|O_TRUNC, 0200) *)
| FstatLock           (* fstat (fd): regular file, mode 0200, owner *)
| SetLk               (* fcntl (fd, F_SETLK, F_WRLCK whole file); busy => log_err => exit *)
| Unlink (n : name)   (* unlink (name), ENOENT tolerated *)
| Bind                (* socket + bind (name): creates the socket inode; EADDRINUSE => exit *)
| Listen
| OpenPid             (* fopen (pid, "w") = open (pid, O_WRONLY|O_CREAT|O_TRUNC): the file exists, empty *)
| WritePid            (* fprintf; fclose: write (fd, "<pid>\n"); close *)
| Serve               (* job_accept: blocks until SIGTERM/SIGINT *)
| CloseSock
| CloseLock           (* close (lockfile_fd): releases the lock *)
| OpenSeed            (* open (seed, O_WRONLY|O_CREAT|O_TRUNC, 0600): the file exists, empty *)
| WriteSeed           (* write (fd, seed_bytes random bytes); close *)
| Exit.

Definition startup : list prim :=
  [ReadSeed; OpenLock; FstatLock; SetLk; Unlink NSock; Bind; Listen; Unlink NPid; OpenPid; WritePid].
Definition shutdown : list prim :=
  [Unlink NSock; CloseSock; Unlink NLock; CloseLock; Unlink NSeed; OpenSeed; WriteSeed; Unlink NPid; Exit].
Definition prog : list prim := startup ++ [Serve] ++ shutdown.
Definition serve_pc : nat := length startup.

Inductive status := NotStarted | Running | Failed | Exited | Killed.
Record proc := mkProc { st : status; pc : nat; lockfd : option nat; sockfd : option nat }.

Record state := mkState {
  names    : name -> option nat;     (* directory entries of the four path names *)
  inodes   : nat -> inode;
  lockown  : nat -> option nat;      (* inode -> process holding the fcntl write lock *)
  listener : nat -> option nat;      (* socket inode -> process listening on it *)
  content  : nat -> option nat;      (* pid / seed inode -> process that wrote it completely; None = empty *)
  next     : nat;                    (* next unused inode number *)
  procs    : nat -> proc }.

Definition upd {A} (f : nat -> A) (k : nat) (v : A) : nat -> A :=
  fun x => if Nat.eqb x k then v else f x.
Definition updn {A} (f : name -> A) (k : name) (v : A) : name -> A :=
  fun x => if name_eqb x k then v else f x.
(* drop everything process p holds *)
Definition clear (f : nat -> option nat) (p : nat) : nat -> option nat :=
  fun x => match f x with Some q => if Nat.eqb q p then None else Some q | None => None end.
(* drop what p holds on inode i *)
Definition release1 (f : nat -> option nat) (i p : nat) : nat -> option nat :=
  fun x => if Nat.eqb x i then (match f x with Some q => if Nat.eqb q p then None else Some q | None => None end)
           else f x.

Definition set_names s v := mkState v (inodes s) (lockown s) (listener s) (content s) (next s) (procs s).
Definition set_lockown s v := mkState (names s) (inodes s) v (listener s) (content s) (next s) (procs s).
Definition set_listener s v := mkState (names s) (inodes s) (lockown s) v (content s) (next s) (procs s).
Definition set_content s v := mkState (names s) (inodes s) (lockown s) (listener s) v (next s) (procs s).
Definition set_proc s p pr :=
  mkState (names s) (inodes s) (lockown s) (listener s) (content s) (next s) (upd (procs s) p pr).
(* create name n -> fresh inode *)
Definition alloc s n nd :=
  mkState (updn (names s) n (Some (next s))) (upd (inodes s) (next s) nd)
          (lockown s) (listener s) (content s) (S (next s)) (procs s).
Definition set_lockfd pr v := mkProc (st pr) (pc pr) v (sockfd pr).
Definition set_sockfd pr v := mkProc (st pr) (pc pr) (lockfd pr) v.

(* process exit of any kind: the kernel closes descriptors and drops locks; files stay *)
Definition die s p how :=
  mkState (names s) (inodes s) (clear (lockown s) p) (clear (listener s) p) (content s) (next s)
          (upd (procs s) p (mkProc how (pc (procs s p)) None None)).

Inductive outcome := Cont (s : state) (pr : proc) | Fail (s : state) | Done (s : state) | Block.

Definition kind_is_reg k := match k with Reg => true | Sock => false end.
Definition lock_inode := mkIno Reg lock_create_mode.
Definition stat_ok (nd : inode) : bool :=
  (kind_is_reg (ikind nd) || lock_stat_accepts_nonregular) && existsb (N.eqb (imode nd)) lock_stat_accepts.

Definition exec (s : state) (p : nat) (pr : proc) (a : prim) : outcome :=
  match a with
  | ReadSeed =>
      match names s NSeed with
      | None => Cont s pr                (* ENOENT: no seed to read *)
      | Some f => if (match content s f with Some _ => seed_read_full_returns | None => seed_read_short_returns end)
                  then Cont s pr else Block          (* a read loop that never ends *)
      end
  | OpenLock =>
      match names s NLock with
      | Some i => if lock_open_excl then Fail s else Cont s (set_lockfd pr (Some i))
      | None => if lock_open_creat
                then Cont (alloc s NLock lock_inode) (set_lockfd pr (Some (next s)))
                else Fail s
      end
  | FstatLock =>
      match lockfd pr with
      | Some i => if stat_ok (inodes s i) then Cont s pr else Fail s
      | None => Fail s
      end
  | SetLk =>
      match lockfd pr with
      | Some i =>
          if lock_type_exclusive && lock_whole_file then
            match lockown s i with
            | None => Cont (set_lockown s (upd (lockown s) i (Some p))) pr
            | Some q => if Nat.eqb q p then Cont s pr
                        else if lock_cmd_nonblocking
                             then (if lock_busy_exits then Fail s else Cont s pr)
                             else Block
            end
          else Cont s pr                 (* a shared or partial lock excludes nobody *)
      | None => Fail s
      end
  | Unlink n => Cont (set_names s (updn (names s) n None)) pr
  | Bind =>
      match names s NSock with
      | Some _ => Fail s                 (* EADDRINUSE *)
      | None => Cont (alloc s NSock (mkIno Sock 511)) (set_sockfd pr (Some (next s)))
      end
  | Listen =>
      match sockfd pr with
      | Some j => Cont (set_listener s (upd (listener s) j (Some p))) pr
      | None => Fail s
      end
  | OpenPid =>
      match names s NPid with
      | Some f => Cont (set_content s (upd (content s) f None)) pr                       (* O_TRUNC *)
      | None => Cont (set_content (alloc s NPid (mkIno Reg 420)) (upd (content s) (next s) None)) pr
      end
  | WritePid =>
      match names s NPid with
      | Some f => Cont (set_content s (upd (content s) f (Some p))) pr
      | None => Cont s pr
      end
  | Serve => Block
  | CloseSock =>
      match sockfd pr with
      | Some j => Cont (set_listener s (release1 (listener s) j p)) (set_sockfd pr None)
      | None => Cont s pr
      end
  | CloseLock =>
      match lockfd pr with
      | Some i => Cont (set_lockown s (release1 (lockown s) i p)) (set_lockfd pr None)
      | None => Cont s pr
      end
  | OpenSeed =>
      match names s NSeed with
      | Some f => Cont (set_content s (upd (content s) f None)) pr                       (* O_TRUNC *)
      | None => Cont (set_content (alloc s NSeed (mkIno Reg 384)) (upd (content s) (next s) None)) pr
      end
  | WriteSeed =>
      match names s NSeed with
      | Some f => Cont (set_content s (upd (content s) f (Some p))) pr
      | None => Cont s pr
      end
  | Exit => Done s
  end.

Inductive label := Step (p : nat) | Crash (p : nat) | Term (p : nat).

Definition startable (pr : proc) : bool :=
  match st pr with NotStarted | Running => true | _ => false end.

Definition step (s : state) (l : label) : option state :=
  match l with
  | Step p =>
      let pr := procs s p in
      if startable pr then
        match nth_error prog (pc pr) with
        | Some a =>
            match exec s p pr a with
            | Cont s' pr' => Some (set_proc s' p (mkProc Running (S (pc pr)) (lockfd pr') (sockfd pr')))
            | Fail s' => Some (die s' p Failed)
            | Done s' => Some (die s' p Exited)
            | Block => None
            end
        | None => None
        end
      else None
  | Term p =>
      let pr := procs s p in
      match st pr, nth_error prog (pc pr) with
      | Running, Some Serve => Some (set_proc s p (mkProc Running (S (pc pr)) (lockfd pr) (sockfd pr)))
      | _, _ => None
      end
  | Crash p =>
      match st (procs s p) with
      | Running => Some (die s p Killed)
      | _ => None
      end
  end.

Fixpoint run (s : state) (sched : list label) : option state :=
  match sched with
  | [] => Some s
  | l :: r => match step s l with Some s' => run s' r | None => None end
  end.

Definition init : state :=
  mkState (fun _ => None) (fun _ => mkIno Reg 0) (fun _ => None) (fun _ => None) (fun _ => None) 0
          (fun _ => mkProc NotStarted 0 None None).

(* ---- observations ---- *)
Definition is_term (l : label) : bool := match l with Term _ => true | _ => false end.
(* the property's quantifier: interleavings of starts and SIGKILLs *)
Definition starts_and_crashes (sched : list label) : bool := forallb (fun l => negb (is_term l)) sched.

(* p is a live daemon that has completed start-up and not begun to stop *)
Definition at_serve (s : state) (p : nat) : bool :=
  match st (procs s p) with Running => Nat.eqb (pc (procs s p)) serve_pc | _ => false end.

Definition opt_is (o : option nat) (v : nat) : bool :=
  match o with Some x => Nat.eqb x v | None => false end.

(* the daemon reachable through the path names is p: lock named and held by p, socket named and
   listened on by p, pid file named and naming p *)
Definition serving (s : state) (p : nat) : bool :=
  at_serve s p
  && match names s NLock with Some i => opt_is (lockown s i) p && opt_is (lockfd (procs s p)) i | None => false end
  && match names s NSock with Some j => opt_is (listener s j) p && opt_is (sockfd (procs s p)) j | None => false end
  && match names s NPid with Some f => opt_is (content s f) p | None => false end.

(* steps that unlink, bind or write one of the socket / pid / seed names, or unlink the lock name *)
Definition mutating (a : prim) : bool :=
  match a with Unlink _ | Bind | OpenPid | WritePid | OpenSeed | WriteSeed => true | _ => false end.

Definition next_prim (s : state) (p : nat) : option prim := nth_error prog (pc (procs s p)).

(* a whole life of one daemon: start, be told to stop, stop *)
Definition life (p : nat) : list label :=
  repeat (Step p) serve_pc ++ [Term p] ++ repeat (Step p) (length shutdown).

(* finding F-C15-unlink: A serves; B reads the seed and opens the lock file; A stops cleanly; B goes on; C starts *)
Definition overlap_sched (a b c : nat) : list label :=
  repeat (Step a) serve_pc ++ [Step b; Step b] ++ [Term a] ++ repeat (Step a) (length shutdown)
  ++ repeat (Step b) (serve_pc - 2) ++ repeat (Step c) serve_pc.

(* finding F-C15-pidfile-late-unlink: A serves and is told to stop; it runs sock_destroy to the end (unlink socket,
   close, unlink lock file, close lock descriptor = lock released) and is then slow (timer_fini .. random_fini); B
   starts without --force: new lock file, lock, bind, unlinks A's pid file, writes its own, serves; A finishes:
   writes the seed and — destroy_conf (conf, 1), the very last thing — unlinks the pid file by name: B's. *)
Definition late_unlink_sched (a b : nat) : list label :=
  repeat (Step a) serve_pc ++ [Term a] ++ repeat (Step a) 4
  ++ repeat (Step b) serve_pc ++ repeat (Step a) (length shutdown - 4).

(* p has written its pid file and it is still there, naming p *)
Definition has_pidfile (s : state) (p : nat) : bool :=
  match names s NPid with Some f => opt_is (content s f) p | None => false end.

(* printable observation of one process and of the names, for the oracle *)
Definition status_code (x : status) : nat :=
  match x with NotStarted => 0 | Running => 1 | Failed => 2 | Exited => 3 | Killed => 4 end.
Definition obs_proc (s : state) (p : nat) : nat * nat * bool :=
  (status_code (st (procs s p)), pc (procs s p), serving s p).
Definition obs_names (s : state) : list (option nat) :=
  [names s NLock; names s NSock; names s NPid; names s NSeed].
Definition pid_content (s : state) : option nat :=
  match names s NPid with Some f => content s f | None => None end.
(* who wrote the seed file the seed name leads to (None: no seed file, or an empty one) *)
Definition seed_content (s : state) : option nat :=
  match names s NSeed with Some f => content s f | None => None end.
Definition sock_listener (s : state) : option nat :=
  match names s NSock with Some j => listener s j | None => None end.
Definition lock_holder (s : state) : option nat :=
  match names s NLock with Some i => lockown s i | None => None end.
