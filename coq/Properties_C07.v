(* Properties_C07.v — statements only; component level (src/munged/replay.c + hash.c, model: ReplayModel).
   "Replay memory lasts as long as the credential could still be valid": what replay_purge /
   replay_is_expired / hash_delete_if contribute.  Histories are arbitrary lists of events
     EPresent k (replay_insert) | EFail k | ERemove k (replay_remove) | EPurge (replay_purge, reads the
     clock) | ETick d (clock += d, so the clock never goes back)
   over (table, clock); purge events may sit anywhere relative to a key's expiry second.
   The decode-time check (t <= time0 + ttl', C06) and that m->ttl is already capped when replay_insert reads
   it are pipeline-level facts appended by the maintainer; here a key's last valid second is snd k. *)
From Coq Require Import List NArith Bool.
From Coq.Strings Require Import Byte.
From MV Require Import Bytes ReplayModel ReplayProofs.
From MV.gen Require Import GenReplay.
Import ListNotations.
Local Open Scope N_scope.

(* the expiry recorded with a key is exactly time0 + ttl (formed in time_t: no 32-bit wrap), ttl being the
   value the caller left in m->ttl, i.e. already capped by dec_validate_time *)
Theorem C07_key_expiry_exact : forall (mac : bytes) (time0 ttl : N),
  snd (mk_key mac (t_expired_of time0 ttl)) = time0 + ttl.
Proof. intros mac time0 ttl. exact (key_expiry_exact time0 ttl). Qed.
Print Assumptions C07_key_expiry_exact.

(* a purge at `now` keeps exactly the keys with now <= t_expired, in their order, and count goes down by
   the number returned (hash_delete_if's n) *)
Theorem C07_purge_exact : forall (slot_of : rkey -> nat) (nslots : nat), slots_ok slot_of nslots ->
  forall (t : rtable) (now : N), rinv slot_of nslots t ->
  rinv slot_of nslots (snd (replay_purge now t)) /\
  abs (snd (replay_purge now t)) = filter (fun k => now <=? snd k) (abs t) /\
  (forall k, In k (abs (snd (replay_purge now t))) <-> In k (abs t) /\ now <= snd k) /\
  fst (replay_purge now t) = N.of_nat (length (filter (fun k => snd k <? now) (abs t))) /\
  count (snd (replay_purge now t)) + fst (replay_purge now t) = count t.
Proof. exact purge_exact. Qed.
Print Assumptions C07_purge_exact.

(* once k has been presented (h1 ++ [EPresent k]), every later presentation at any clock value up to and
   including t_expired k is answered Exists and leaves the table unchanged — whatever happens in between
   (h2: presentations, failures, removals of other keys, any number of purges at any clock values, ticks),
   provided only that the record is not withdrawn by replay_remove k (reply could not be delivered) *)
Theorem C07_replay_until_last_valid_second : forall (slot_of : rkey -> nat) (nslots : nat),
  slots_ok slot_of nslots ->
  forall (st0 : rstate) (h1 h2 : list event) (k : rkey), rinv slot_of nslots (tbl st0) ->
  Forall (fun e => ~ removes k e) h2 ->
  let st1 := final slot_of st0 (h1 ++ [EPresent k]) in
  let st2 := final slot_of st1 h2 in
  clock st2 <= snd k ->
  snd (step slot_of st2 (EPresent k)) = OExists /\ tbl (fst (step slot_of st2 (EPresent k))) = tbl st2.
Proof. exact replay_until_last_valid_second. Qed.
Print Assumptions C07_replay_until_last_valid_second.

(* records are discarded then: after a purge at clock p no key with t_expired < p remains *)
Theorem C07_discarded_then : forall (slot_of : rkey -> nat) (nslots : nat), slots_ok slot_of nslots ->
  forall st : rstate, rinv slot_of nslots (tbl st) ->
  forall k, In k (abs (tbl (fst (step slot_of st EPurge)))) -> clock st <= snd k.
Proof. exact discarded_then. Qed.
Print Assumptions C07_discarded_then.

(* retention bound.  Premise (the caller's time check): a record is only created at a second td with
   t_expired <= td + w  (w = max_ttl for credentials that are not future-dated, <= 2*max_ttl under clock
   skew tolerance, DESIGN.md C07).  Then, from the empty table, after any history: every record present was
   created at a logged second td <= now, and either it has not met a purge yet (last purge <= td) or it
   survived the last purge because last purge <= t_expired; so last purge <= td + w; the table holds no
   more records than were created since (last purge - w); and if purges are at most p seconds apart
   (now <= last purge + p; p = replay_purge_secs when the timer is punctual) no more than were created
   during the last w + p seconds. *)
Theorem C07_cache_bound : forall (slot_of : rkey -> nat) (nslots : nat), slots_ok slot_of nslots ->
  forall (w c0 : N) (h : list event), admissible slot_of w (mkS (create nslots) c0) h ->
  let g := grun slot_of (ginit nslots c0) h in
  let now := clock (gst g) in
  (forall k, In k (abs (tbl (gst g))) ->
     exists td, In (k, td) (glog g) /\ td <= now /\ snd k <= td + w /\ (glast g <= snd k \/ glast g <= td)) /\
  (forall k, In k (abs (tbl (gst g))) -> exists td, In (k, td) (glog g) /\ td <= now /\ glast g <= td + w) /\
  count (tbl (gst g)) <= N.of_nat (length (filter (fun p => glast g <=? snd p + w) (glog g))) /\
  (forall p, now <= glast g + p ->
     count (tbl (gst g)) <= N.of_nat (length (filter (fun q => now <=? snd q + w + p) (glog g)))).
Proof. exact cache_bound. Qed.
Print Assumptions C07_cache_bound.

(* non-vacuity: t_expired = 100; purges at 41, 100 (the last valid second) and 101, the C slot function:
   the record is reported at 100 after two purges, and only the purge at 101 discards it *)
Example C07_boundary_example :
  let k : rkey := mk_key (map n2b [1; 2; 3; 4; 5; 6; 7; 8; 9; 10; 11; 12; 13; 14; 15; 16; 17]) 100 in
  snd (run (c_slot 7) (mkS (create 7) 40)
           [EPresent k; ETick 1; EPurge; ETick 59; EPurge; EPresent k; ETick 1; EPurge; EPresent k]) =
    [OInserted; ONone; OPurged 0; ONone; OPurged 0; OExists; ONone; OPurged 1; OInserted].
Proof. vm_compute. reflexivity. Qed.
