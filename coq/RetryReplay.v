(* RetryReplay.v — the roll-back of the replay record (dec_process_msg: replay_remove after a failed m_msg_send)
   on the real data structure: the chained hash table of hash.c with the callbacks of replay.c (ReplayModel),
   for EVERY prior contents of the table and EVERY collision pattern (arbitrary slot function).

   - remove-after-insert gives back exactly the table that was there before the decode (chains, order, count);
   - this stays true when other credentials are decoded, rolled back, purged, and the clock moves, between the
     insert and the roll-back: the final state is the one of the history without the undeliverable decode;
   - a retried decode that was let through as a retry (the record of the earlier attempt is there) and whose
     reply cannot be sent takes exactly that record away and nothing else. *)
From Coq Require Import List NArith Bool Arith Sorted Lia Permutation.
From Coq.Strings Require Import Byte.
From MV Require Import Bytes ReplayModel ReplayProofs.
From MV.gen Require Import GenReplay.
Import ListNotations.
Local Open Scope N_scope.

Lemma upd_upd {A} s (c c' : A) cs : upd s c (upd s c' cs) = upd s c cs.
Proof. revert s; induction cs as [|x r IH]; intros [|s]; cbn; auto. now rewrite IH. Qed.

Lemma upd_nth_same {A} s (d : A) cs : upd s (nth s cs d) cs = cs.
Proof. revert s; induction cs as [|x r IH]; intros [|s]; cbn; auto. now rewrite IH. Qed.

Lemma list_ext_nth {A} (d : A) (l1 l2 : list A) :
  length l1 = length l2 -> (forall i, nth i l1 d = nth i l2 d) -> l1 = l2.
Proof.
  revert l2; induction l1 as [|x r IH]; intros [|y r2] Hl Hn; cbn in Hl; try discriminate; [reflexivity|].
  f_equal.
  - exact (Hn 0%nat).
  - apply IH; [now injection Hl|]. intros i. exact (Hn (S i)).
Qed.

Section HashRollback.
  Variable K : Type.
  Variable cmp : K -> K -> comparison.
  Variable slot_of : K -> nat.
  Variable nslots : nat.
  Hypothesis cmp_eq : forall a b, cmp a b = Eq <-> a = b.
  Hypothesis cmp_antisym : forall a b, cmp b a = CompOpp (cmp a b).
  Hypothesis cmp_trans : forall a b c, cmp a b = Lt -> cmp b c = Lt -> cmp a c = Lt.
  Hypothesis slots : forall k, (slot_of k < nslots)%nat.

  Notation lt := (fun a b => cmp a b = Lt).
  Notation sorted := (StronglySorted lt).
  Notation cins := (chain_insert K cmp).
  Notation crem := (chain_remove K cmp).
  Notation inv := (table_inv K cmp slot_of nslots).

  (* hash_remove finds the node hash_insert linked in, wherever in the chain it went: before the head, between
     two nodes, after the last *)
  Lemma crem_cins k c : fst (cins k c) = Inserted -> crem k (snd (cins k c)) = (true, c).
  Proof.
    induction c as [|p r IH]; cbn.
    - intros _. now rewrite (proj2 (cmp_eq k k) eq_refl).
    - destruct (cmp p k) eqn:E; cbn.
      + discriminate.
      + destruct (cins k r) as [res r'] eqn:Er. cbn in *. intros H. rewrite E. now rewrite (IH H).
      + intros _. now rewrite (proj2 (cmp_eq k k) eq_refl).
  Qed.

  Theorem remove_insert t k : inv t -> fst (insert K cmp slot_of k t) = Inserted ->
    remove K cmp slot_of k (snd (insert K cmp slot_of k t)) = (true, t).
  Proof.
    intros (Hl & _ & _). unfold insert.
    pose proof (crem_cins k (get (slot_of k) (chains t))) as R.
    destruct (cins k (get (slot_of k) (chains t))) as [res c'] eqn:Ec. cbn [fst snd] in R.
    destruct res; cbn [fst snd]; [|discriminate]. intros _. specialize (R eq_refl).
    unfold remove. cbn [chains count].
    assert (Hlt : (slot_of k < length (chains t))%nat) by (rewrite Hl; apply slots).
    unfold get at 1. rewrite nth_upd_same by exact Hlt. rewrite R.
    rewrite upd_upd. unfold get. rewrite upd_nth_same.
    destruct t as [cs n]. cbn [chains count]. f_equal. f_equal. lia.
  Qed.

  (* two sorted duplicate-free chains with the same members are the same chain *)
  Lemma sorted_ext c1 : forall c2, sorted c1 -> sorted c2 -> (forall x, In x c1 <-> In x c2) -> c1 = c2.
  Proof.
    induction c1 as [|p r IH]; intros [|q r2] S1 S2 E.
    - reflexivity.
    - exfalso. apply (proj2 (E q)). now left.
    - exfalso. apply (proj1 (E p)). now left.
    - apply StronglySorted_inv in S1. destruct S1 as [S1 F1]. rewrite Forall_forall in F1.
      apply StronglySorted_inv in S2. destruct S2 as [S2 F2]. rewrite Forall_forall in F2.
      assert (Hpq : p = q).
      { destruct (proj1 (E p) (or_introl eq_refl)) as [->|Hp]; [reflexivity|].
        destruct (proj2 (E q) (or_introl eq_refl)) as [->|Hq]; [reflexivity|].
        pose proof (F2 p Hp) as A. pose proof (F1 q Hq) as B.
        rewrite cmp_antisym, A in B. discriminate. }
      subst q. f_equal. apply IH; [exact S1|exact S2|].
      intros x. split; intros Hx.
      + destruct (proj1 (E x) (or_intror Hx)) as [<-|H]; [|exact H].
        pose proof (F1 p Hx) as A. rewrite (proj2 (cmp_eq p p) eq_refl) in A. discriminate.
      + destruct (proj2 (E x) (or_intror Hx)) as [<-|H]; [|exact H].
        pose proof (F2 p Hx) as A. rewrite (proj2 (cmp_eq p p) eq_refl) in A. discriminate.
  Qed.

  Lemma in_chain_abs t x s : inv t -> (In x (get s (chains t)) <-> In x (abs t) /\ slot_of x = s).
  Proof.
    intros H. pose proof H as (_ & Hc & _). split.
    - intros Hx. destruct (Hc s) as [_ Hf]. rewrite Forall_forall in Hf. pose proof (Hf x Hx) as Es.
      split; [|exact Es]. unfold abs. apply in_concat_nth. exists s. exact Hx.
    - intros [Hx <-]. now apply (abs_in K cmp slot_of nslots t x H).
  Qed.

  (* the table is a canonical form of its set of keys *)
  Theorem table_ext t1 t2 : inv t1 -> inv t2 -> (forall x, In x (abs t1) <-> In x (abs t2)) -> t1 = t2.
  Proof.
    intros H1 H2 E. pose proof H1 as (L1 & C1 & N1). pose proof H2 as (L2 & C2 & N2).
    assert (Ec : chains t1 = chains t2).
    { apply (list_ext_nth []); [congruence|]. intros s. fold (get s (chains t1)). fold (get s (chains t2)).
      destruct (C1 s) as [S1 _]. destruct (C2 s) as [S2 _]. apply sorted_ext; [exact S1|exact S2|].
      intros x. rewrite (in_chain_abs t1 x s H1), (in_chain_abs t2 x s H2). now rewrite E. }
    destruct t1 as [cs1 n1], t2 as [cs2 n2]. cbn [chains count] in *. subst cs2. f_equal. unfold abs in N1, N2. cbn [chains] in N1, N2. congruence.
  Qed.
End HashRollback.

Section ReplayRollback.
  Variable slot_of : rkey -> nat.
  Variable nslots : nat.
  Hypothesis Hs : slots_ok slot_of nslots.

  Notation inv := (rinv slot_of nslots).
  Notation rins := (replay_insert slot_of).
  Notation rrem := (replay_remove slot_of).
  Notation rstep := (step slot_of).
  Notation rrun := (run slot_of).
  Notation rfinal := (final slot_of).

  (* a first decode whose reply cannot be sent: replay_insert, then replay_remove *)
  Theorem rollback_restores_table t k : inv t -> ~ In k (abs t) ->
    fst (rins k t) = Inserted /\ rrem k (snd (rins k t)) = (true, t).
  Proof.
    intros H Hn. assert (E : fst (rins k t) = Inserted) by (now apply (rins_new slot_of nslots Hs t k H)).
    split; [exact E|].
    exact (remove_insert rkey replay_cmp slot_of nslots replay_cmp_eq replay_cmp_antisym replay_cmp_trans Hs t k H E).
  Qed.

  Theorem rollback_restores_state st k : inv (tbl st) -> ~ In k (abs (tbl st)) ->
    rrun st [EPresent k; ERemove k] = (st, [OInserted; ORemoved true]).
  Proof.
    intros H Hn. destruct (rollback_restores_table (tbl st) k H Hn) as [E R].
    cbn [run]. rewrite (step_present slot_of st k), E.
    rewrite (step_remove slot_of). cbn [tbl clock]. rewrite R. cbn [fst snd]. destruct st; reflexivity.
  Qed.

  (* a retried decode (retry counter 1..5) of a credential whose earlier attempt was recorded is let through
     (replay_insert says Exists and changes nothing); if its reply cannot be sent either, replay_remove takes
     exactly that record away *)
  Theorem retried_rollback_removes_only_it t k : inv t -> In k (abs t) ->
    rins k t = (AlreadyExists, t) /\ fst (rrem k t) = true /\ inv (snd (rrem k t)) /\
    ~ In k (abs (snd (rrem k t))) /\ count (snd (rrem k t)) + 1 = count t /\
    forall x, x <> k -> (In x (abs (snd (rrem k t))) <-> In x (abs t)).
  Proof.
    intros H Hin. destruct (rins_spec slot_of nslots Hs t k H) as (_ & I2 & I3 & _).
    destruct (rrem_spec slot_of nslots Hs t k H) as (R1 & R2 & _ & R4 & R5).
    assert (Ei : fst (rins k t) = AlreadyExists) by (now apply I2).
    assert (Er : fst (rrem k t) = true) by (now apply R2).
    split; [|split; [exact Er|split; [exact R1|split; [|split; [now apply R5|]]]]].
    - specialize (I3 Ei). destruct (rins k t) as [a b]. cbn in *. now subst.
    - intros Hx. apply R4 in Hx. now destruct Hx.
    - intros x Hne. rewrite R4. tauto.
  Qed.

  (* --- the undeliverable decode interleaved with whatever else the daemon does --- *)
  Definition about (k : rkey) (e : event) : bool :=
    match e with
    | EPresent k' | ERemove k' => if rkey_eq_dec k' k then true else false
    | _ => false
    end.

  (* the answers other clients can see (the number a purge logs is not one of them) *)
  Definition visible (o : output) : output := match o with OPurged _ => ONone | _ => o end.

  (* st1: the run that contains the in-flight record of k; st2: the run without that decode *)
  Definition shadow (k : rkey) (st1 st2 : rstate) : Prop :=
    clock st1 = clock st2 /\ inv (tbl st1) /\ inv (tbl st2) /\ ~ In k (abs (tbl st2)) /\
    forall x, x <> k -> (In x (abs (tbl st1)) <-> In x (abs (tbl st2))).

  Lemma shadow_step k st1 st2 e : shadow k st1 st2 -> about k e = false ->
    shadow k (fst (rstep st1 e)) (fst (rstep st2 e)) /\
    visible (snd (rstep st1 e)) = visible (snd (rstep st2 e)).
  Proof.
    intros (Hc & H1 & H2 & Hn & Hm) Ha. destruct e as [k'|k'|k'| |d].
    - cbn [about] in Ha. destruct (rkey_eq_dec k' k) as [->|Hne]; [discriminate|].
      split.
      + unfold shadow. rewrite !(step_present slot_of). cbn [fst tbl clock].
        destruct (rins_spec slot_of nslots Hs _ k' H1) as (A1 & _ & _ & A4 & _).
        destruct (rins_spec slot_of nslots Hs _ k' H2) as (B1 & _ & _ & B4 & _).
        split; [exact Hc|split; [exact A1|split; [exact B1|split]]].
        * intros Hx. apply B4 in Hx. destruct Hx as [E|Hx]; [congruence|tauto].
        * intros x Hx. rewrite A4, B4. rewrite (Hm x Hx). tauto.
      + f_equal. apply (present_out_eq slot_of nslots Hs); try assumption. apply Hm. exact Hne.
    - split; [exact (conj Hc (conj H1 (conj H2 (conj Hn Hm))))|reflexivity].
    - cbn [about] in Ha. destruct (rkey_eq_dec k' k) as [->|Hne]; [discriminate|].
      destruct (rrem_spec slot_of nslots Hs _ k' H1) as (A1 & A2 & _ & A4 & _).
      destruct (rrem_spec slot_of nslots Hs _ k' H2) as (B1 & B2 & _ & B4 & _).
      split.
      + unfold shadow. rewrite !(step_remove slot_of). cbn [fst tbl clock].
        split; [exact Hc|split; [exact A1|split; [exact B1|split]]].
        * intros Hx. apply B4 in Hx. tauto.
        * intros x Hx. rewrite A4, B4. rewrite (Hm x Hx). tauto.
      + rewrite !(step_remove slot_of). cbn [snd visible]. f_equal.
        destruct (fst (rrem k' (tbl st1))) eqn:E1, (fst (rrem k' (tbl st2))) eqn:E2; try reflexivity; exfalso.
        * assert (X : In k' (abs (tbl st1))) by (now apply A2). apply (Hm k' Hne), B2 in X. congruence.
        * assert (X : In k' (abs (tbl st2))) by (now apply B2). apply (Hm k' Hne), A2 in X. congruence.
    - split; [|rewrite !(step_purge slot_of); reflexivity].
      unfold shadow. rewrite !(step_purge slot_of). cbn [fst tbl clock].
      destruct (rpurge_spec slot_of nslots Hs _ (clock st1) H1) as (A1 & A2 & _).
      destruct (rpurge_spec slot_of nslots Hs _ (clock st2) H2) as (B1 & B2 & _).
      split; [exact Hc|split; [exact A1|split; [exact B1|split]]].
      + rewrite B2. intros Hx. apply filter_In in Hx. tauto.
      + intros x Hx. rewrite A2, B2, !filter_In, Hc. rewrite (Hm x Hx). tauto.
    - split; [|reflexivity]. unfold shadow. rewrite !(step_tick slot_of). cbn [fst tbl clock].
      split; [lia|]. auto.
  Qed.

  Lemma shadow_run k h : forall st1 st2, shadow k st1 st2 -> forallb (fun e => negb (about k e)) h = true ->
    shadow k (rfinal st1 h) (rfinal st2 h) /\
    map visible (snd (rrun st1 h)) = map visible (snd (rrun st2 h)).
  Proof.
    induction h as [|e h IH]; intros st1 st2 Sh Hh; [split; [exact Sh|reflexivity]|].
    cbn [forallb] in Hh. apply andb_true_iff in Hh. destruct Hh as [He Hh]. apply negb_true_iff in He.
    destruct (shadow_step k st1 st2 e Sh He) as [Sh' Eo].
    destruct (IH _ _ Sh' Hh) as [Sf Eos].
    rewrite !(final_cons slot_of), !(run_cons slot_of). cbn [snd map]. split; [exact Sf|]. now rewrite Eo, Eos.
  Qed.

  (* between the insert of k and its roll-back the daemon serves any history h of other decodes (accepted, replayed,
     failed), roll-backs of other credentials, purges and clock ticks: every answer in h is what it would have been,
     and the final state (table chains, count, clock) is exactly the one of h alone *)
  Theorem rollback_leaves_no_trace st k h : inv (tbl st) -> ~ In k (abs (tbl st)) ->
    forallb (fun e => negb (about k e)) h = true ->
    rfinal st (EPresent k :: h ++ [ERemove k]) = rfinal st h /\
    map visible (snd (rrun (fst (rstep st (EPresent k))) h)) = map visible (snd (rrun st h)).
  Proof.
    intros H Hn Hh.
    assert (Sh : shadow k (fst (rstep st (EPresent k))) st).
    { unfold shadow. rewrite (step_present slot_of). cbn [fst tbl clock].
      destruct (rins_spec slot_of nslots Hs _ k H) as (A1 & _ & _ & A4 & _).
      split; [reflexivity|split; [exact A1|split; [exact H|split; [exact Hn|]]]].
      intros x Hx. rewrite A4. tauto. }
    destruct (shadow_run k h _ _ Sh Hh) as [(Hc & H1 & H2 & Hn2 & Hm) Eo]. split; [|exact Eo].
    rewrite (final_cons slot_of), (final_app slot_of).
    set (s1 := rfinal (fst (rstep st (EPresent k))) h) in *. set (s2 := rfinal st h) in *.
    unfold final. cbn [run]. rewrite (step_remove slot_of). cbn [fst].
    destruct (rrem_spec slot_of nslots Hs _ k H1) as (R1 & _ & _ & R4 & _).
    assert (Et : snd (rrem k (tbl s1)) = tbl s2).
    { apply (table_ext rkey replay_cmp slot_of nslots replay_cmp_eq replay_cmp_antisym); [exact R1|exact H2|].
      intros x. rewrite R4. split.
        + intros [Hne Hx]. now apply (Hm x Hne).
        + intros Hx. assert (Hne : x <> k) by (intros ->; contradiction).
          split; [exact Hne|]. now apply (Hm x Hne). }
    rewrite Et, Hc. destruct s2; reflexivity.
  Qed.
End ReplayRollback.
