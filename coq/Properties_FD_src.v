(* Properties_FD_src.v — statements only.  `_fd_get_poll_timeout` of src/libcommon/fd.c, TRANSLATED FROM ITS C TEXT on every
   run (gen/GenFdFun.v, tools/facts/fdfun.py: `when == NULL` is the parameter when_null, gettimeofday is the pair
   (gtod_rc, tod), the long expression stored in the int msecs is wrapped to 32 bits, C's `/` is Z.quot), IS FdModel's
   poll_timeout, over which every theorem of Properties_FD.v about deadlines is stated — for every deadline and every
   clock reading, not on a grid of probed values (gen/GenFd.v keeps the grid as a second, execution-based tie). *)
From Coq Require Import ZArith Bool.
From MV.gen Require Import GenFdFun.
From MV Require Import FdModel FdFun.
Local Open Scope Z_scope.

Theorem FD_poll_timeout_is_the_source : forall when clock,
  src_fd_get_poll_timeout 0 (clock / 1000000, clock mod 1000000) false when = poll_timeout (Some when) clock.
Proof. exact fd_poll_timeout_is_the_source. Qed.
Print Assumptions FD_poll_timeout_is_the_source.

Theorem FD_poll_timeout_null_is_the_source : forall gtod_rc tod when clock,
  src_fd_get_poll_timeout gtod_rc tod true when = poll_timeout None clock.
Proof. exact fd_poll_timeout_null. Qed.
Print Assumptions FD_poll_timeout_null_is_the_source.

Theorem FD_poll_timeout_clock_failure_never_waits : forall gtod_rc tod when, gtod_rc < 0 ->
  src_fd_get_poll_timeout gtod_rc tod false when = 0.
Proof. exact fd_poll_timeout_clock_failure. Qed.
Print Assumptions FD_poll_timeout_clock_failure_never_waits.

(* reading check: exactly 1.25 s before a deadline the translated function asks for 1251 ms - truncating division of a
   negative microsecond difference rounds the wrong way (the benign finding recorded with Properties_FD.v: at most 1998 us
   beyond the deadline) *)
Example FD_poll_timeout_example :
  src_fd_get_poll_timeout 0 (1700000000, 750000) false (1700000002, 0) = 1251.
Proof. vm_compute. reflexivity. Qed.
