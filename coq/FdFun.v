(* FdFun.v — FdModel's poll_timeout IS `_fd_get_poll_timeout` as translated from the C text of src/libcommon/fd.c
   (gen/GenFdFun.v, regenerated on every run by tools/facts/fdfun.py). *)
From Coq Require Import ZArith Bool Lia.
From MV.gen Require Import GenFdFun.
From MV Require Import FdModel.
Local Open Scope Z_scope.

(* the model's clock is one number of microseconds; gettimeofday reports it as (clock / 10^6, clock mod 10^6) *)
Lemma fd_poll_timeout_is_the_source when clock :
  src_fd_get_poll_timeout 0 (clock / 1000000, clock mod 1000000) false when = poll_timeout (Some when) clock.
Proof.
  unfold src_fd_get_poll_timeout, poll_timeout, wrapi32, wrap32. destruct when as [ws wu]. cbn [fst snd].
  change (0 =? 0) with true. change (0 <? 0) with false. cbv iota.
  destruct ((ws =? 0) && (wu =? 0))%bool; reflexivity.
Qed.

Lemma fd_poll_timeout_null gtod_rc tod when clock :
  src_fd_get_poll_timeout gtod_rc tod true when = poll_timeout None clock.
Proof. reflexivity. Qed.

(* "POSIX says gettimeofday() can't fail, but just in case": no wait at all *)
Lemma fd_poll_timeout_clock_failure gtod_rc tod when : gtod_rc < 0 ->
  src_fd_get_poll_timeout gtod_rc tod false when = 0.
Proof.
  intros H. unfold src_fd_get_poll_timeout.
  assert (E1 : (gtod_rc <? 0) = true) by (apply Z.ltb_lt; lia). rewrite E1.
  destruct tod; destruct (gtod_rc =? 0); destruct ((fst when =? 0) && (snd when =? 0))%bool; reflexivity.
Qed.
