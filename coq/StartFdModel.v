(* StartFdModel.v — the descriptor table of a starting munged (background mode), for "the lock descriptor stays open
   until close_lock".  No proofs.  A table is a list indexed by descriptor number (beyond its end: free); open()
   returns the lowest free number; close(n) frees n; dup2(x, n) closes n and makes it a copy of x.  The program is
   main()'s descriptor traffic: [sanitize_std_fds, iff the source has it: gen/GenStart.main_sanitizes_std_fds],
   with --syslog the fclose (stderr) of log_close_file and [sanitize_std_fds again: syslog_branch_resanitizes],
   any files opened and kept before the lock (log file, daemon pipe, ...: the list pre, arbitrary), the lock file,
   the socket, the pid file (opened and closed), then daemonize_fini: open /dev/null, dup2 onto each of
   gen/GenStart.fini_dup2_targets, close it if it is > 2. *)
From Coq Require Import List Arith Bool.
From MV.gen Require Import GenStart.
Import ListNotations.

Inductive obj := Std | Null | LockF | SockF | Kept | Tmp.
Definition obj_eqb (a b : obj) : bool :=
  match a, b with Std, Std | Null, Null | LockF, LockF | SockF, SockF | Kept, Kept | Tmp, Tmp => true | _, _ => false end.

Definition table := list (option obj).

Fixpoint lowest_free (t : table) : nat :=
  match t with
  | [] => 0
  | None :: _ => 0
  | Some _ :: r => S (lowest_free r)
  end.

Fixpoint put (t : table) (n : nat) (v : option obj) : table :=
  match n, t with
  | 0, [] => [v]
  | 0, _ :: r => v :: r
  | S m, [] => None :: put [] m v
  | S m, x :: r => x :: put r m v
  end.

Definition get (t : table) (n : nat) : option obj := nth n t None.

Definition fopen (t : table) (o : obj) : table * nat := (put t (lowest_free t) (Some o), lowest_free t).
Definition fclose (t : table) (n : nat) : table := put t n None.
Definition dup2 (t : table) (x n : nat) : table := put t n (get t x).

(* do { fd = open ("/dev/null") } while (fd <= 2); close (fd) — at most four rounds *)
Fixpoint sanitize_loop (fuel : nat) (t : table) : table :=
  match fuel with
  | 0 => t
  | S f => let '(t', fd) := fopen t Null in if fd <=? 2 then sanitize_loop f t' else fclose t' fd
  end.
Definition sanitize (t : table) : table := sanitize_loop 4 t.

Definition open_all (t : table) (l : list obj) : table := fold_left (fun t o => fst (fopen t o)) l t.

Record started := mkStarted { tab : table; lock_fd : nat; sock_fd : nat }.

(* daemonize_fini *)
Definition fini (t : table) : table :=
  let '(t1, dn) := fopen t Null in
  let t2 := fold_left (fun t n => dup2 t dn n) fini_dup2_targets t1 in
  if 2 <? dn then fclose t2 dn else t2.

(* everything from the first file opened and kept to the end of daemonize_fini *)
Definition rest_fds (t1 : table) (pre : list obj) : started :=
  let t2 := open_all t1 pre in
  let '(t3, lf) := fopen t2 LockF in
  let '(t4, sf) := fopen t3 SockF in
  let '(t5, pf) := fopen t4 Tmp in
  let t6 := fclose t5 pf in
  mkStarted (fini t6) lf sf.

(* main(): [sanitize]; with --syslog: log_close_file () = fclose (stderr) frees descriptor 2, [sanitize again]; rest *)
Definition start_fds_mode (sanitizes resanitizes syslog : bool) (t0 : table) (pre : list obj) : started :=
  let t1 := if sanitizes then sanitize t0 else t0 in
  let t1' := if syslog then (let t := fclose t1 2 in if resanitizes then sanitize t else t) else t1 in
  rest_fds t1' pre.

Definition start_fds (sanitizes : bool) (t0 : table) (pre : list obj) : started :=
  start_fds_mode sanitizes false false t0 pre.

Definition is_obj (o : option obj) (x : obj) : bool := match o with Some y => obj_eqb y x | None => false end.

(* at service the lock descriptor still is the lock file and the socket descriptor still is the socket *)
Definition fds_intact (s : started) : bool :=
  is_obj (get (tab s) (lock_fd s)) LockF && is_obj (get (tab s) (sock_fd s)) SockF.
