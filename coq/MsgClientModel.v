(* MsgClientModel.v — executable model of libmunge's side of a transaction (no proofs here):
     src/libmunge/m_msg_client.c   m_msg_client_xfer: connect, m_msg_send (request, MUNGE_MAXIMUM_REQ_LEN),
                                   m_msg_recv (fresh object, EXPECTED TYPE, 0), retry loop
     src/libmunge/decode.c         munge_decode: _decode_init, _decode_req, _decode_rsp, _munge_ctx_set_err
     src/libmunge/encode.c         munge_encode: _encode_init, _encode_req, _encode_rsp, _munge_ctx_set_err
   on top of MsgModel (m_msg_send / m_msg_recv / _msg_unpack).  The peer is any list of byte strings: the k-th
   connection the client opens delivers the k-th string and then EOF (a string that is missing is the empty one:
   the peer closes at once).  Time-outs and I/O errors of the socket are environment.

   What the code hands to m_msg_recv as the expected type, both maxlen arguments, the number of attempts and the
   type codes that pass the sanity checks of _decode_rsp / _encode_rsp are MEASURED on the current source
   (gen/GenMsgClient.v); the model takes them as parameters (ex, acc) so that the theorems can say for which
   values the property holds and for which it is refuted. *)
From Coq Require Import List NArith ZArith Bool.
From Coq.Strings Require Import Byte.
From MV Require Import Bytes MsgModel.
From MV.gen Require Import GenMsg GenMsgClient.
Import ListNotations.
Local Open Scope Z_scope.

(* ---- m_msg_client_xfer --------------------------------------------------------------------------------- *)
Inductive xres :=
  | XRsp (m : msg)               (* EMUNGE_SUCCESS; *pm = the response object m *)
  | XRspErr (e : N) (m : msg)    (* the last attempt failed while receiving; *pm = that response object *)
  | XReqErr (e : N)              (* refused, or the last attempt failed before a response object existed; *pm = request *)
  | XFault.                      (* a memory fault in m_msg_send / m_msg_recv (MsgModel) *)

(* attempt i (1-based) sends the request with retry = i - 1 (`mreq->retry = i` after a failed attempt i) on its own
   connection; the second component lists what was written on each connection opened.  A request that cannot be
   packed is tried again like any other failure (the model packs afresh each time; the code keeps the half-packed
   buffer of the first attempt - this only concerns requests with a length that is not a length, which
   _encode_req / _decode_req do not build from a valid call). *)
Fixpoint xfer_loop (lim : N) (hp : Z -> bool) (exptype code : N) (mreq : msg) (fuel : nat) (i : N)
         (peer : list bytes) : xres * list bytes :=
  match fuel with
  | O => (XReqErr e_snafu, [])
  | S fuel' =>
    let last := (xfer_attempts <=? i)%N in
    match send hp code (setn mreq Nretry (i - 1)%N) xfer_send_maxlen with
    | SFault => (XFault, [[]])
    | SErr e =>
      if last || (e =? e_bad_length)%N then (XReqErr e, [[]])
      else let r := xfer_loop lim hp exptype code mreq fuel' (i + 1)%N (tl peer) in (fst r, [] :: snd r)
    | SOk wire =>
      match fst (recv_g lim hp (hd [] peer) exptype xfer_recv_maxlen msg0) with
      | ROk m => (XRsp m, [wire])
      | RFault _ => (XFault, [wire])
      | RErr e m =>
        if last || (e =? e_bad_length)%N then (XRspErr e m, [wire])
        else let r := xfer_loop lim hp exptype code mreq fuel' (i + 1)%N (tl peer) in (fst r, wire :: snd r)
      end
    end
  end.

(* ex code = what the function passes to m_msg_recv for a request of that type; None: EMUNGE_SNAFU, nothing sent *)
Definition xfer_g (lim : N) (hp : Z -> bool) (ex : N -> option N) (code : N) (mreq : msg) (peer : list bytes)
  : xres * list bytes :=
  match ex code with
  | None => (XReqErr e_snafu, [])
  | Some exptype => xfer_loop lim hp exptype code mreq (N.to_nat xfer_attempts) 1%N peer
  end.

(* ---- what the caller gets back ---------------------------------------------------------------------------- *)
(* error string of the context: NULL, the error_str member of a received message, or a diagnostic generated
   locally (wording not modelled; also used for the object of a failed receive, whose string may be unset) *)
Inductive estr := ENull | EWire (s : bytes) | ELocal.
Definition estr_of (m : msg) : estr :=
  if err_local m then ELocal else match bv m Berror with None => ENull | Some l => EWire l end.

(* munge_ctx members written by munge_decode (int, char *, struct in_addr, time_t, uid_t, gid_t) *)
Record dctx := { x_cipher : Z; x_mac : Z; x_zip : Z; x_realm : option bytes; x_ttl : Z; x_addr : bytes;
                 x_time0 : Z; x_time1 : Z; x_auth_uid : N; x_auth_gid : N }.
(* _decode_init *)
Definition dctx_init : dctx :=
  {| x_cipher := -1; x_mac := -1; x_zip := -1; x_realm := None; x_ttl := -1;
     x_addr := repeat x00 (N.to_nat sizeof_ctx_addr); x_time0 := -1; x_time1 := -1;
     x_auth_uid := uid_sentinel; x_auth_gid := gid_sentinel |}.

(* return value (= ctx->error_num), context, *buf, *len, *uid, *gid, ctx->error_str *)
Record dres := { d_err : N; d_ctx : dctx; d_buf : option bytes; d_len : Z; d_uid : N; d_gid : N; d_estr : estr }.

(* nothing but the error reaches the caller: every output keeps the value _decode_init gave it *)
Definition dec_fail (e : N) (s : estr) : dres :=
  {| d_err := e; d_ctx := dctx_init; d_buf := None; d_len := 0; d_uid := uid_sentinel; d_gid := gid_sentinel;
     d_estr := s |}.

(* _decode_rsp past its sanity check, then _munge_ctx_set_err (ctx, e, m->error_str): the members of m, with the C
   conversions uint8_t -> int, uint32_t -> int (ttl, *len), uint32_t -> time_t / uid_t / gid_t *)
Definition dec_out (m : msg) : dres :=
  {| d_err := nv m Nerror_num;
     d_ctx := {| x_cipher := Z.of_N (nv m Ncipher); x_mac := Z.of_N (nv m Nmac); x_zip := Z.of_N (nv m Nzip);
                 x_realm := bv m Brealm; x_ttl := to_int (nv m Nttl); x_addr := content m Baddr;
                 x_time0 := Z.of_N (nv m Ntime0); x_time1 := Z.of_N (nv m Ntime1);
                 x_auth_uid := nv m Nauth_uid; x_auth_gid := nv m Nauth_gid |};
     d_buf := if (nv m Ndata_len =? 0)%N then None else bv m Bdata;
     d_len := to_int (nv m Ndata_len);
     d_uid := nv m Ncred_uid; d_gid := nv m Ncred_gid;
     d_estr := if (nv m Nerror_num =? 0)%N then ENull else estr_of m |}.

(* acc = the type codes that pass `if (m->type != MUNGE_MSG_DEC_RSP)` *)
Definition decode_rsp (acc : N -> bool) (m : msg) : dres :=
  if acc (nv m Ntype) then dec_out m else dec_fail e_snafu (estr_of (set_err m e_snafu)).

(* _decode_req: data = the credential with its NUL *)
Definition dec_req (cred : bytes) : msg :=
  setb (setn msg0 Ndata_len (N.of_nat (length cred) + 1)%N) Bdata (Some (cred ++ [x00])).

(* munge_decode (cred non-empty, no NUL inside); None = memory fault *)
Definition client_decode_g (lim : N) (hp : Z -> bool) (ex : N -> option N) (acc : N -> bool)
           (cred : bytes) (peer : list bytes) : option dres * list bytes :=
  let r := xfer_g lim hp ex mt_dec_req (dec_req cred) peer in
  (match fst r with
   | XRsp m => Some (decode_rsp acc m)
   | XRspErr e _ => Some (dec_fail e ELocal)
   | XReqErr e => Some (dec_fail e ELocal)
   | XFault => None
   end, snd r).

(* ---- munge_encode ---------------------------------------------------------------------------------------------- *)
(* return value, *cred (a C string: m->data, NUL-terminated by _alloc), ctx->error_str; the options of the context
   are not written *)
Record eres := { e_err : N; e_cred : option bytes; e_estr : estr }.
Definition enc_fail (e : N) (s : estr) : eres := {| e_err := e; e_cred := None; e_estr := s |}.

Definition enc_out (m : msg) : eres :=
  {| e_err := nv m Nerror_num; e_cred := bv m Bdata;
     e_estr := if (nv m Nerror_num =? 0)%N then ENull else estr_of m |}.

(* _encode_rsp: type check, then `m->data_len <= 0` (unsigned: == 0) *)
Definition encode_rsp (acc : N -> bool) (m : msg) : eres :=
  if negb (acc (nv m Ntype)) then enc_fail e_snafu (estr_of (set_err m e_snafu))
  else if (nv m Ndata_len =? 0)%N then enc_fail e_snafu (estr_of (set_err m e_snafu))
  else enc_out m.

(* _encode_req from the options of the context (already reduced to the members' widths) and the payload *)
Definition enc_req (cipher mac zip ttl auth_uid auth_gid : N) (payload : bytes) : msg :=
  let m := setn (setn (setn (setn (setn (setn msg0 Ncipher cipher) Nmac mac) Nzip zip) Nttl ttl)
                   Nauth_uid auth_uid) Nauth_gid auth_gid in
  setb (setn m Ndata_len (N.of_nat (length payload)))
       Bdata (match payload with [] => None | _ => Some payload end).

Definition client_encode_g (lim : N) (hp : Z -> bool) (ex : N -> option N) (acc : N -> bool)
           (mreq : msg) (peer : list bytes) : option eres * list bytes :=
  let r := xfer_g lim hp ex mt_enc_req mreq peer in
  (match fst r with
   | XRsp m => Some (encode_rsp acc m)
   | XRspErr e _ => Some (enc_fail e ELocal)
   | XReqErr e => Some (enc_fail e ELocal)
   | XFault => None
   end, snd r).

(* ---- the repository's client: every parameter as measured on the current source --------------------------- *)
Definition client_decode (hp : Z -> bool) := client_decode_g addr_len_accept_max hp xfer_exptype dec_rsp_accepts.
Definition client_encode (hp : Z -> bool) := client_encode_g addr_len_accept_max hp xfer_exptype enc_rsp_accepts.

(* ---- which member every output is copied from (compared with the measured table, MsgClientSource.v) -------- *)
Inductive dslot := Oerr | Ocipher | Omac | Ozip | Orealm | Ottl | Oaddr | Otime0 | Otime1 | Oauth_uid | Oauth_gid
                 | Obuf | Olen | Ouid | Ogid | Oerrstr.
Inductive eslot := Eerr | Ecred | Eerrstr.
Inductive dsrc := SrcN (f : nfld) | SrcB (b : bfld) | SrcNone.

Definition dec_src (o : dslot) : dsrc :=
  match o with
  | Oerr => SrcN Nerror_num | Ocipher => SrcN Ncipher | Omac => SrcN Nmac | Ozip => SrcN Nzip
  | Orealm => SrcB Brealm | Ottl => SrcN Nttl | Oaddr => SrcB Baddr | Otime0 => SrcN Ntime0
  | Otime1 => SrcN Ntime1 | Oauth_uid => SrcN Nauth_uid | Oauth_gid => SrcN Nauth_gid
  | Obuf => SrcB Bdata | Olen => SrcN Ndata_len | Ouid => SrcN Ncred_uid | Ogid => SrcN Ncred_gid
  | Oerrstr => SrcB Berror
  end.
Definition enc_src (o : eslot) : dsrc :=
  match o with Eerr => SrcN Nerror_num | Ecred => SrcB Bdata | Eerrstr => SrcB Berror end.

(* an output as a function of the one member it is copied from (numbers as Z after the C conversion) *)
Inductive oval := VZ (z : Z) | VB (b : option bytes) | VE (s : estr).
Definition dec_view (r : dres) (o : dslot) : oval :=
  match o with
  | Oerr => VZ (Z.of_N (d_err r)) | Ocipher => VZ (x_cipher (d_ctx r)) | Omac => VZ (x_mac (d_ctx r))
  | Ozip => VZ (x_zip (d_ctx r)) | Orealm => VB (x_realm (d_ctx r)) | Ottl => VZ (x_ttl (d_ctx r))
  | Oaddr => VB (Some (x_addr (d_ctx r))) | Otime0 => VZ (x_time0 (d_ctx r)) | Otime1 => VZ (x_time1 (d_ctx r))
  | Oauth_uid => VZ (Z.of_N (x_auth_uid (d_ctx r))) | Oauth_gid => VZ (Z.of_N (x_auth_gid (d_ctx r)))
  | Obuf => VB (d_buf r) | Olen => VZ (d_len r) | Ouid => VZ (Z.of_N (d_uid r)) | Ogid => VZ (Z.of_N (d_gid r))
  | Oerrstr => VE (d_estr r)
  end.
Definition enc_view (r : eres) (o : eslot) : oval :=
  match o with Eerr => VZ (Z.of_N (e_err r)) | Ecred => VB (e_cred r) | Eerrstr => VE (e_estr r) end.
