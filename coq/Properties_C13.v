(* Properties_C13.v — statements only.  Broken connections are retried safely and never burn a credential.
   Model: RetryModel (libmunge's m_msg_client_xfer loop, attempts 1..5 carrying retry = attempt - 1) against
   CredModel.dec_process with the three observable outcomes of a cut connection per attempt: the request does
   not arrive (ReqCut), the reply is lost although munged's send succeeded (RspLost), munged's send fails and it
   rolls the replay record back (RspSendFailed). *)
From Coq Require Import List NArith ZArith Bool String.
From RecordUpdate Require Import RecordSet.
From MV Require Import FdModel RetryMsgIO.   (* first: ReplayModel.run etc. must shadow FdModel's names *)
From MV Require Import Bytes CredModel CredProofs RetryModel RetryProofs.
From MV Require Import ReplayModel RetryReplay RetryClientModel RetryClientProofs RetryWire.
From MV.gen Require Import GenCred GenRetryLoop GenRetryMsgIO.
Import ListNotations.
Local Open Scope N_scope.

Section C13.
Variable hmac : N -> bytes -> bytes -> bytes.
Variable sha1 : bytes -> bytes.
Variable blk_enc blk_dec : N -> bytes -> bytes -> bytes.
Variable zcomp : N -> bytes -> option bytes.
Variable zdecomp : N -> bytes -> N -> option bytes.

(* Up to four faulty attempts of ANY kinds in ANY order, then a clean one: munge_decode returns exactly what a
   fault-free first decode returns (compared up to the retry counter, which DEC_RSP does not carry), and the
   replay cache ends as after that fault-free decode: (a) if the cache-independent part fails (hard error,
   unauthorized, expired, rewound) that same reply, cache untouched; (b) if it accepts and the credential is new:
   success — in particular after a lost first reply, instead of 'replayed' — and exactly one record. *)
Theorem C13_retry_masks_faults : forall cf mem cred pu pg now rs faults,
  cf_socket_retry cf = true -> (List.length faults <= 4)%nat ->
  match dec_pre hmac sha1 blk_dec zdecomp cf mem (req cred 0) pu pg now with
  | inl r0 =>
      exists r, munge_decode_under_faults hmac sha1 blk_dec zdecomp cf mem cred pu pg now rs faults = (rs, Some r)
                /\ strip r = strip r0
  | inr (m0, k) =>
      r_mem k rs = false ->
      exists r, munge_decode_under_faults hmac sha1 blk_dec zdecomp cf mem cred pu pg now rs faults = (k :: rs, Some r)
                /\ strip r = strip m0
  end.
Proof. exact (retry_masks_faults hmac sha1 blk_dec zdecomp). Qed.

(* munged could not deliver the reply to a successful decode and the client never retries: the cache is exactly
   as before, the credential remains decodable *)
Theorem C13_unsent_reply_keeps_credential : forall cf mem cred pu pg now rs m0 k,
  dec_pre hmac sha1 blk_dec zdecomp cf mem (req cred 0) pu pg now = inr (m0, k) -> r_mem k rs = false ->
  fst (dec_attempt hmac sha1 blk_dec zdecomp cf mem cred pu pg now rs 1 (Some RspSendFailed)) = rs.
Proof. exact (unsent_reply_keeps_credential hmac sha1 blk_dec zdecomp). Qed.

(* five faulty attempts: a socket error, never a wrong or partial result (that a received reply is complete and
   well formed or an error is C14_send_recv / C14_recv_total_and_bounded) *)
Theorem C13_exhausted_is_socket_error : forall cf mem cred pu pg now rs faults,
  (5 <= List.length faults)%nat ->
  snd (munge_decode_under_faults hmac sha1 blk_dec zdecomp cf mem cred pu pg now rs faults) = None.
Proof. exact (exhausted_is_socket_error hmac sha1 blk_dec zdecomp). Qed.

(* the retry counter: libmunge sends 0..4; munged refuses anything above MUNGE_SOCKET_RETRY_ATTEMPTS *)
Theorem C13_retry_bounds : forall cf mem rs m pu pg now,
  m_err m = e_success -> m_data_len m <> 0 -> c_retry_attempts < m_retry m ->
  let '(r, rs', k) := dec_process hmac sha1 blk_dec zdecomp cf mem rs m pu pg now in
  m_err r = e_socket /\ is_reset r /\ rs' = rs /\ k = None.
Proof. exact (retry_bounds hmac sha1 blk_dec zdecomp). Qed.

(* the cache-independent part of decode does not depend on the retry counter *)
Theorem C13_decode_is_retry_independent : forall cf mem m pu pg now r1 r2,
  r1 <= c_retry_attempts -> r2 <= c_retry_attempts ->
  dec_pre hmac sha1 blk_dec zdecomp cf mem (RecordSet.set m_retry (fun _ => r2) m) pu pg now =
  retag r2 (dec_pre hmac sha1 blk_dec zdecomp cf mem (RecordSet.set m_retry (fun _ => r1) m) pu pg now).
Proof. exact (dec_pre_retry hmac sha1 blk_dec zdecomp). Qed.

(* encode: a retried munge_encode is served exactly as a first attempt would be *)
Theorem C13_encode_is_retry_independent : forall cf m pu pg now salt ivr r1 r2,
  r1 <= c_retry_attempts -> r2 <= c_retry_attempts ->
  enc_process hmac sha1 blk_enc zcomp cf (RecordSet.set m_retry (fun _ => r2) m) pu pg now salt ivr =
  enc_process hmac sha1 blk_enc zcomp cf (RecordSet.set m_retry (fun _ => r1) m) pu pg now salt ivr.
Proof. exact (enc_process_retry hmac sha1 blk_enc zcomp). Qed.

Theorem C13_encode_retry_exceeded_issues_nothing : forall cf m pu pg now salt ivr,
  m_err m = e_success -> c_retry_attempts < m_retry m ->
  let r := enc_process hmac sha1 blk_enc zcomp cf m pu pg now salt ivr in
  er_data r = [] /\ (er_err r = e_socket \/ er_err r = e_bad_cipher \/ er_err r = e_bad_mac \/ er_err r = e_bad_zip).
Proof. exact (enc_retry_exceeded_no_cred hmac sha1 blk_enc zcomp). Qed.
End C13.
Print Assumptions C13_retry_masks_faults.
Print Assumptions C13_unsent_reply_keeps_credential.
Print Assumptions C13_exhausted_is_socket_error.
Print Assumptions C13_retry_bounds.
Print Assumptions C13_decode_is_retry_independent.
Print Assumptions C13_encode_is_retry_independent.
Print Assumptions C13_encode_retry_exceeded_issues_nothing.

(* ---------------------------------------------------------------------------------------------------------------
   The roll-back on the real data structure.  ReplayModel is hash.c's chained table with replay.c's callbacks; the
   slot function is arbitrary, so the statements hold for every collision pattern, and the table is any table hash.c
   can have built (rinv): EVERY prior contents of the replay cache.
   --------------------------------------------------------------------------------------------------------------- *)

(* a first decode whose reply cannot be sent: replay_insert creates the record, replay_remove finds it wherever in its
   bucket chain it was linked (before the head, between two nodes, after the tail) and gives back exactly the table that
   was there before: same chains in the same order, same count *)
Theorem C13_rollback_restores_cache : forall (slot_of : (bytes * N)%type -> nat) (nslots : nat), slots_ok slot_of nslots ->
  forall (t : rtable) (k : (bytes * N)%type), rinv slot_of nslots t -> ~ In k (abs t) ->
  fst (replay_insert slot_of k t) = Inserted /\
  replay_remove slot_of k (snd (replay_insert slot_of k t)) = (true, t).
Proof. exact rollback_restores_table. Qed.

(* ... also when, between that decode and its roll-back, the daemon serves any history h of other work (decodes of other
   credentials - accepted, replayed or failed -, roll-backs of other credentials, purges, clock ticks): every answer
   given in h is the one it would have been, and the final state is exactly the state h alone leads to *)
Theorem C13_rollback_leaves_no_trace : forall (slot_of : (bytes * N)%type -> nat) (nslots : nat), slots_ok slot_of nslots ->
  forall (st : ReplayModel.rstate) (k : (bytes * N)%type) (h : list event),
  rinv slot_of nslots (tbl st) -> ~ In k (abs (tbl st)) ->
  forallb (fun e => negb (about k e)) h = true ->
  final slot_of st (EPresent k :: h ++ [ERemove k]) = final slot_of st h /\
  map visible (snd (run slot_of (fst (step slot_of st (EPresent k))) h)) = map visible (snd (run slot_of st h)).
Proof. exact rollback_leaves_no_trace. Qed.

(* a retried decode (retry 1..5) let through on the record of its lost first attempt, whose reply cannot be sent either:
   exactly that record goes, every other record stays *)
Theorem C13_retried_rollback_removes_only_it : forall (slot_of : (bytes * N)%type -> nat) (nslots : nat), slots_ok slot_of nslots ->
  forall (t : rtable) (k : (bytes * N)%type), rinv slot_of nslots t -> In k (abs t) ->
  replay_insert slot_of k t = (AlreadyExists, t) /\ fst (replay_remove slot_of k t) = true /\
  rinv slot_of nslots (snd (replay_remove slot_of k t)) /\
  ~ In k (abs (snd (replay_remove slot_of k t))) /\ count (snd (replay_remove slot_of k t)) + 1 = count t /\
  forall x, x <> k -> (In x (abs (snd (replay_remove slot_of k t))) <-> In x (abs t)).
Proof. exact retried_rollback_removes_only_it. Qed.
Print Assumptions C13_rollback_restores_cache.
Print Assumptions C13_rollback_leaves_no_trace.
Print Assumptions C13_retried_rollback_removes_only_it.

(* ---------------------------------------------------------------------------------------------------------------
   The client's transaction loop with the state of each attempt explicit.  `src_xfer` is m_msg_client_xfer as
   translated from the source text on this run (gen/GenRetryLoop.v), interpreted by RetryClientModel.xfer over an
   explicit heap of messages, their socket fields, the set of open sockets and the pointer variables mreq / mrsp.
   A fault list says how each successive attempt breaks, seen from the client: FConnect (refused), FSend (while the
   request is being written), FRecv (after the request was written: request cut on the way, reply cut at any byte,
   reply never sent).  Every ORDER of these, up to MUNGE_SOCKET_RETRY_ATTEMPTS entries.
   --------------------------------------------------------------------------------------------------------------- *)
Local Close Scope N_scope.

(* no state of attempt n is visible in attempt n+1: whatever broke before, an attempt starts with mrsp = NULL, the
   request not connected, the request as the only allocated message, no open socket, and only the two counters
   (attempt number, retry field) telling it apart from the first attempt; nothing undefined ever happens (no message is
   used or freed after it was freed, no socket closed twice, no assert fails, the loop ends); when the function returns
   exactly one message is allocated and it is the one handed to the caller; after the caller has destroyed it no
   message and no socket is left *)
Theorem C13_attempts_are_isolated : forall faults : list phase,
  List.length faults <= q_attempts src_xconst ->
  let r := xfer src_xconst src_xfer faults in
  r_bad r = None /\
  r_heads r = map fresh_head (seq 0 (List.length (r_heads r))) /\
  map PMsg (r_live_at_return r) = [r_pm r] /\
  r_live_end r = [] /\ r_open_end r = [].
Proof. exact xfer_safe_and_isolated. Qed.

(* up to four broken connections of any kinds in any order, then a clean attempt: success; the requests on the wire
   were the same message with retry = 0, 1, ..., n on n+1 different connections; exactly one complete reply was
   received, on the last connection, and that reply object is what the caller gets; the back-off was 10, 20, ... ms *)
Theorem C13_client_masks_faults : forall faults : list phase,
  no_connect_fault faults = true -> List.length faults < q_attempts src_xconst ->
  let r := xfer src_xconst src_xfer faults in let n := List.length faults in
  r_err r = EOk /\
  sends (r_trace r) = expected_sends faults (S n) /\
  map (fun d => PMsg (fst d)) (delivered (r_trace r)) = [r_pm r] /\ map snd (delivered (r_trace r)) = [S n] /\
  sleeps (r_trace r) = linear_backoff n /\ List.length (r_heads r) = S n.
Proof. exact xfer_masks_faults. Qed.

(* five broken attempts: a socket error, and no reply was ever received completely (never a wrong or partial result) *)
Theorem C13_client_exhausted : forall faults : list phase,
  no_connect_fault faults = true -> List.length faults = q_attempts src_xconst ->
  let r := xfer src_xconst src_xfer faults in
  r_err r = ESocket /\ delivered (r_trace r) = [] /\
  sends (r_trace r) = expected_sends faults (q_attempts src_xconst) /\ List.length (r_heads r) = q_attempts src_xconst /\
  sleeps (r_trace r) = linear_backoff (q_attempts src_xconst - 1).
Proof. exact xfer_exhausted. Qed.

(* a refused connect (after its own retries) ends the transaction with a socket error; the caller keeps its request *)
Theorem C13_client_connect_refused : forall faults : list phase,
  List.length faults <= q_attempts src_xconst -> no_connect_fault faults = false ->
  let r := xfer src_xconst src_xfer faults in let n := List.length (before_connect faults) in
  r_err r = ESocket /\ r_pm r = PMsg 0 /\ delivered (r_trace r) = [] /\
  sends (r_trace r) = expected_sends faults n /\ List.length (r_heads r) = S n.
Proof. exact xfer_connect_refused. Qed.

(* the bound of the loop is the bound the daemon enforces on the retry counter (C13_retry_bounds) *)
Theorem C13_client_bound_is_daemon_bound : q_attempts src_xconst = N.to_nat c_retry_attempts.
Proof. exact attempts_is_the_daemons_bound. Qed.
Print Assumptions C13_attempts_are_isolated.
Print Assumptions C13_client_masks_faults.
Print Assumptions C13_client_exhausted.
Print Assumptions C13_client_connect_refused.
Print Assumptions C13_client_bound_is_daemon_bound.

(* both halves together.  A broken connection is one event on the wire and two different things to the two ends
   (RetryWire.client_phase / daemon_fault): cut while the client writes, cut on the way, reply cut at a byte, reply not
   sent.  For every order of up to four of them: the client makes exactly the attempts the daemon-side theorem assumes
   (`masked`, spelled out in C13_client_masks_faults: success, retry = 0..n on n+1 connections, the reply of the last one)
   without anything undefined or left behind (`safe_and_isolated`, spelled out in C13_attempts_are_isolated), and the reply
   is the fault-free one with exactly one replay record (as in C13_retry_masks_faults) *)
Section C13wire.
Variable hmac : N -> bytes -> bytes -> bytes.
Variable sha1 : bytes -> bytes.
Variable blk_dec : N -> bytes -> bytes -> bytes.
Variable zdecomp : N -> bytes -> N -> option bytes.
Theorem C13_wire_faults_masked : forall cf mem cred pu pg now rs (ws : list wire),
  cf_socket_retry cf = true -> List.length ws <= 4 ->
  masked (map client_phase ws) /\ safe_and_isolated (map client_phase ws) /\
  match dec_pre hmac sha1 blk_dec zdecomp cf mem (req cred 0) pu pg now with
  | inl r0 =>
      exists r, munge_decode_under_faults hmac sha1 blk_dec zdecomp cf mem cred pu pg now rs (map daemon_fault ws) = (rs, Some r)
                /\ strip r = strip r0
  | inr (m0, k) =>
      r_mem k rs = false ->
      exists r, munge_decode_under_faults hmac sha1 blk_dec zdecomp cf mem cred pu pg now rs (map daemon_fault ws) = (k :: rs, Some r)
                /\ strip r = strip m0
  end.
Proof. exact (wire_faults_masked hmac sha1 blk_dec zdecomp). Qed.
End C13wire.
Print Assumptions C13_wire_faults_masked.
Local Open Scope N_scope.

(* ---------------------------------------------------------------------------------------------------------------
   What munged and libmunge take for "sent" and "received".  dec_process_msg rolls the replay record back exactly when
   m_msg_send does not return success, and the client retries exactly when m_msg_send / m_msg_recv do not; both look at
   (count or -1, errno) of fd_timed_write_iov / fd_timed_read_n.  FdModel gives these two for EVERY kernel behaviour
   (any script of poll() and read()/writev() outcomes: short transfers at any byte, EINTR/EAGAIN, POLLHUP, POLLERR,
   end of file, a passed deadline).  The tests applied to them are translated from the text of m_msg.c on this run
   (gen/GenRetryMsgIO.v); send_accepted / recv_*_accepted are those tests on the model's outcome.
   --------------------------------------------------------------------------------------------------------------- *)
Local Open Scope Z_scope.

(* a reply (or request) that m_msg_send reports as sent has reached the peer completely: header ++ body, in order,
   nothing else - so a reply that broke at ANY byte, with or without an errno, is reported as not sent *)
Theorem C13_send_accepted_is_delivered : forall bufs oom when skip t0 ps ios,
  send_accepted (fd_timed_write_iov bufs oom when skip t0 ps ios) (List.length (List.concat bufs)) = true ->
  wv_out (r_x (fd_timed_write_iov bufs oom when skip t0 ps ios)) = List.concat bufs.
Proof. exact send_accepted_is_delivered. Qed.

(* ... and a message that did reach the peer completely before the deadline is reported as sent *)
Theorem C13_send_delivered_is_accepted : forall bufs when skip t0 ps ios, bufs <> [] ->
  wv_out (r_x (fd_timed_write_iov bufs false when skip t0 ps ios)) = List.concat bufs ->
  errno_of (fd_timed_write_iov bufs false when skip t0 ps ios) <> ETIMEDOUT ->
  send_accepted (fd_timed_write_iov bufs false when skip t0 ps ios) (List.length (List.concat bufs)) = true.
Proof. exact send_delivered_is_accepted. Qed.

(* the comparison of the count with the length is what sees a hang-up in the middle: a kernel script under which
   fd_timed_write_iov returns a short count and leaves errno alone (POLLHUP while waiting for buffer space) *)
Theorem C13_short_count_without_errno : exists bufs ps ios,
  let r := fd_timed_write_iov bufs false (Some (100, 0)) true 0 ps ios in
  r_rc r = Ret 1 /\ errno_of r = E0 /\ wv_out (r_x r) <> List.concat bufs /\
  send_accepted r (List.length (List.concat bufs)) = false.
Proof. exact short_count_without_errno. Qed.

(* a message m_msg_recv accepts (header test, then body test on what the socket still holds) is exactly the first
   hn + bn bytes the peer sent: never a partial reply *)
Theorem C13_recv_accepted_is_complete : forall hn bn sent when sk1 sk2 t0 t1 ps1 ios1 ps2 ios2,
  let r1 := fd_timed_read_n hn sent when sk1 t0 ps1 ios1 in
  let r2 := fd_timed_read_n bn (rd_peer (r_x r1)) when sk2 t1 ps2 ios2 in
  recv_hdr_accepted r1 hn = true -> recv_body_accepted r2 bn = true ->
  rd_buf (r_x r1) ++ rd_buf (r_x r2) = firstn (hn + bn) sent /\ (hn + bn <= List.length sent)%nat.
Proof. exact recv_accepted_is_complete. Qed.

Theorem C13_recv_complete_is_accepted : forall n sent when skip t0 ps ios,
  r_rc (fd_timed_read_n n sent when skip t0 ps ios) = Ret n ->
  errno_of (fd_timed_read_n n sent when skip t0 ps ios) <> ETIMEDOUT ->
  recv_hdr_accepted (fd_timed_read_n n sent when skip t0 ps ios) n = true /\
  recv_body_accepted (fd_timed_read_n n sent when skip t0 ps ios) n = true.
Proof. exact recv_complete_is_accepted. Qed.
Print Assumptions C13_send_accepted_is_delivered.
Print Assumptions C13_send_delivered_is_accepted.
Print Assumptions C13_short_count_without_errno.
Print Assumptions C13_recv_accepted_is_complete.
Print Assumptions C13_recv_complete_is_accepted.
Local Close Scope Z_scope.

(* non-vacuity (computed inside Coq with toy primitives): lost reply, failed send, cut request, lost reply, then a
   clean attempt -> success with the payload and exactly one record; five faults -> socket error *)
Example C13_example_accept :
  toy_view (toy_decode cf_std 5010 [RspLost; RspSendFailed; ReqCut; RspLost]) = Some (1%nat, e_success, str "hello"%string, 1000).
Proof. exact retry_example_accept. Qed.
Example C13_example_exhausted :
  toy_view (toy_decode cf_std 5010 [RspLost; RspSendFailed; ReqCut; RspLost; ReqCut]) = None.
Proof. exact retry_example_exhausted. Qed.

(* the trace of one concrete order: reply cut, then request cut while being written, then clean *)
Example C13_example_client_trace :
  r_trace (xfer src_xconst src_xfer [FRecv; FSend]) =
  [TNew 0; TConnect 1 true; TSend 0 0 1 true; TNew 1; TBind 1 1; TRecv 1 1 false; TDestroy 1; TClose 1; TSleep 10;
   TConnect 2 true; TSend 0 1 2 false; TClose 2; TSleep 20;
   TConnect 3 true; TSend 0 2 3 true; TNew 2; TBind 2 3; TRecv 2 3 true; TClose 3; TDestroy 0; TDestroy 2]%nat.
Proof. exact client_example_trace. Qed.

(* ---- source-level tie of the daemon side of a retried decode (tools/facts/cfun.py -> gen/GenCredFun.v: TRANSLATED
        from the C text of dec.c on every run; CredPipe.v): what RetryModel.dec_attempt assumes of munged per attempt -
        the record is rolled back iff the reply of a SUCCESSFUL decode THAT ADDED IT could not be sent (c->is_replay_new) -
        the retry limit and the retry exemption of the replay check ---- *)
From MV Require Import CredFun CredPipe.
From MV.gen Require Import GenCredFun.
Theorem C13_source_attempt_is_model :
  forall (hmac : N -> bytes -> bytes -> bytes) (sha1 : bytes -> bytes) (blk_dec : N -> bytes -> bytes -> bytes)
         (zdecomp : N -> bytes -> N -> option bytes) (cf : conf) (mem : N -> N -> bool) (pu pg now : N)
         (cred : bytes) (rs : CredModel.rstate) (i : nat),
  let run so := src_dec_process_msg (dec_ops hmac sha1 blk_dec zdecomp cf mem pu pg now (u32 now) so) (dinit (attempt_msg cred i) rs) in
  let att f := dec_attempt hmac sha1 blk_dec zdecomp cf mem cred pu pg now rs i f in
  att (Some ReqCut) = (rs, None) /\
  att (Some RspLost) = (d_rs (snd (run true)), None) /\
  att (Some RspSendFailed) = (d_rs (snd (run false)), None) /\
  att None = (d_rs (snd (run true)), Some (d_msg (snd (run true)))).
Proof.
  exact (fun hmac sha1 blk_dec zdecomp cf mem pu pg now cred rs i =>
           dec_attempt_is_source hmac sha1 blk_dec zdecomp cf mem pu pg now (u32 now) cred rs i eq_refl).
Qed.
Print Assumptions C13_source_attempt_is_model.
Theorem C13_source_decode_control : forall (S : Type) (ops : pipe_ops S) (s : S),
  src_dec_process_msg ops s = pipe_control ops dec_stage_order soft_err (Some "is_replay_new"%string) s.
Proof. exact src_dec_process_msg_is_pipe. Qed.
Print Assumptions C13_source_decode_control.
Theorem C13_source_retry_limit : forall (cf : conf) (m : msg),
  src_dec_check_retry cf m = ((if c_retry_attempts <? m_retry m then e_socket else 0), m) /\
  src_enc_check_retry cf m = ((if c_retry_attempts <? m_retry m then e_socket else 0), m).
Proof. exact (fun cf m => conj (dec_check_retry_is_source cf m) (enc_check_retry_is_source cf m)). Qed.
Print Assumptions C13_source_retry_limit.
Theorem C13_source_retry_exemption : forall (cf : conf) (clk ins en c : Z) (m : msg),
  src_dec_validate_replay cf clk ins en c m =
  ((if (ins =? 0)%Z then (if (clk =? -1)%Z then e_snafu
                          else if (clk >? Z.of_N (m_time0 m) + Z.of_N (m_ttl m))%Z then e_cred_expired else 0)
    else if (ins >? 0)%Z
         then (if cf_socket_retry cf && (0 <? m_retry m) && (m_retry m <=? c_retry_attempts) then 0 else e_cred_replayed)
    else if (en =? 12)%Z then e_no_memory else e_snafu), m,
   (if (ins =? 0)%Z && negb (clk =? -1)%Z && negb (clk >? Z.of_N (m_time0 m) + Z.of_N (m_ttl m))%Z then 1 else c)%Z).
Proof. exact dec_validate_replay_is_source. Qed.
Print Assumptions C13_source_retry_exemption.

(* ---- roll-back after the repair of dec_process_msg (take back only the entry this decode added) ---- *)
(* an attempt whose reply munged could not send leaves the cache exactly as it found it - every cache, every attempt
   number 1.., every credential: it gives back exactly the record this request added, nothing else (C13_unsent_reply_
   keeps_credential is the case "attempt 1 inserted the record") *)
Theorem C13_unsent_reply_restores_cache :
  forall (hmac : N -> bytes -> bytes -> bytes) (sha1 : bytes -> bytes) (blk_dec : N -> bytes -> bytes -> bytes)
         (zdecomp : N -> bytes -> N -> option bytes) cf mem cred pu pg now (rs : CredModel.rstate) i,
  fst (dec_attempt hmac sha1 blk_dec zdecomp cf mem cred pu pg now rs i (Some RspSendFailed)) = rs.
Proof. exact unsent_reply_restores_cache. Qed.
Print Assumptions C13_unsent_reply_restores_cache.
(* a retry (attempt 2..5) that finds the record of its own earlier attempt: it is served, and the record STAYS whatever
   happens to this attempt's reply (clean, lost, or unsendable) - the earlier attempt's reply was sent as far as the
   daemon can tell, so the credential stays consumed *)
Theorem C13_retry_on_own_record_keeps_it :
  forall (hmac : N -> bytes -> bytes -> bytes) (sha1 : bytes -> bytes) (blk_dec : N -> bytes -> bytes -> bytes)
         (zdecomp : N -> bytes -> N -> option bytes) cf mem cred pu pg now (rs : CredModel.rstate) i f m0 k,
  cf_socket_retry cf = true ->
  dec_pre hmac sha1 blk_dec zdecomp cf mem (req cred 0) pu pg now = inr (m0, k) -> (2 <= i <= 5)%nat ->
  dec_attempt hmac sha1 blk_dec zdecomp cf mem cred pu pg now (k :: rs) i f =
  (k :: rs, match f with None => Some (rt (N.of_nat (i - 1)) m0) | Some _ => None end).
Proof. exact retry_on_own_record_keeps_it. Qed.
Print Assumptions C13_retry_on_own_record_keeps_it.
