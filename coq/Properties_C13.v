(* Properties_C13.v — statements only.  Broken connections are retried safely and never burn a credential.
   Model: RetryModel (libmunge's m_msg_client_xfer loop, attempts 1..5 carrying retry = attempt - 1) against
   CredModel.dec_process with the three observable outcomes of a cut connection per attempt: the request does
   not arrive (ReqCut), the reply is lost although munged's send succeeded (RspLost), munged's send fails and it
   rolls the replay record back (RspSendFailed). *)
From Coq Require Import List NArith ZArith Bool String.
From RecordUpdate Require Import RecordSet.
From MV Require Import Bytes CredModel CredProofs RetryModel RetryProofs.
From MV.gen Require Import GenCred.
Import ListNotations.
Local Open Scope N_scope.

Section C13.
Variable hmac : N -> bytes -> bytes -> bytes.
Variable sha1 : bytes -> bytes.
Variable blk_enc blk_dec : N -> bytes -> bytes -> bytes.
Variable zcomp : N -> bytes -> option bytes.
Variable zdecomp : N -> bytes -> N -> option bytes.

(* Up to four faulty attempts of ANY kinds in ANY order, then a clean one: munge_decode returns exactly what a
   fault-free first decode returns (compared up to the retry counter, which DEC_RSP does not carry), and the
   replay cache ends as after that fault-free decode: (a) if the cache-independent part fails (hard error,
   unauthorized, expired, rewound) that same reply, cache untouched; (b) if it accepts and the credential is new:
   success — in particular after a lost first reply, instead of 'replayed' — and exactly one record. *)
Theorem C13_retry_masks_faults : forall cf mem cred pu pg now rs faults,
  cf_socket_retry cf = true -> (List.length faults <= 4)%nat ->
  match dec_pre hmac sha1 blk_dec zdecomp cf mem (req cred 0) pu pg now with
  | inl r0 =>
      exists r, munge_decode_under_faults hmac sha1 blk_dec zdecomp cf mem cred pu pg now rs faults = (rs, Some r)
                /\ strip r = strip r0
  | inr (m0, k) =>
      r_mem k rs = false ->
      exists r, munge_decode_under_faults hmac sha1 blk_dec zdecomp cf mem cred pu pg now rs faults = (k :: rs, Some r)
                /\ strip r = strip m0
  end.
Proof. exact (retry_masks_faults hmac sha1 blk_dec zdecomp). Qed.

(* munged could not deliver the reply to a successful decode and the client never retries: the cache is exactly
   as before, the credential remains decodable *)
Theorem C13_unsent_reply_keeps_credential : forall cf mem cred pu pg now rs m0 k,
  dec_pre hmac sha1 blk_dec zdecomp cf mem (req cred 0) pu pg now = inr (m0, k) -> r_mem k rs = false ->
  fst (dec_attempt hmac sha1 blk_dec zdecomp cf mem cred pu pg now rs 1 (Some RspSendFailed)) = rs.
Proof. exact (unsent_reply_keeps_credential hmac sha1 blk_dec zdecomp). Qed.

(* five faulty attempts: a socket error, never a wrong or partial result (that a received reply is complete and
   well formed or an error is C14_send_recv / C14_recv_total_and_bounded) *)
Theorem C13_exhausted_is_socket_error : forall cf mem cred pu pg now rs faults,
  (5 <= List.length faults)%nat ->
  snd (munge_decode_under_faults hmac sha1 blk_dec zdecomp cf mem cred pu pg now rs faults) = None.
Proof. exact (exhausted_is_socket_error hmac sha1 blk_dec zdecomp). Qed.

(* the retry counter: libmunge sends 0..4; munged refuses anything above MUNGE_SOCKET_RETRY_ATTEMPTS *)
Theorem C13_retry_bounds : forall cf mem rs m pu pg now,
  m_err m = e_success -> m_data_len m <> 0 -> c_retry_attempts < m_retry m ->
  let '(r, rs', k) := dec_process hmac sha1 blk_dec zdecomp cf mem rs m pu pg now in
  m_err r = e_socket /\ is_reset r /\ rs' = rs /\ k = None.
Proof. exact (retry_bounds hmac sha1 blk_dec zdecomp). Qed.

(* the cache-independent part of decode does not depend on the retry counter *)
Theorem C13_decode_is_retry_independent : forall cf mem m pu pg now r1 r2,
  r1 <= c_retry_attempts -> r2 <= c_retry_attempts ->
  dec_pre hmac sha1 blk_dec zdecomp cf mem (RecordSet.set m_retry (fun _ => r2) m) pu pg now =
  retag r2 (dec_pre hmac sha1 blk_dec zdecomp cf mem (RecordSet.set m_retry (fun _ => r1) m) pu pg now).
Proof. exact (dec_pre_retry hmac sha1 blk_dec zdecomp). Qed.

(* encode: a retried munge_encode is served exactly as a first attempt would be *)
Theorem C13_encode_is_retry_independent : forall cf m pu pg now salt ivr r1 r2,
  r1 <= c_retry_attempts -> r2 <= c_retry_attempts ->
  enc_process hmac sha1 blk_enc zcomp cf (RecordSet.set m_retry (fun _ => r2) m) pu pg now salt ivr =
  enc_process hmac sha1 blk_enc zcomp cf (RecordSet.set m_retry (fun _ => r1) m) pu pg now salt ivr.
Proof. exact (enc_process_retry hmac sha1 blk_enc zcomp). Qed.

Theorem C13_encode_retry_exceeded_issues_nothing : forall cf m pu pg now salt ivr,
  m_err m = e_success -> c_retry_attempts < m_retry m ->
  let r := enc_process hmac sha1 blk_enc zcomp cf m pu pg now salt ivr in
  er_data r = [] /\ (er_err r = e_socket \/ er_err r = e_bad_cipher \/ er_err r = e_bad_mac \/ er_err r = e_bad_zip).
Proof. exact (enc_retry_exceeded_no_cred hmac sha1 blk_enc zcomp). Qed.
End C13.
Print Assumptions C13_retry_masks_faults.
Print Assumptions C13_unsent_reply_keeps_credential.
Print Assumptions C13_exhausted_is_socket_error.
Print Assumptions C13_retry_bounds.
Print Assumptions C13_decode_is_retry_independent.
Print Assumptions C13_encode_is_retry_independent.
Print Assumptions C13_encode_retry_exceeded_issues_nothing.

(* non-vacuity (computed inside Coq with toy primitives): lost reply, failed send, cut request, lost reply, then a
   clean attempt -> success with the payload and exactly one record; five faults -> socket error *)
Example C13_example_accept :
  toy_view (toy_decode cf_std 5010 [RspLost; RspSendFailed; ReqCut; RspLost]) = Some (1%nat, e_success, str "hello"%string, 1000).
Proof. exact retry_example_accept. Qed.
Example C13_example_exhausted :
  toy_view (toy_decode cf_std 5010 [RspLost; RspSendFailed; ReqCut; RspLost; ReqCut]) = None.
Proof. exact retry_example_exhausted. Qed.
