(* Properties_C01_lib.v — statements only.  C01 through LIBMUNGE: what munge_encode() / munge_decode() do with the
   application's context.  The static helpers of src/libmunge/encode.c and decode.c (_encode_init, _encode_req,
   _encode_rsp, _decode_init, _decode_req, _decode_rsp) are TRANSLATED FROM THE C TEXT on every run into gen/GenLibFun.v
   (tools/facts/libfun.py; the record `lctx` is generated from struct munge_ctx in ctx.h), so a member that goes to the
   wrong option, a dropped assignment or a changed default changes the functions the theorems are about.
   LibCtxModel.v composes them as munge_encode / munge_decode do; the daemon side is CredModel and the daemon-level
   round trip C01_roundtrip (CredRoundtrip.roundtrip), reused, not re-proved. *)
From Coq Require Import List NArith ZArith Bool String.
From Coq.Strings Require Import Byte.
From RecordUpdate Require Import RecordSet.
From MV Require Import Bytes Base64Model CredModel CredProofs CredRoundtrip LibCtxModel LibCtxProofs.
From MV.gen Require Import GenCred GenLibFun.
Import ListNotations RecordSetNotations.
Local Open Scope Z_scope.

(* (a) the ENC_REQ built from (ctx, buf, len): every option of the context goes to its own member of the request
   (converted to the member's C type: codes to uint8_t, the TTL and the length to uint32_t), the realm pointer with
   strlen + 1, the caller's buffer and length; for ctx = NULL the documented defaults (default cipher / MAC / zip,
   default TTL, no restriction, no realm); no other member of the message is touched and the context is not changed *)
Theorem C01_lib_request_carries_options : forall (m0 : msg) (ctx : option lctx) (buf : option bytes) (blen : Z),
  exists m, lib_encode_req m0 ctx buf blen = (Z.of_N e_success, (m, ctx, tt)) /\
  match ctx with
  | Some x =>
      m_cipher m = Z.to_N (x_cipher x mod 256) /\ m_mac m = Z.to_N (x_mac x mod 256) /\ m_zip m = Z.to_N (x_zip x mod 256) /\
      m_ttl m = Z.to_N (x_ttl x mod 4294967296) /\
      m_auth_uid m = Z.to_N (x_auth_uid x) /\ m_auth_gid m = Z.to_N (x_auth_gid x) /\
      match x_realm_str x with
      | Some r => m_realm m = r /\ m_realm_len m = Z.to_N ((Z.of_N (c_strlen r) + 1) mod 256)
      | None => m_realm m = [] /\ m_realm_len m = 0%N
      end
  | None =>
      m_cipher m = c_cipher_default /\ m_mac m = c_mac_default /\ m_zip m = c_zip_default /\ m_ttl m = c_ttl_default /\
      m_auth_uid m = c_uid_any /\ m_auth_gid m = c_gid_any /\ m_realm m = [] /\ m_realm_len m = 0%N
  end /\
  m_data m = ptrv buf /\ m_data_len m = Z.to_N (blen mod 4294967296) /\
  m_retry m = m_retry m0 /\ m_err m = m_err m0 /\ m_errstr m = m_errstr m0 /\
  m_addr_len m = m_addr_len m0 /\ m_addr m = m_addr m0 /\ m_time0 m = m_time0 m0 /\ m_time1 m = m_time1 m0 /\
  m_client_uid m = m_client_uid m0 /\ m_client_gid m = m_client_gid m0 /\
  m_cred_uid m = m_cred_uid m0 /\ m_cred_gid m = m_cred_gid m0.
Proof. exact lib_request_carries_options. Qed.
Print Assumptions C01_lib_request_carries_options.

(* (b) what _decode_rsp reports, for EVERY DEC_RSP, every context (NULL included: None) and every choice of result
   pointers (None = the caller passed NULL): cipher -> cipher, mac -> mac, zip -> zip, realm -> realm, ttl -> ttl (as an
   int), origin address -> addr, encode time -> time0, decode time -> time1, uid restriction -> auth_uid, gid
   restriction -> auth_gid; the context's error members are left to munge_decode; *buf = the payload when buf and len
   are passed and the payload is not empty, *len = its length, *uid / *gid = the ENCODER's ids; the return value is
   the reply's error code *)
Theorem C01_lib_decode_reports_reply : forall (txt : nat -> bytes) (r : msg) (ctx : option lctx)
  (ob : option (option bytes)) (ol ou og : option Z),
  lib_decode_rsp txt msgt_dec_rsp r ctx ob ol ou og =
  (Z.of_N (m_err r),
   (r,
    match ctx with
    | Some x => Some {| x_cipher := Z.of_N (m_cipher r); x_mac := Z.of_N (m_mac r); x_zip := Z.of_N (m_zip r);
                        x_realm_str := mptr (m_realm r); x_ttl := wrapi32 (Z.of_N (m_ttl r)); x_addr := m_addr r;
                        x_time0 := Z.of_N (m_time0 r); x_time1 := Z.of_N (m_time1 r);
                        x_auth_uid := Z.of_N (m_auth_uid r); x_auth_gid := Z.of_N (m_auth_gid r);
                        x_error_num := x_error_num x; x_error_str := x_error_str x |}
    | None => None
    end,
    (if is_some ob && is_some ol && (0 <? m_data_len r)%N then Some (mptr (m_data r)) else ob),
    (if is_some ol then Some (wrapi32 (Z.of_N (m_data_len r))) else ol),
    (if is_some ou then Some (Z.of_N (m_cred_uid r)) else ou),
    (if is_some og then Some (Z.of_N (m_cred_gid r)) else og), tt)).
Proof. exact lib_decode_reports_reply. Qed.
Print Assumptions C01_lib_decode_reports_reply.

(* an error reply without payload (every hard error: the daemon resets the message, C09) gives the error code, leaves
   *buf as _decode_init cleared it and reports length 0; a message of another type is EMUNGE_SNAFU and reports nothing *)
Theorem C01_lib_decode_error_no_payload : forall txt r ctx b0 l0 ou og, m_data_len r = 0%N ->
  let '(rc, (_, _, ob, ol, _, _, _)) := lib_decode_rsp txt msgt_dec_rsp r ctx (Some b0) (Some l0) ou og in
  rc = Z.of_N (m_err r) /\ ob = Some b0 /\ ol = Some 0.
Proof. exact lib_decode_error_no_payload. Qed.
Print Assumptions C01_lib_decode_error_no_payload.
Theorem C01_lib_decode_rejects_other_types : forall txt t r ctx ob ol ou og, t <> msgt_dec_rsp ->
  lib_decode_rsp txt t r ctx ob ol ou og =
  (Z.of_N e_snafu, (set_err r e_snafu (Some (txt 0%nat)), ctx, ob, ol, ou, og, tt)).
Proof. exact lib_decode_rejects_other_types. Qed.
Print Assumptions C01_lib_decode_rejects_other_types.

(* what is reset before a call *)
Theorem C01_lib_encode_init_resets : forall (oc : option (option bytes)) (ctx : option lctx),
  lib_encode_init oc ctx =
  (0, ((if is_some oc then Some None else oc),
       match ctx with Some x => Some (x <| x_error_num := Z.of_N e_success |> <| x_error_str := None |>) | None => None end, tt)).
Proof. exact lib_encode_init_resets. Qed.
Print Assumptions C01_lib_encode_init_resets.
Theorem C01_lib_decode_init_resets : forall (ctx : option lctx) (ob : option (option bytes)) (ol ou og : option Z),
  lib_decode_init ctx ob ol ou og =
  (0, (match ctx with
       | Some x => Some {| x_cipher := -1; x_mac := -1; x_zip := -1; x_realm_str := None; x_ttl := -1; x_addr := zero4;
                           x_time0 := -1; x_time1 := -1; x_auth_uid := 4294967295; x_auth_gid := 4294967295;
                           x_error_num := Z.of_N e_success; x_error_str := None |}
       | None => None
       end,
       (if is_some ob then Some None else ob), (if is_some ol then Some 0 else ol),
       (if is_some ou then Some 4294967295 else ou), (if is_some og then Some 4294967295 else og), tt)).
Proof. exact lib_decode_init_resets. Qed.
Print Assumptions C01_lib_decode_init_resets.

(* _encode_rsp hands out the credential of a reply that has one, with the reply's error code; _decode_req passes the
   credential string with its NUL and strlen + 1, and does not consult the context *)
Theorem C01_lib_encode_rsp_returns_credential : forall txt (m : msg) (c0 : option bytes), (0 < m_data_len m)%N ->
  lib_encode_rsp txt msgt_enc_rsp m (Some c0) = (Z.of_N (m_err m), (m, Some (mptr (m_data m)), tt)).
Proof. exact lib_encode_rsp_returns_credential. Qed.
Print Assumptions C01_lib_encode_rsp_returns_credential.
Theorem C01_lib_decode_req_carries_credential : forall (m0 : msg) ctx (c : bytes),
  no_nul c = true -> (len c + 1 < 4294967296)%N ->
  lib_decode_req m0 ctx (Some (cstring c)) =
  (Z.of_N e_success, (m0 <| m_data_len := len (cstring c) |> <| m_data := cstring c |>, ctx, tt)).
Proof. exact lib_decode_req_carries_credential. Qed.
Print Assumptions C01_lib_decode_req_carries_credential.

Section C01lib.
Variable hmac : N -> bytes -> bytes -> bytes.
Variable sha1 : bytes -> bytes.
Variable blk_enc blk_dec : N -> bytes -> bytes -> bytes.
Variable zcomp : N -> bytes -> option bytes.
Variable zdecomp : N -> bytes -> N -> option bytes.
(* all that is assumed of the primitives (as in C01_roundtrip) *)
Hypothesis hmac_len : forall a k d, mac_valid a = true -> len (hmac a k d) = mac_size a.
Hypothesis blk_len : forall c k b, cipher_valid c = true -> len b = cipher_blk_size c -> len (blk_enc c k b) = cipher_blk_size c.
Hypothesis blk_inv : forall c k b, cipher_valid c = true -> len b = cipher_blk_size c -> blk_dec c k (blk_enc c k b) = b.
Hypothesis zip_inv : forall z x raw mx, zip_valid z = true -> zcomp z x = Some raw -> (len x <= mx)%N -> zdecomp z raw mx = Some x.

(* (c) For every pair of daemon configurations sharing the key, every well-formed application context x (options inside
   the ranges of their C types, realm a C string or none) and payload, every encoder identity, salt, IV and clocks: IF the
   daemon's encode of the request libmunge builds succeeds THEN munge_encode returns that credential with code 0 and
   the context unchanged but for the cleared error, AND the first munge_decode of it (all four result pointers passed)
   by an authorized client inside the lifetime - whatever the decoder's context y held before, NULL included - returns
   0, the byte-identical payload (NULL for an empty one) and its length, the ENCODER's uid and gid, and a context with
   cipher / MAC = requested with the encoder's defaults resolved, zip = none or the resolved request, TTL = resolved and
   capped by the DECODING daemon, the origin address, encode and decode time, the uid / gid restrictions, no error.
   (len (eo_cred o) < 2^32: libmunge stores strlen + 1 in a uint32_t; the request gate C01_length_gate bounds it by 1 MiB.) *)
Theorem C01_library_roundtrip :
  forall txt (cfe cfd : conf) (x : lctx) (data : bytes) (m1 : msg) (pu pg now : N) (salt ivr : bytes) (o : enc_out),
  wf_conf cfe -> cf_key cfd = cf_key cfe -> ctx_ok x -> (len data < 2147483648 - 1024)%N ->
  (pu < 4294967296)%N -> (pg < 4294967296)%N -> len salt = c_salt_len -> (16 <= len ivr)%N ->
  enc_pre cfe (lib_enc_request (Some x) data) pu pg now = inl m1 ->
  enc_core hmac sha1 blk_enc zcomp cfe m1 salt ivr = inr o ->
  lib_munge_encode txt (fun m => enc_process hmac sha1 blk_enc zcomp cfe m pu pg now salt ivr)
                   (Some x) (Some data) (Z.of_N (len data))
    = (0, Some (eo_cred o), Some (x <| x_error_num := 0 |> <| x_error_str := None |>)) /\
  forall (mem : N -> N -> bool) (rs : rstate) (du dg now' : N) (y : option lctx),
  (du < 4294967296)%N -> (dg < 4294967296)%N ->
  (len (eo_cred o) < 4294967296)%N -> (cf_max_ttl cfd < 2147483648)%N ->
  let au := Z.to_N (x_auth_uid x) in let ag := Z.to_N (x_auth_gid x) in
  let ttl' := capped cfd (res_ttl cfe x) in
  let t0 := u32 now in
  (au = c_uid_any \/ au = du \/ (cf_root_auth cfd = true /\ du = 0%N)) ->
  (ag = c_gid_any \/ ag = dg \/ mem du ag = true) ->
  (Z.of_N t0 - Z.of_N (skew_of cfd ttl') <= Z.of_N (u32 now')) -> (u32 now' <= t0 + ttl')%N ->
  r_mem (firstn 16 (eo_tag o), (t0 + ttl')%N) rs = false ->
  exists ctx',
    lib_munge_decode txt (fun m => fst (fst (dec_process hmac sha1 blk_dec zdecomp cfd mem rs m du dg now')))
                     y (Some (eo_cred o)) true true true true
      = (0, ctx', Some (mptr data), Some (Z.of_N (len data)), Some (Z.of_N pu), Some (Z.of_N pg)) /\
    match y, ctx' with
    | None, None => True
    | Some _, Some c =>
        x_cipher c = Z.of_N (res_cipher cfe x) /\ x_mac c = Z.of_N (res_mac cfe x) /\
        (x_zip c = Z.of_N c_zip_none \/ x_zip c = Z.of_N (res_zip cfe x data)) /\
        x_ttl c = Z.of_N ttl' /\ x_addr c = cf_addr cfe /\
        x_time0 c = Z.of_N t0 /\ x_time1 c = Z.of_N (u32 now') /\
        x_auth_uid c = x_auth_uid x /\ x_auth_gid c = x_auth_gid x /\
        x_error_num c = 0 /\ x_error_str c = None
    | _, _ => False
    end.
Proof. exact (library_roundtrip hmac sha1 blk_enc blk_dec zcomp zdecomp hmac_len blk_len blk_inv zip_inv). Qed.
End C01lib.
Print Assumptions C01_library_roundtrip.

(* non-vacuity, computed inside Coq on the translated functions with toy primitives (identity "cipher", constant-size
   "MAC", identity "compression"): a context asking for cipher none, MAC 5, no zip, TTL 60, uid restriction 7, and a
   decoder whose context still holds junk; munge_encode then munge_decode through the library *)
Example C01_lib_example :
  let hm := fun (a : N) (k d : bytes) => repeat x2a (N.to_nat (mac_size a)) in
  let idb := fun (_ : N) (_ b : bytes) => b in
  let x := {| x_cipher := 0; x_mac := 5; x_zip := 0; x_realm_str := None; x_ttl := 60; x_addr := zero4; x_time0 := 0;
              x_time1 := 0; x_auth_uid := 7; x_auth_gid := 4294967295; x_error_num := 3; x_error_str := Some (str "old"%string) |} in
  let junk := {| x_cipher := 9; x_mac := 9; x_zip := 9; x_realm_str := Some (cstring (str "r"%string)); x_ttl := 1;
                 x_addr := zero4; x_time0 := 1; x_time1 := 1; x_auth_uid := 1; x_auth_gid := 1; x_error_num := 8;
                 x_error_str := Some (str "stale"%string) |} in
  let txt := fun _ : nat => str "?"%string in
  match lib_munge_encode txt (fun m => enc_process hm (fun b => b) idb (fun _ b => Some b) cf_std m 1000 1001 5000
                                                   (repeat x00 8) (repeat x00 16))
                         (Some x) (Some (str "hello"%string)) 5 with
  | (0, Some cred, Some x') =>
      x_error_num x' = 0 /\ x_error_str x' = None /\ x_ttl x' = 60 /\
      lib_munge_decode txt (fun m => fst (fst (dec_process hm (fun b => b) idb (fun _ b _ => Some b) cf_std (fun _ _ => false) []
                                                           m 7 8 5010)))
                       (Some junk) (Some cred) true true true true
      = (0, Some {| x_cipher := 0; x_mac := 5; x_zip := 0; x_realm_str := None; x_ttl := 60; x_addr := cf_addr cf_std;
                    x_time0 := 5000; x_time1 := 5010; x_auth_uid := 7; x_auth_gid := 4294967295; x_error_num := 0;
                    x_error_str := None |},
         Some (Some (str "hello"%string)), Some 5, Some 1000, Some 1001)
  | _ => False
  end.
Proof. vm_compute. repeat split; reflexivity. Qed.
