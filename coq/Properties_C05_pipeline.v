(* Properties_C05_pipeline.v — statements only.  C05 at the level of dec_process_msg (CredModel). *)
From Coq Require Import List NArith ZArith Bool.
From MV Require Import Bytes CredModel CredProofs RetryModel RetryProofs CredHistory.
From MV.gen Require Import GenCred.
Import ListNotations.
Local Open Scope N_scope.

Section C05p.
Variable hmac : N -> bytes -> bytes -> bytes.
Variable sha1 : bytes -> bytes.
Variable blk_dec : N -> bytes -> bytes -> bytes.
Variable zdecomp : N -> bytes -> N -> option bytes.

(* a decode reads the clock twice: t1 when the request is received (time-window check, decode time of the reply) and
   t2 at its replay step, after replay_insert (dec_process2; the atomic dec_process is the case t2 = t1) *)
(* failed decodes (invalid, unauthorized, expired, rewound — everything the cache-independent part refuses)
   never consume a credential: the cache is returned exactly as it was *)
Theorem C05_failed_decode_does_not_consume : forall cf mem rs m pu pg t1 t2 r0,
  dec_pre hmac sha1 blk_dec zdecomp cf mem m pu pg t1 = inl r0 ->
  dec_process2 hmac sha1 blk_dec zdecomp cf mem rs m pu pg t1 t2 = (r0, rs, None).
Proof. exact (failed_decode_does_not_consume hmac sha1 blk_dec zdecomp). Qed.

(* the first accepted presentation of a key that has not expired by its replay step succeeds and records exactly that
   key, whatever other keys the cache holds: equal expiry, same MAC with another expiry, colliding bucket — any
   k' <> k is irrelevant *)
Theorem C05_first_presentation_succeeds : forall cf mem rs m pu pg t1 t2 m' k,
  dec_pre hmac sha1 blk_dec zdecomp cf mem m pu pg t1 = inr (m', k) -> ~ In k rs -> t2 <= snd k ->
  dec_process2 hmac sha1 blk_dec zdecomp cf mem rs m pu pg t1 t2 = (m', k :: rs, Some k).
Proof. exact (first_presentation_succeeds hmac sha1 blk_dec zdecomp). Qed.

(* what any decode does to the cache: nothing, or it adds its own key - with success when the key has not expired by
   the replay step, with 'expired' (and the record left for the purge) when it has *)
Theorem C05_decode_cache_effect : forall cf mem rs m pu pg t1 t2,
  let '(r, rs', _) := dec_process2 hmac sha1 blk_dec zdecomp cf mem rs m pu pg t1 t2 in
  rs' = rs \/ (exists m' k, dec_pre hmac sha1 blk_dec zdecomp cf mem m pu pg t1 = inr (m', k) /\ r_mem k rs = false
                            /\ rs' = k :: rs /\
                            (r = m' /\ t2 <= snd k \/ r = dec_finish (set_err m' e_cred_expired None) /\ snd k < t2)).
Proof. exact (decode_cache_effect hmac sha1 blk_dec zdecomp). Qed.

(* the one-clock dec_process of the other C05 / C01 / C09 / C13 theorems is dec_process2 when the clock has not advanced
   by the replay step *)
Theorem C05_atomic_decode_is_special_case : forall cf mem rs m pu pg now,
  dec_process hmac sha1 blk_dec zdecomp cf mem rs m pu pg now =
  dec_process2 hmac sha1 blk_dec zdecomp cf mem rs m pu pg now (u32 now).
Proof. exact (dec_process_atomic hmac sha1 blk_dec zdecomp). Qed.
End C05p.
Print Assumptions C05_failed_decode_does_not_consume.
Print Assumptions C05_first_presentation_succeeds.
Print Assumptions C05_decode_cache_effect.
Print Assumptions C05_atomic_decode_is_special_case.
