(* Properties_C05_pipeline.v — statements only.  C05 at the level of dec_process_msg (CredModel). *)
From Coq Require Import List NArith ZArith Bool.
From MV Require Import Bytes CredModel CredProofs RetryModel CredHistory.
From MV.gen Require Import GenCred.
Import ListNotations.
Local Open Scope N_scope.

Section C05p.
Variable hmac : N -> bytes -> bytes -> bytes.
Variable sha1 : bytes -> bytes.
Variable blk_dec : N -> bytes -> bytes -> bytes.
Variable zdecomp : N -> bytes -> N -> option bytes.

(* failed decodes (invalid, unauthorized, expired, rewound — everything the cache-independent part refuses)
   never consume a credential: the cache is returned exactly as it was *)
Theorem C05_failed_decode_does_not_consume : forall cf mem rs m pu pg now r0,
  dec_pre hmac sha1 blk_dec zdecomp cf mem m pu pg now = inl r0 ->
  dec_process hmac sha1 blk_dec zdecomp cf mem rs m pu pg now = (r0, rs, None).
Proof. exact (failed_decode_does_not_consume hmac sha1 blk_dec zdecomp). Qed.

(* the first accepted presentation of a key succeeds and records exactly that key, whatever other keys the cache
   holds: equal expiry, same MAC with another expiry, colliding bucket — any k' <> k is irrelevant *)
Theorem C05_first_presentation_succeeds : forall cf mem rs m pu pg now m' k,
  dec_pre hmac sha1 blk_dec zdecomp cf mem m pu pg now = inr (m', k) -> ~ In k rs ->
  dec_process hmac sha1 blk_dec zdecomp cf mem rs m pu pg now = (m', k :: rs, Some k).
Proof. exact (first_presentation_succeeds hmac sha1 blk_dec zdecomp). Qed.

(* what any decode does to the cache: nothing, or it adds its own key *)
Theorem C05_decode_cache_effect : forall cf mem rs m pu pg now,
  let '(r, rs', _) := dec_process hmac sha1 blk_dec zdecomp cf mem rs m pu pg now in
  rs' = rs \/ (exists m' k, dec_pre hmac sha1 blk_dec zdecomp cf mem m pu pg now = inr (m', k) /\ r_mem k rs = false
                            /\ rs' = k :: rs /\ r = m').
Proof. exact (decode_cache_effect hmac sha1 blk_dec zdecomp). Qed.
End C05p.
Print Assumptions C05_failed_decode_does_not_consume.
Print Assumptions C05_first_presentation_succeeds.
Print Assumptions C05_decode_cache_effect.
