(* TimerModel.v — executable model of src/munged/timer.c + clock.c (no proofs here).

   What is modelled, read off timer.c:
   * _timer_active: list kept sorted by clock_is_timespec_le on (tv_sec, tv_nsec); timer_set_absolute walks
     past every entry with ts' <= ts (so equal time-stamps keep set order) and remembers whether it stopped at
     the list head (do_signal).
   * ids: _timer_id++ ; if (_timer_id <= 0) _timer_id = 1   (a `long`; long_max comes from GenTimer).
   * _timer_alloc: re-uses the head of _timer_inactive, else mallocs (slots = struct identities; only the
     unrepaired `return (t->id)` after the unlock needs them, see step_u).
   * timer_cancel: searches _timer_active ONLY; found -> unlinked, pushed on _timer_inactive, returns 1 (and
     signals when it was the head); not found -> 0; id <= 0 -> -1.
   * pthread_cond_signal happens AFTER the mutex is released: `pend` counts callers between unlock and signal;
     a signal that finds the thread not waiting is lost (LSignal).
   * _timer_thread: wakes (signal, time-out or spuriously: LWake is always enabled in a wait), reads the clock
     ONCE, detaches the maximal prefix with ts <= now as a private list (`expired`), RELEASES the mutex, runs
     the callbacks in list order (LBegin / callback ops / LEnd), re-takes the mutex, pushes the whole batch on
     _timer_inactive and goes to wait on the current head's time-stamp (LRetire).  Nothing re-reads the clock
     or rescans `active` while a batch is out (Issue 15 comment in timer.c).
   * a callback is a finite program of set/cancel operations (shape static: `cop`; time-stamps and ids are
     chosen at run time and arrive with the label, so every data-dependent program is covered).
   Every step below is one critical section of timer.c; between steps the mutex is free, which is why set
   and cancel from any thread (LSet/LCancel) are enabled in every state. *)
From Coq Require Import List ZArith Bool.
From MV.gen Require Import GenTimer.
Import ListNotations.
Local Open Scope Z_scope.

Notation ts := (Z * Z)%type.                      (* (tv_sec, tv_nsec) *)

(* clock_is_timespec_le *)
Definition ts_le (a b : ts) : bool :=
  if fst a =? fst b then snd a <=? snd b else fst a <=? fst b.

(* clock_get_timespec (&ts, msecs) with clock_gettime returning `now` *)
Definition ts_add_ms (now : ts) (ms : Z) : ts :=
  if 0 <? ms then
    let sec := fst now + ms / msec_per_sec in
    let ns := snd now + (ms mod msec_per_sec) * nsec_per_msec in
    if nsec_per_sec <=? ns then (sec + ns / nsec_per_sec, ns mod nsec_per_sec) else (sec, ns)
  else now.

Record timer := mkT { t_id : Z; t_ts : ts; t_cb : nat; t_slot : nat }.

Inductive cop := CSet (cb : nat) | CCancel.
Inductive tstate := Wait (d : option ts) | Disp (now : ts).

Record state := mkS {
  active : list timer;
  expired : list timer;                     (* detached batch, callbacks not yet started *)
  running : option (timer * list cop);      (* callback in progress and the rest of its program *)
  done : list timer;                        (* part of the batch already dispatched *)
  inactive : list timer;                    (* free list *)
  last_id : Z;                              (* _timer_id *)
  nslots : nat;                             (* structs malloc'd so far *)
  thr : tstate;                             (* timer thread: blocked in a wait / dispatching *)
  sig : bool;                               (* condition signalled while the thread waits *)
  pend : nat;                               (* callers between mutex_unlock and cond_signal *)
  fired : list (timer * ts)                 (* ghost: callbacks started, with the clock reading of their scan *)
}.

Definition init : state := mkS [] [] None [] [] 0 0 (Wait None) false 0 [].

Inductive label :=
| LSet (t : ts) (cb : nat)        (* timer_set_absolute from any thread that is not inside a callback *)
| LCancel (id : Z)                (* timer_cancel, likewise *)
| LSignal                         (* a pending pthread_cond_signal is delivered *)
| LWake (now : ts)                (* timer thread leaves its wait, scans with clock reading `now` *)
| LBegin                          (* next callback of the batch starts *)
| LCbSet (t : ts)                 (* running callback executes its next op, a set *)
| LCbCancel (id : Z)              (* ... a cancel *)
| LEnd                            (* running callback returns *)
| LRetire.                        (* batch pushed on the free list, thread waits again *)

Inductive out := ONone | ORet (v : Z) | OFire (t : timer).

Fixpoint insert (t : timer) (l : list timer) : list timer :=
  match l with
  | [] => [t]
  | x :: r => if ts_le (t_ts x) (t_ts t) then x :: insert t r else t :: l
  end.

Definition at_head (t : timer) (l : list timer) : bool :=
  match l with [] => true | x :: _ => negb (ts_le (t_ts x) (t_ts t)) end.

Definition next_id (last : Z) : Z :=
  let i := last + 1 in if long_max <? i then 1 else if i <=? 0 then 1 else i.

Fixpoint find_remove (id : Z) (l : list timer) : option (timer * list timer) :=
  match l with
  | [] => None
  | x :: r => if t_id x =? id then Some (x, r)
              else match find_remove id r with
                   | Some (t, r') => Some (t, x :: r')
                   | None => None
                   end
  end.

Definition head_is (id : Z) (l : list timer) : bool :=
  match l with [] => false | x :: _ => t_id x =? id end.

Definition head_ts (l : list timer) : option ts :=
  match l with [] => None | x :: _ => Some (t_ts x) end.

Fixpoint span_due (now : ts) (l : list timer) : list timer * list timer :=
  match l with
  | [] => ([], [])
  | x :: r => if ts_le (t_ts x) now then let (a, b) := span_due now r in (x :: a, b) else ([], l)
  end.

Definition bump (b : bool) (n : nat) : nat := if b then S n else n.

Definition do_set (st : state) (t : ts) (cb : nat) : state * Z :=
  let id := next_id (last_id st) in
  let '(slot, inact, ns) :=
    match inactive st with
    | h :: r => (t_slot h, r, nslots st)
    | [] => (nslots st, [], S (nslots st))
    end in
  let tm := mkT id t cb slot in
  (mkS (insert tm (active st)) (expired st) (running st) (done st) inact id ns (thr st) (sig st)
       (bump (at_head tm (active st)) (pend st)) (fired st), id).

Definition do_cancel (st : state) (id : Z) : state * Z :=
  if id <=? 0 then (st, -1) else
  match find_remove id (active st) with
  | Some (t, rest) =>
      (mkS rest (expired st) (running st) (done st) (t :: inactive st) (last_id st) (nslots st) (thr st)
           (sig st) (bump (head_is id (active st)) (pend st)) (fired st), 1)
  | None => (st, 0)
  end.

Definition set_running (st : state) (r : option (timer * list cop)) : state :=
  mkS (active st) (expired st) r (done st) (inactive st) (last_id st) (nslots st) (thr st) (sig st)
      (pend st) (fired st).

Definition is_wait (t : tstate) : bool := match t with Wait _ => true | Disp _ => false end.

Section Step.
Variable prog : nat -> list cop.            (* the callbacks' programs *)

Definition step (st : state) (l : label) : option (state * out) :=
  match l with
  | LSet t cb => let (st', id) := do_set st t cb in Some (st', ORet id)
  | LCancel id => let (st', r) := do_cancel st id in Some (st', ORet r)
  | LSignal =>
      match pend st with
      | O => None
      | S p => Some (mkS (active st) (expired st) (running st) (done st) (inactive st) (last_id st)
                         (nslots st) (thr st) (if is_wait (thr st) then true else sig st) p (fired st), ONone)
      end
  | LWake now =>
      match thr st with
      | Disp _ => None
      | Wait _ =>
          let (pre, post) := span_due now (active st) in
          match pre with
          | [] => Some (mkS (active st) (expired st) (running st) (done st) (inactive st) (last_id st)
                            (nslots st) (Wait (head_ts (active st))) false (pend st) (fired st), ONone)
          | _ :: _ => Some (mkS post pre (running st) (done st) (inactive st) (last_id st)
                            (nslots st) (Disp now) false (pend st) (fired st), ONone)
          end
      end
  | LBegin =>
      match thr st, running st, expired st with
      | Disp now, None, t :: r =>
          Some (mkS (active st) r (Some (t, prog (t_cb t))) (done st) (inactive st) (last_id st)
                    (nslots st) (thr st) (sig st) (pend st) (fired st ++ [(t, now)]), OFire t)
      | _, _, _ => None
      end
  | LCbSet t =>
      match running st with
      | Some (tm, CSet cb :: rem) =>
          let (st', id) := do_set (set_running st (Some (tm, rem))) t cb in Some (st', ORet id)
      | _ => None
      end
  | LCbCancel id =>
      match running st with
      | Some (tm, CCancel :: rem) =>
          let (st', r) := do_cancel (set_running st (Some (tm, rem))) id in Some (st', ORet r)
      | _ => None
      end
  | LEnd =>
      match running st with
      | Some (tm, []) =>
          Some (mkS (active st) (expired st) None (done st ++ [tm]) (inactive st) (last_id st)
                    (nslots st) (thr st) (sig st) (pend st) (fired st), ONone)
      | _ => None
      end
  | LRetire =>
      match thr st, running st, expired st with
      | Disp _, None, [] =>
          Some (mkS (active st) [] None [] (done st ++ inactive st) (last_id st) (nslots st)
                    (Wait (head_ts (active st))) (sig st) (pend st) (fired st), ONone)
      | _, _, _ => None
      end
  end.

Fixpoint run (st : state) (ls : list label) : option state :=
  match ls with
  | [] => Some st
  | l :: r => match step st l with Some (st', _) => run st' r | None => None end
  end.

(* a wake-up is guaranteed (not merely possible) when the condition was signalled or the deadline passed *)
Definition must_wake (st : state) (now : ts) : bool :=
  match thr st with
  | Wait d => sig st || match d with Some t => ts_le t now | None => false end
  | Disp _ => false
  end.
End Step.

(* ------------------------------------------------------------------------------------------------
   The unrepaired `return (t->id)` of timer_set_absolute: the id is read from the struct AFTER the mutex was
   released.  USetIns = the critical section of a set whose caller has not returned yet (remembers the
   struct); USetRet = that caller reads the struct's id field now. *)
Definition all_timers (st : state) : list timer :=
  active st ++ expired st ++ (match running st with Some (t, _) => [t] | None => [] end)
  ++ done st ++ inactive st.

Fixpoint slot_id (slot : nat) (l : list timer) : Z :=
  match l with
  | [] => 0
  | x :: r => if Nat.eqb (t_slot x) slot then t_id x else slot_id slot r
  end.

Fixpoint id_slot (id : Z) (l : list timer) : nat :=
  match l with
  | [] => O
  | x :: r => if t_id x =? id then t_slot x else id_slot id r
  end.

Inductive ulabel := UBase (l : label) | USetIns (t : ts) (cb : nat) | USetRet.

Definition step_u (prog : nat -> list cop) (s : state * list nat) (u : ulabel)
  : option (state * list nat * out) :=
  let (st, held) := s in
  match u with
  | UBase l => match step prog st l with Some (st', o) => Some (st', held, o) | None => None end
  | USetIns t cb => let (st', id) := do_set st t cb in
                    Some (st', held ++ [id_slot id (active st')], ONone)
  | USetRet => match held with
               | [] => None
               | s0 :: r => Some (st, r, ORet (slot_id s0 (all_timers st)))
               end
  end.

Fixpoint run_u (prog : nat -> list cop) (s : state * list nat) (us : list ulabel) : option (state * list nat * list out) :=
  match us with
  | [] => Some (s, [])
  | u :: r => match step_u prog s u with
              | Some (st', held', o) =>
                  match run_u prog (st', held') r with
                  | Some (s'', os) => Some (s'', o :: os)
                  | None => None
                  end
              | None => None
              end
  end.

(* ------------------------------------------------------------------------------------------------
   Deterministic scheduler used by the extracted oracle (and by harness/timer_harness.c's S mode): after every
   driver operation the pending signals are delivered and the timer thread runs until no wake-up is
   guaranteed.  Callback programs of the harness carry their data (hop). *)
Inductive hop :=
| HSetRel (ms : Z) (cb : nat)       (* timer_set_relative (ms) *)
| HSetAbs (t : ts) (cb : nat)       (* timer_set_absolute *)
| HCancelRel (k : Z)                (* timer_cancel (highest id so far - k) *)
| HCancelAbs (id : Z).

Definition shape (h : hop) : cop :=
  match h with HSetRel _ cb | HSetAbs _ cb => CSet cb | HCancelRel _ | HCancelAbs _ => CCancel end.

Inductive event :=
| ESet (inner : bool) (id : Z)                 (* a set returned id *)
| ECancel (inner : bool) (id : Z) (r : Z)      (* cancel id returned r *)
| EFire (t : timer) (now : ts)
| EHeld                                        (* a set whose caller is parked before returning *)
| EStuck.                                      (* scheduler inconsistency / out of fuel: never expected *)

Section Sched.
Variable hp : nat -> list hop.
Definition hprog (cb : nat) : list cop := map shape (hp cb).

Definition hop_label (inner : bool) (st : state) (now : ts) (h : hop) : label :=
  match h with
  | HSetRel ms cb => if inner then LCbSet (ts_add_ms now ms) else LSet (ts_add_ms now ms) cb
  | HSetAbs t cb => if inner then LCbSet t else LSet t cb
  | HCancelRel k => if inner then LCbCancel (last_id st - k) else LCancel (last_id st - k)
  | HCancelAbs id => if inner then LCbCancel id else LCancel id
  end.

Definition hop_event (inner : bool) (l : label) (o : out) : event :=
  match l, o with
  | LSet _ _, ORet v | LCbSet _, ORet v => ESet inner v
  | LCancel id, ORet v | LCbCancel id, ORet v => ECancel inner id v
  | _, _ => EStuck
  end.

Definition do_hop (inner : bool) (st : state) (now : ts) (h : hop) : state * list event :=
  let l := hop_label inner st now h in
  match step hprog st l with
  | Some (st', o) => (st', [hop_event inner l o])
  | None => (st, [EStuck])
  end.

Fixpoint do_hops (st : state) (now : ts) (hs : list hop) : state * list event :=
  match hs with
  | [] => (st, [])
  | h :: r => let (st1, e1) := do_hop true st now h in
              let (st2, e2) := do_hops st1 now r in (st2, e1 ++ e2)
  end.

Fixpoint settle (fuel : nat) (st : state) (now : ts) : state * list event :=
  match fuel with
  | O => (st, [EStuck])
  | S f =>
      match pend st with
      | S _ => match step hprog st LSignal with
               | Some (st', _) => settle f st' now
               | None => (st, [EStuck])
               end
      | O =>
          match thr st with
          | Wait _ =>
              if must_wake st now then
                match step hprog st (LWake now) with
                | Some (st', _) => settle f st' now
                | None => (st, [EStuck])
                end
              else (st, [])
          | Disp bnow =>
              match expired st with
              | t :: _ =>
                  match step hprog st LBegin with
                  | Some (st1, _) =>
                      let (st2, ev) := do_hops st1 now (hp (t_cb t)) in
                      match step hprog st2 LEnd with
                      | Some (st3, _) => let (st4, ev') := settle f st3 now in
                                         (st4, EFire t bnow :: ev ++ ev')
                      | None => (st2, EFire t bnow :: ev ++ [EStuck])
                      end
                  | None => (st, [EStuck])
                  end
              | [] => match step hprog st LRetire with
                      | Some (st', _) => settle f st' now
                      | None => (st, [EStuck])
                      end
              end
          end
      end
  end.

(* driver operations of one case line *)
Inductive dop :=
| DOp (h : hop)                    (* set / cancel from a worker thread *)
| DClock (t : ts)                  (* the clock now reads t *)
| DClockThen (t : ts) (h : hop)    (* the clock now reads t and, in the window between the timer thread's wait timing
                                      out and its re-taking the mutex, a worker thread makes the call h (a cancel of the
                                      head timer, say): timer.c re-reads the clock and rescans after the re-lock, so this
                                      is the call followed by the scan *)
| DHold (h : hop)                  (* a set whose caller is parked between unlock and return *)
| DRelease.                        (* that caller returns *)

(* repaired = true: the id is taken under the mutex (what the positive theorems describe);
   repaired = false: timer.c as it stands (`return (t->id)` after the unlock). *)
Definition drive1 (repaired : bool) (fuel : nat) (s : state * ts * list (nat * Z)) (d : dop)
  : state * ts * list (nat * Z) * list event :=
  let '(st, now, held) := s in
  match d with
  | DOp h => let (st1, e1) := do_hop false st now h in
             let (st2, e2) := settle fuel st1 now in (st2, now, held, e1 ++ e2)
  | DClock t => let (st2, e2) := settle fuel st t in (st2, t, held, e2)
  | DClockThen t h => let (st1, e1) := do_hop false st t h in
                      let (st2, e2) := settle fuel st1 t in (st2, t, held, e1 ++ e2)
  | DHold h =>
      match hop_label false st now h with
      | LSet t cb => let (st1, id) := do_set st t cb in
                     let (st2, e2) := settle fuel st1 now in
                     if Nat.eqb (pend st1) (pend st)
                     then (st2, now, held, ESet false id :: e2)      (* not a head insert: no signal to park in *)
                     else (st2, now, held ++ [(id_slot id (active st1), id)], e2 ++ [EHeld])
      | _ => (st, now, held, [EStuck])
      end
  | DRelease =>
      match held with
      | [] => (st, now, held, [])
      | (slot, id) :: r =>
          let v := if repaired then id else slot_id slot (all_timers st) in
          let (st2, e2) := settle fuel st now in (st2, now, r, ESet false v :: e2)
      end
  end.

Fixpoint drive (repaired : bool) (fuel : nat) (s : state * ts * list (nat * Z)) (ds : list dop)
  : list (list event) :=
  match ds with
  | [] => []
  | d :: r => let '(s', ev) := drive1 repaired fuel s d in ev :: drive repaired fuel s' r
  end.
End Sched.
