(* Properties_C06.v — statements only.  Credentials are valid exactly inside their time window; TTLs bounded.
   Model: CredModel.dec_time / enc_validate (dec.c:dec_validate_time, enc.c:enc_validate_msg). *)
From Coq Require Import List NArith ZArith Bool.
From MV Require Import Bytes CredModel CredProofs.
From MV.gen Require Import GenCred.
Local Open Scope N_scope.

(* the decision equals the property's inequality, for ALL encode times, TTLs and decode times (the 32-bit
   wire values included), every --max-ttl and both settings of clock-skew tolerance *)
Theorem C06_window_exact : forall (cf : conf) (t0 ttl t1 : N),
  let ttl' := capped cf ttl in let skew := skew_of cf ttl' in
  (fst (dec_time cf t0 ttl t1) = TOk <-> (Z.of_N t0 - Z.of_N skew <= Z.of_N t1 /\ Z.of_N t1 <= Z.of_N t0 + Z.of_N ttl')%Z) /\
  (fst (dec_time cf t0 ttl t1) = TExpired <->
     (Z.of_N t0 - Z.of_N skew <= Z.of_N t1 /\ Z.of_N t0 + Z.of_N ttl' < Z.of_N t1)%Z) /\
  (fst (dec_time cf t0 ttl t1) = TRewound <-> (Z.of_N t1 < Z.of_N t0 - Z.of_N skew)%Z).
Proof. exact window_exact. Qed.
Print Assumptions C06_window_exact.

(* the reply to expired / rewound / success carries the TTL capped by the decoding daemon *)
Theorem C06_reported_ttl_is_capped : forall cf t0 ttl t1, snd (dec_time cf t0 ttl t1) = capped cf ttl.
Proof. exact dec_time_ttl. Qed.
Print Assumptions C06_reported_ttl_is_capped.

(* on encode: 0 selects the default; everything above the maximum, the 2^32-1 sentinel included, is clamped *)
Theorem C06_ttl_on_encode : forall cf m m', enc_validate cf m = inl m' ->
  m_ttl m' = (if m_ttl m =? 0 then cf_def_ttl cf
              else if cf_max_ttl cf <? m_ttl m then cf_max_ttl cf else m_ttl m).
Proof. exact enc_validate_ttl. Qed.
Print Assumptions C06_ttl_on_encode.

(* no credential is honoured for longer than the decoding daemon's --max-ttl *)
Theorem C06_no_credential_outlives_max_ttl : forall cf t0 ttl t1,
  fst (dec_time cf t0 ttl t1) = TOk -> t1 <= t0 + cf_max_ttl cf.
Proof. exact no_credential_outlives_max_ttl. Qed.
Print Assumptions C06_no_credential_outlives_max_ttl.

(* the arithmetic of the code before the repair (uint32 tmin/tmax) broke the inequality at both edges *)
Theorem C06_window_wrap_low_refuted :
  exists t0 ttl t1, t0 <= t1 /\ t1 <= t0 + ttl /\ dec_time_u32 cf_std t0 ttl t1 = TRewound
                    /\ fst (dec_time cf_std t0 ttl t1) = TOk.
Proof. exact window_wrap_low_refuted. Qed.
Print Assumptions C06_window_wrap_low_refuted.
Theorem C06_window_wrap_high_refuted :
  exists t0 ttl t1, t0 <= t1 /\ t1 <= t0 + ttl /\ t1 < 4294967296 /\ dec_time_u32 cf_std t0 ttl t1 = TExpired
                    /\ fst (dec_time cf_std t0 ttl t1) = TOk.
Proof. exact window_wrap_high_refuted. Qed.
Print Assumptions C06_window_wrap_high_refuted.

(* non-vacuity: an instance at a window end-point *)
Example C06_boundary : fst (dec_time cf_std 5000 300 5300) = TOk /\ fst (dec_time cf_std 5000 300 5301) = TExpired
  /\ fst (dec_time cf_std 5000 300 4700) = TOk /\ fst (dec_time cf_std 5000 300 4699) = TRewound.
Proof. vm_compute. repeat split; reflexivity. Qed.

(* TRANSLATOR TIE: the decision function the theorems above are about IS dec.c's dec_validate_time, and the encode-side
   defaulting/capping of the TTL IS enc.c's enc_validate_msg, as translated from the C text on every run
   (tools/facts/cfun.py -> gen/GenCredFun.v; C integer types made explicit: uint32 wrap, conversion to int, 64-bit
   time_t).  A swapped pair of statements, a dropped cast, another member or operator changes the translation and breaks
   these equalities. *)
From RecordUpdate Require Import RecordSet.
From MV Require Import CredFun.
From MV.gen Require Import GenCredFun.
Import RecordSetNotations.

Theorem C06_time_check_is_the_source : forall (cf : conf) (m : msg),
  cf_max_ttl cf < 2147483648 -> m_ttl m < 4294967296 ->
  let r := dec_time cf (m_time0 m) (m_ttl m) (m_time1 m) in
  src_dec_validate_time cf m = (tcode (fst r), m <| m_ttl := snd r |>).
Proof. exact dec_time_is_source. Qed.
Print Assumptions C06_time_check_is_the_source.

Theorem C06_enc_validate_is_the_source : forall (cf : conf) (m : msg),
  cf_def_cipher cf < 256 -> cf_def_mac cf < 256 -> cf_def_zip cf < 256 ->
  cf_def_ttl cf < 4294967296 -> cf_max_ttl cf < 4294967296 -> m_err m = e_success ->
  match enc_validate cf m with
  | inl m' => src_enc_validate_msg cf m = (0, m')
  | inr e => fst (src_enc_validate_msg cf m) = m_err e
  end.
Proof. exact enc_validate_is_source. Qed.
Print Assumptions C06_enc_validate_is_the_source.
