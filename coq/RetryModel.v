(* RetryModel.v — the client retry loop of libmunge (m_msg_client.c:m_msg_client_xfer) against the daemon's
   decode/encode processing, under per-attempt connection faults.  No proofs here. *)
From Coq Require Import List NArith ZArith Bool String.
From Coq.Strings Require Import Byte.
From RecordUpdate Require Import RecordSet.
From MV Require Import Bytes Base64Model CredModel.
From MV.gen Require Import GenCred.
Import ListNotations RecordSetNotations.
Local Open Scope N_scope.

(* what can happen to one attempt (one connection) *)
Inductive fault :=
| ReqCut          (* the request never arrives in full: munged reads a short header/body, processes nothing *)
| RspLost         (* munged processed the request and its send succeeded; the client got nothing usable
                     (connection cut at some byte of the reply: m_msg_recv fails on a short or malformed read) *)
| RspSendFailed.  (* munged processed the request but m_msg_send failed: dec_process_msg rolls the replay
                     record back (replay_remove) *)

Section Retry.
Variable hmac : N -> bytes -> bytes -> bytes.
Variable sha1 : bytes -> bytes.
Variable blk_dec : N -> bytes -> bytes -> bytes.
Variable zdecomp : N -> bytes -> N -> option bytes.

Notation dec_process := (dec_process hmac sha1 blk_dec zdecomp).

(* one attempt of munge_decode: attempt number i >= 1 carries retry = i - 1 in the header *)
Definition dec_attempt (cf : conf) (mem : N -> N -> bool) (cred : bytes) (pu pg now : N)
           (rs : rstate) (i : nat) (f : option fault) : rstate * option msg :=
  let m := msg0 <| m_data := cred |> <| m_data_len := len cred |> <| m_retry := N.of_nat (i - 1) |> in
  match f with
  | Some ReqCut => (rs, None)
  | Some RspLost => let '(_, rs', _) := dec_process cf mem rs m pu pg now in (rs', None)
  | Some RspSendFailed => let '(_, rs', k) := dec_process cf mem rs m pu pg now in (dec_rollback rs' k, None)
  | None => let '(r, rs', _) := dec_process cf mem rs m pu pg now in (rs', Some r)
  end.

(* m_msg_client_xfer: attempts i, i+1, ... up to MUNGE_SOCKET_RETRY_ATTEMPTS; `faults` lists what happens to the
   successive attempts (an exhausted list means: no more faults).  None = EMUNGE_SOCKET after the last attempt. *)
Fixpoint dec_client (fuel : nat) (cf : conf) (mem : N -> N -> bool) (cred : bytes) (pu pg now : N)
         (rs : rstate) (i : nat) (faults : list fault) : rstate * option msg :=
  match fuel with
  | O => (rs, None)
  | S fuel' =>
    let '(f, rest) := match faults with [] => (None, []) | f :: r => (Some f, r) end in
    match dec_attempt cf mem cred pu pg now rs i f with
    | (rs', Some r) => (rs', Some r)
    | (rs', None) =>
        if Nat.leb (N.to_nat c_retry_attempts) i then (rs', None)
        else dec_client fuel' cf mem cred pu pg now rs' (S i) rest
    end
  end.

Definition munge_decode_under_faults cf mem cred pu pg now rs faults :=
  dec_client (N.to_nat c_retry_attempts) cf mem cred pu pg now rs 1 faults.

(* The part of dec_process_msg before the replay cache is consulted: a final reply (hard error, unauthorized,
   expired, rewound: the cache is neither read nor written) or an accepted message with its replay key. *)
Definition dec_pre (cf : conf) (mem : N -> N -> bool) (m : msg) (pu pg now : N) : msg + (msg * rkey) :=
  if (m_data_len m =? 0)
  then inl (dec_finish (set_err m e_snafu (Some (str "No credential specified in decode request")))) else
  let m := m <| m_time0 := 0 |> <| m_time1 := u32 now |> <| m_client_uid := pu |> <| m_client_gid := pg |> in
  if c_retry_attempts <? m_retry m
  then inl (dec_finish (set_err m e_socket (Some (str "Exceeded maximum number of decode attempts")))) else
  match dec_parse hmac sha1 blk_dec zdecomp cf m with
  | inl e => inl (dec_finish e)
  | inr (m, tag) =>
    if negb (dec_authorized cf mem m)
    then inl (dec_finish (set_err m e_cred_unauthorized (Some (unauth_str m)))) else
    let '(tv, ttl') := dec_time cf (m_time0 m) (m_ttl m) (m_time1 m) in
    let m := m <| m_ttl := ttl' |> in
    match tv with
    | TRewound => inl (dec_finish (set_err m e_cred_rewound None))
    | TExpired => inl (dec_finish (set_err m e_cred_expired None))
    | TOk => inr (m, cred_rkey tag m)
    end
  end.

End Retry.
