(* GENERATED from src/munged/replay.c by tools/gen_facts.py - do not edit *)
From Coq Require Import List NArith.
Import ListNotations.
Local Open Scope N_scope.
Definition replay_hash_size : N := 65537.
Definition replay_mac_len : nat := 16.
Definition munge_minimum_md_len : N := 16.
Definition replay_purge_secs : N := 60.
Definition munge_maximum_ttl : N := 3600.
Definition munge_default_ttl : N := 300.
Definition replay_texp_wraps32 : bool := false.
Definition replay_texp_exact : bool := true.
Definition replay_keyf_weights : list N := [1; 256; 65536; 16777216; 0; 0; 0; 0; 0; 0; 0; 0; 0; 0; 0; 0].
Definition replay_keyf_modulus : N := 4294967296.
Definition replay_keyf_linear : bool := true.
Definition replay_cmp_len : nat := 16.
Definition replay_cmp_unsigned : bool := true.
Definition replay_cmp_time_tiebreak : bool := true.
Definition replay_cmp_mac_first : bool := true.
Definition replay_expired_when_lt : bool := true.
Definition replay_expired_when_eq : bool := false.
Definition replay_expired_when_gt : bool := false.
