(* GENERATED from the text of m_msg.c (m_msg_reset), dec.c (dec_process_msg) and enc.c (enc_process_msg) by tools/facts/credsrc.py - do not edit *)
From Coq Require Import List NArith Bool String.
From RecordUpdate Require Import RecordSet.
From MV Require Import Bytes CredModel.
From MV.gen Require Import GenCred.
Import ListNotations RecordSetNotations.
Local Open Scope N_scope.
Definition src_msg_reset (m : msg) : msg :=
  m <| m_cipher := c_cipher_none |> <| m_mac := c_mac_none |> <| m_zip := c_zip_none |> <| m_realm_len := 0 |> <| m_realm := [] |> <| m_ttl := c_ttl_default |> <| m_addr_len := 0 |> <| m_time0 := 0 |> <| m_time1 := 0 |> <| m_cred_uid := c_uid_any |> <| m_cred_gid := c_gid_any |> <| m_auth_uid := c_uid_any |> <| m_auth_gid := c_gid_any |> <| m_data_len := 0 |> <| m_data := [] |>.
Definition src_soft_err (e : N) : bool := (e =? e_cred_expired) || (e =? e_cred_rewound) || (e =? e_cred_replayed).
Definition src_dec_stages : list string := ["dec_validate_msg"; "cred_create"; "dec_timestamp"; "dec_authenticate"; "dec_check_retry"; "dec_unarmor"; "dec_unpack_outer"; "dec_decrypt"; "dec_validate_mac"; "dec_decompress"; "dec_unpack_inner"; "dec_validate_auth"; "dec_validate_time"; "dec_validate_replay"]%string.
Definition src_enc_stages : list string := ["enc_validate_msg"; "cred_create"; "enc_init"; "enc_authenticate"; "enc_check_retry"; "enc_timestamp"; "enc_pack_outer"; "enc_pack_inner"; "enc_compress"; "enc_mac"; "enc_encrypt"; "enc_armor"; "enc_fini"]%string.
