(* GENERATED from the text of src/libcommon/m_msg.c (m_msg_send, m_msg_recv) by tools/facts/retrymsgio.py - do not edit *)
From Coq Require Import ZArith Bool.
From MV Require Import FdModel.
Local Open Scope Z_scope.
Definition is_timedout (e : errno) : bool := match e with ETIMEDOUT => true | _ => false end.
(* n: the value assigned from the call (-1 = failure); e: errno after `(errno = 0, n = ...)`; w: the count asked for *)
Definition src_send_accepts (n : Z) (e : errno) (w : Z) : bool :=
  negb ((n <? 0) || (is_timedout e) || negb (n =? w)).
Definition src_recv_hdr_accepts (n : Z) (e : errno) (w : Z) : bool :=
  negb ((n <? 0) || (is_timedout e) || negb (n =? w)).
Definition src_recv_body_accepts (n : Z) (e : errno) (w : Z) : bool :=
  negb ((n <? 0) || (is_timedout e) || negb (n =? w)).
