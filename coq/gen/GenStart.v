(* GENERATED from src/munged/lock.c by tools/gen_facts.py (probes/start_probe.c) - do not edit *)
From Coq Require Import List NArith Bool.
Import ListNotations.
Local Open Scope N_scope.
(* first open() of lock_create without --force *)
Definition lock_open_creat : bool := true.
Definition lock_open_excl : bool := false.
Definition lock_open_trunc : bool := true.
Definition lock_create_mode : N := 128.
(* access mode of that open: 0 = O_RDONLY, 1 = O_WRONLY, 2 = O_RDWR *)
Definition lock_open_access : N := 1.
(* first fcntl() on the lock file *)
Definition lock_cmd_nonblocking : bool := true.
Definition lock_type_exclusive : bool := true.
Definition lock_whole_file : bool := true.
(* lock_create when the lock is free: returns normally (0) / exits (non-0); unlink calls made *)
Definition lock_free_exits : bool := false.
Definition lock_free_unlinks : N := 0.
(* lock_create when F_SETLK answers EAGAIN: exits?; unlink calls made before exiting *)
(* ... whatever F_GETLK answers before or after (holder named / file found unlocked) *)
Definition lock_busy_exits : bool := true.
(* lock_create queries the lock (F_GETLK) before its first F_SETLK; exits when the query or the refused F_SETLK names a holder *)
Definition lock_getlk_first : bool := false.
Definition lock_getlk_held_exits : bool := true.
Definition lock_busy_unlinks : N := 0.
(* permission bits (of a regular file owned by the caller) that _lock_stat accepts *)
Definition lock_stat_accepts : list N := [128].
Definition lock_stat_accepts_nonregular : bool := false.
(* lock_query (munged --stop): flags of its open of the lock file; does a query without a lock file create one *)
Definition lock_query_creat : bool := false.
Definition lock_query_leaves_file : bool := false.
(* conf->lockfile_name = conf->socket_name ++ suffix, as long as the result fits lock_name_max bytes *)
Definition lock_name_suffix : list N := [46; 108; 111; 99; 107].
Definition lock_name_max : N := 1023.
(* sock_create: n = strlcpy (addr.sun_path, conf->socket_name, sock_copy_size); if (n OP sock_len_bound) exit *)
Definition sun_path_cap : N := 108.
Definition sock_copy_size : N := 108.
Definition sock_len_bound : N := 108.
(* the length test, translated from the text: `if (n >= sizeof (addr.sun_path))` exits *)
Definition sock_len_refuses (n : N) : bool := (sock_len_bound <=? n).
(* random.c, observed by tools/probes/start_seed_probe.c *)
Definition seed_bytes : N := 1024.
(* _random_read_seed returns on an empty / short seed file (sizes 0, 1, 512, seed_bytes-1), on a complete or longer one *)
Definition seed_read_short_returns : bool := true.
Definition seed_read_full_returns : bool := true.
(* _random_write_seed: unlink calls before its open; flags and mode of the open; outcome *)
Definition seed_write_unlinks_first : N := 1.
Definition seed_open_creat : bool := true.
Definition seed_open_trunc : bool := true.
Definition seed_open_excl : bool := false.
Definition seed_create_mode : N := 384.
Definition seed_write_creates_missing : bool := true.
Definition seed_write_renews_existing : bool := true.
(* _random_read_entropy_from_file at start-up: on an absent and on a good seed file it does not return < 0; on an
   untrusted one (mode 0644 / 0660, foreign owner, symbolic link) it removes the file and does not return < 0 either
   (< 0 makes main() forget the seed path: no seed would be written at the clean stop) *)
Definition seed_start_ok_keeps_path : bool := true.
Definition seed_start_bad_keeps_path : bool := true.
Definition seed_start_bad_removed : bool := true.
(* munged.c, translated from the text: main() first makes descriptors 0-2 open (sanitize_std_fds: open /dev/null
   until the descriptor is > 2, close the last one); daemonize_fini dup2()s /dev/null onto these descriptors *)
Definition main_sanitizes_std_fds : bool := true.
(* ... and again right after log_close_file () (= fclose (stderr)) in the --syslog branch *)
Definition syslog_branch_resanitizes : bool := true.
Definition fini_dup2_targets : list nat := [0%nat; 1%nat; 2%nat].
(* munged.c open_logfile, its text compiled and run by tools/facts/start.py: mode of the log file it creates under
   a process umask (pairs umask, mode), and the permission bits of an existing log file it refuses without --force *)
Definition log_mode_under_umask : list (N * N) := [(0, 416); (18, 416); (23, 416); (63, 384); (511, 0)].
Definition log_refused_mask : N := 18.
(* daemonize_init, translated from the text: the umask the daemon runs under in background mode (None: inherited) *)
Definition daemon_umask : option N := Some 0.
