(* GENERATED from the text of src/libmunge/m_msg_client.c (m_msg_client_xfer) and munge_defs.h by tools/facts/retryloop.py - do not edit *)
From Coq Require Import List.
From MV Require Import RetryClientModel.
Import ListNotations.
Definition src_xfer : xprog := mkX
  (* before the loop *)
    [SDo (SLoad Vreq);
     SDo (SNull Vrsp)]
  (* the attempt: if / else-if chain *)
    [(KConnect Vreq, Break);
     (KSend Vreq, Fall);
     (KAuth Vreq, Fall);
     (KCreate Vrsp, Break);
     (KBind Vrsp Vreq, Break);
     (KRecv Vrsp, Fall);
     (KDisconnect Vrsp, Break);
     (KSucceeded, Break)]
  (* rest of the loop body *)
    [SIf (CAttempts) [SBreak];
     SIf (CBadLength) [SBreak];
     SIf (CNonNull Vrsp) [SClearSd Vrsp; SDestroy Vrsp; SNull Vrsp];
     SIf (CSdOpen Vreq) [SCloseSd Vreq; SClearSd Vreq];
     SDo (SSetRetry Vreq);
     SDo (SSleep Vreq);
     SIf (CFailed) [SBreak];
     SDo (SIncr)]
  (* after the loop *)
    [SIf (CNonNull Vrsp) [SHandOver Vrsp; SClearSd Vreq; SDestroy Vreq]].
Definition src_xconst : xconst := mkC 5 10 10 50.
