(* GENERATED from the C text of src/libcommon/fd.c (_fd_get_poll_timeout) by tools/facts/fdfun.py - do not edit *)
From Coq Require Import ZArith Bool.
Local Open Scope Z_scope.
Definition b2z (b : bool) : Z := if b then 1 else 0.
Definition wrapi32 (z : Z) : Z := (z + 2147483648) mod 4294967296 - 2147483648.
Definition fd_poll_timeout_uses : Z := 3.
Definition src_fd_get_poll_timeout (gtod_rc : Z) (tod : Z * Z) (when_null : bool) (when : Z * Z) : Z :=
  let v_when_sec := fst when in let v_when_nsec := snd when in
  let v_cv1 := 0 in
  let v_now_sec := 0 in let v_now_nsec := 0 in
  let v_msecs := 0 in
  if when_null then
    (- 1)
  else
    if ((v_when_sec =? 0) && (v_when_nsec =? 0))%bool then
      0
    else
      let v_cv1 := gtod_rc in
      let '(v_now_sec, v_now_nsec) := if gtod_rc =? 0 then tod else (v_now_sec, v_now_nsec) in
      if (v_cv1 <? 0) then
        0
      else
        let v_msecs := (wrapi32 (((v_when_sec - v_now_sec) * 1000) + (Z.quot ((v_when_nsec - v_now_nsec) + 999) 1000))) in
        (if (v_msecs <? 0) then 0 else v_msecs).
