(* GENERATED from the text of src/libcommon/m_msg.c and m_msg.h by tools/facts/msgtables.py - do not edit *)
From Coq Require Import List NArith.
From MV Require Import MsgModel.
From MV.gen Require Import GenMsg.
Import ListNotations.
Definition src_len_fields (t : mtype) : list fdesc :=
  match t with
  | T_HDR => [U32 Nmagic; U8 Nversion; U8 Ntype; U8 Nretry; U32 Npkt_len]
  | T_ENC_REQ => [U8 Ncipher; U8 Nmac; U8 Nzip; U8 Nrealm_len; Var Brealm Nrealm_len Heap; U32 Nttl; U32 Nauth_uid; U32 Nauth_gid; U32 Ndata_len; Var Bdata Ndata_len Heap]
  | T_ENC_RSP => [U8 Nerror_num; U8 Nerror_len; Var Berror Nerror_len Heap; U32 Ndata_len; Var Bdata Ndata_len Heap]
  | T_DEC_REQ => [U32 Ndata_len; Var Bdata Ndata_len Heap]
  | T_DEC_RSP => [U8 Nerror_num; U8 Nerror_len; Var Berror Nerror_len Heap; U8 Ncipher; U8 Nmac; U8 Nzip; U8 Nrealm_len; Var Brealm Nrealm_len Heap; U32 Nttl; U8 Naddr_len; Var Baddr Naddr_len (Fixed sizeof_addr 255); U32 Ntime0; U32 Ntime1; U32 Ncred_uid; U32 Ncred_gid; U32 Nauth_uid; U32 Nauth_gid; U32 Ndata_len; Var Bdata Ndata_len Heap]
  | T_AUTH_FD_REQ => [U32 Nauth_s_len; Var Bauth_s Nauth_s_len Heap; U32 Nauth_c_len; Var Bauth_c Nauth_c_len Heap]
  end.
Definition src_pack_fields (t : mtype) : list fdesc :=
  match t with
  | T_HDR => [U32 Nmagic; U8 Nversion; U8 Ntype; U8 Nretry; U32 Npkt_len]
  | T_ENC_REQ => [U8 Ncipher; U8 Nmac; U8 Nzip; U8 Nrealm_len; Var Brealm Nrealm_len Heap; U32 Nttl; U32 Nauth_uid; U32 Nauth_gid; U32 Ndata_len; Var Bdata Ndata_len Heap]
  | T_ENC_RSP => [U8 Nerror_num; U8 Nerror_len; Var Berror Nerror_len Heap; U32 Ndata_len; Var Bdata Ndata_len Heap]
  | T_DEC_REQ => [U32 Ndata_len; Var Bdata Ndata_len Heap]
  | T_DEC_RSP => [U8 Nerror_num; U8 Nerror_len; Var Berror Nerror_len Heap; U8 Ncipher; U8 Nmac; U8 Nzip; U8 Nrealm_len; Var Brealm Nrealm_len Heap; U32 Nttl; U8 Naddr_len; Var Baddr Naddr_len (Fixed sizeof_addr 255); U32 Ntime0; U32 Ntime1; U32 Ncred_uid; U32 Ncred_gid; U32 Nauth_uid; U32 Nauth_gid; U32 Ndata_len; Var Bdata Ndata_len Heap]
  | T_AUTH_FD_REQ => [U32 Nauth_s_len; Var Bauth_s Nauth_s_len Heap; U32 Nauth_c_len; Var Bauth_c Nauth_c_len Heap]
  end.
Definition src_unpack_fields (t : mtype) : list fdesc :=
  match t with
  | T_HDR => [U32 Nmagic; U8 Nversion; U8 Ntype; U8 Nretry; U32 Npkt_len]
  | T_ENC_REQ => [U8 Ncipher; U8 Nmac; U8 Nzip; U8 Nrealm_len; Var Brealm Nrealm_len Heap; U32 Nttl; U32 Nauth_uid; U32 Nauth_gid; U32 Ndata_len; Var Bdata Ndata_len Heap]
  | T_ENC_RSP => [U8 Nerror_num; U8 Nerror_len; Var Berror Nerror_len Heap; U32 Ndata_len; Var Bdata Ndata_len Heap]
  | T_DEC_REQ => [U32 Ndata_len; Var Bdata Ndata_len Heap]
  | T_DEC_RSP => [U8 Nerror_num; U8 Nerror_len; Var Berror Nerror_len Heap; U8 Ncipher; U8 Nmac; U8 Nzip; U8 Nrealm_len; Var Brealm Nrealm_len Heap; U32 Nttl; U8 Naddr_len; Var Baddr Naddr_len (Fixed sizeof_addr sizeof_addr); U32 Ntime0; U32 Ntime1; U32 Ncred_uid; U32 Ncred_gid; U32 Nauth_uid; U32 Nauth_gid; U32 Ndata_len; Var Bdata Ndata_len Heap]
  | T_AUTH_FD_REQ => [U32 Nauth_s_len; Var Bauth_s Nauth_s_len Heap; U32 Nauth_c_len; Var Bauth_c Nauth_c_len Heap]
  end.
