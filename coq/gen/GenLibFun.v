(* GENERATED from the C text of src/libmunge/encode.c, decode.c and ctx.h by tools/facts/libfun.py - do not edit *)
From Coq Require Import List NArith ZArith Bool.
From Coq.Strings Require Import Byte.
From RecordUpdate Require Import RecordSet.
From MV Require Import Bytes CredModel.
From MV.gen Require Import GenCred.
Import ListNotations RecordSetNotations.
Local Open Scope Z_scope.
Definition b2z (b : bool) : Z := if b then 1 else 0.
Definition wrap32 (z : Z) : Z := z mod 4294967296.
Definition wrapi32 (z : Z) : Z := (z + 2147483648) mod 4294967296 - 2147483648.
(* enum m_msg_type (m_msg.h) *)
Definition msgt_undef : Z := 0.
Definition msgt_hdr : Z := 1.
Definition msgt_enc_req : Z := 2.
Definition msgt_enc_rsp : Z := 3.
Definition msgt_dec_req : Z := 4.
Definition msgt_dec_rsp : Z := 5.
Definition msgt_auth_fd_req : Z := 6.
(* struct munge_ctx (ctx.h), the members the translated functions touch *)
Record lctx : Type := {
  x_cipher : Z;
  x_mac : Z;
  x_zip : Z;
  x_realm_str : option bytes;
  x_ttl : Z;
  x_addr : bytes;
  x_time0 : Z;
  x_time1 : Z;
  x_auth_uid : Z;
  x_auth_gid : Z;
  x_error_num : Z;
  x_error_str : option bytes
}.
#[export] Instance eta_lctx : Settable _ := settable! Build_lctx <x_cipher; x_mac; x_zip; x_realm_str; x_ttl; x_addr; x_time0; x_time1; x_auth_uid; x_auth_gid; x_error_num; x_error_str>.
Definition lctx0 : lctx := {| x_cipher := 0; x_mac := 0; x_zip := 0; x_realm_str := None; x_ttl := 0; x_addr := []; x_time0 := 0; x_time1 := 0; x_auth_uid := 0; x_auth_gid := 0; x_error_num := 0; x_error_str := None |}.
Definition ctxv (c : option lctx) : lctx := match c with Some x => x | None => lctx0 end.
Definition is_some {A : Type} (o : option A) : bool := match o with Some _ => true | None => false end.
Definition ptrv (p : option bytes) : bytes := match p with Some b => b | None => [] end.
(* pointer members of struct m_msg are byte strings in CredModel.msg, [] = NULL *)
Definition pmem (p : option bytes) : bytes := ptrv p.
Definition mptr (b : bytes) : option bytes := match b with [] => None | _ => Some b end.
Definition zero4 : bytes := [x00; x00; x00; x00].
(* strlen: the position of the first NUL *)
Fixpoint c_strlen (b : bytes) : N := match b with [] => 0%N | c :: r => if (b2n c =? 0)%N then 0%N else N.succ (c_strlen r) end.

Definition lib_encode_init (o_cred : option (option bytes)) (ctx : option lctx) : Z * (option (option bytes) * option lctx * unit) :=
  let '(o_cred, ctx, tt) :=
    if (is_some o_cred) then
      let o_cred := Some None in
      (o_cred, ctx, tt)
    else
      (o_cred, ctx, tt) in
  let '(o_cred, ctx, tt) :=
    if (is_some ctx) then
      let ctx := Some ((ctxv ctx) <| x_error_num := (Z.of_N e_success) |>) in
      let '(o_cred, ctx, tt) :=
        if (is_some (x_error_str (ctxv ctx))) then
          let ctx := Some ((ctxv ctx) <| x_error_str := None |>) in
          (o_cred, ctx, tt)
        else
          (o_cred, ctx, tt) in
      (o_cred, ctx, tt)
    else
      (o_cred, ctx, tt) in
  (0, (o_cred, ctx, tt)).

Definition lib_encode_req (m : msg) (ctx : option lctx) (p_buf : option bytes) (a_len : Z) : Z * (msg * option lctx * unit) :=
  let '(m, ctx, tt) :=
    if (is_some ctx) then
      let m := m <| m_cipher := Z.to_N ((x_cipher (ctxv ctx)) mod 256) |> in
      let m := m <| m_mac := Z.to_N ((x_mac (ctxv ctx)) mod 256) |> in
      let m := m <| m_zip := Z.to_N ((x_zip (ctxv ctx)) mod 256) |> in
      let '(m, ctx, tt) :=
        if (is_some (x_realm_str (ctxv ctx))) then
          let m := m <| m_realm_len := Z.to_N (((Z.of_N (c_strlen (ptrv (x_realm_str (ctxv ctx))))) + 1) mod 256) |> in
          let m := m <| m_realm := pmem (x_realm_str (ctxv ctx)) |> in
          (m, ctx, tt)
        else
          let m := m <| m_realm_len := Z.to_N (0 mod 256) |> in
          let m := m <| m_realm := pmem None |> in
          (m, ctx, tt) in
      let m := m <| m_ttl := Z.to_N (wrap32 (x_ttl (ctxv ctx))) |> in
      let m := m <| m_auth_uid := Z.to_N (x_auth_uid (ctxv ctx)) |> in
      let m := m <| m_auth_gid := Z.to_N (x_auth_gid (ctxv ctx)) |> in
      (m, ctx, tt)
    else
      let m := m <| m_cipher := Z.to_N ((Z.of_N c_cipher_default) mod 256) |> in
      let m := m <| m_zip := Z.to_N ((Z.of_N c_zip_default) mod 256) |> in
      let m := m <| m_mac := Z.to_N ((Z.of_N c_mac_default) mod 256) |> in
      let m := m <| m_realm_len := Z.to_N (0 mod 256) |> in
      let m := m <| m_realm := pmem None |> in
      let m := m <| m_ttl := Z.to_N (wrap32 (Z.of_N c_ttl_default)) |> in
      let m := m <| m_auth_uid := Z.to_N (wrap32 (Z.of_N c_uid_any)) |> in
      let m := m <| m_auth_gid := Z.to_N (wrap32 (Z.of_N c_gid_any)) |> in
      (m, ctx, tt) in
  let m := m <| m_data_len := Z.to_N (wrap32 a_len) |> in
  let m := m <| m_data := pmem p_buf |> in
  ((Z.of_N e_success), (m, ctx, tt)).

Definition lib_encode_rsp (txt : nat -> bytes) (m_type : Z) (m : msg) (o_cred : option (option bytes)) : Z * (msg * option (option bytes) * unit) :=
  if (negb (m_type =? msgt_enc_rsp)) then
    let m := set_err m e_snafu (Some (txt 0%nat)) in
    ((Z.of_N e_snafu), (m, o_cred, tt))
  else
    if ((Z.of_N (m_data_len m)) <=? 0) then
      let m := set_err m e_snafu (Some (txt 1%nat)) in
      ((Z.of_N e_snafu), (m, o_cred, tt))
    else
      let o_cred := Some (mptr (m_data m)) in
      ((Z.of_N (m_err m)), (m, o_cred, tt)).

Definition lib_decode_init (ctx : option lctx) (o_buf : option (option bytes)) (o_len : option Z) (o_uid : option Z) (o_gid : option Z) : Z * (option lctx * option (option bytes) * option Z * option Z * option Z * unit) :=
  let '(ctx, o_buf, o_len, o_uid, o_gid, tt) :=
    if (is_some ctx) then
      let ctx := Some ((ctxv ctx) <| x_cipher := (- 1) |>) in
      let ctx := Some ((ctxv ctx) <| x_mac := (- 1) |>) in
      let ctx := Some ((ctxv ctx) <| x_zip := (- 1) |>) in
      let '(ctx, o_buf, o_len, o_uid, o_gid, tt) :=
        if (is_some (x_realm_str (ctxv ctx))) then
          let ctx := Some ((ctxv ctx) <| x_realm_str := None |>) in
          (ctx, o_buf, o_len, o_uid, o_gid, tt)
        else
          (ctx, o_buf, o_len, o_uid, o_gid, tt) in
      let ctx := Some ((ctxv ctx) <| x_ttl := (- 1) |>) in
      let ctx := Some ((ctxv ctx) <| x_addr := zero4 |>) in
      let ctx := Some ((ctxv ctx) <| x_time0 := (- 1) |>) in
      let ctx := Some ((ctxv ctx) <| x_time1 := (- 1) |>) in
      let ctx := Some ((ctxv ctx) <| x_auth_uid := (wrap32 (- 1)) |>) in
      let ctx := Some ((ctxv ctx) <| x_auth_gid := (wrap32 (- 1)) |>) in
      let ctx := Some ((ctxv ctx) <| x_error_num := (Z.of_N e_success) |>) in
      let '(ctx, o_buf, o_len, o_uid, o_gid, tt) :=
        if (is_some (x_error_str (ctxv ctx))) then
          let ctx := Some ((ctxv ctx) <| x_error_str := None |>) in
          (ctx, o_buf, o_len, o_uid, o_gid, tt)
        else
          (ctx, o_buf, o_len, o_uid, o_gid, tt) in
      (ctx, o_buf, o_len, o_uid, o_gid, tt)
    else
      (ctx, o_buf, o_len, o_uid, o_gid, tt) in
  let '(ctx, o_buf, o_len, o_uid, o_gid, tt) :=
    if (is_some o_buf) then
      let o_buf := Some None in
      (ctx, o_buf, o_len, o_uid, o_gid, tt)
    else
      (ctx, o_buf, o_len, o_uid, o_gid, tt) in
  let '(ctx, o_buf, o_len, o_uid, o_gid, tt) :=
    if (is_some o_len) then
      let o_len := Some 0 in
      (ctx, o_buf, o_len, o_uid, o_gid, tt)
    else
      (ctx, o_buf, o_len, o_uid, o_gid, tt) in
  let '(ctx, o_buf, o_len, o_uid, o_gid, tt) :=
    if (is_some o_uid) then
      let o_uid := Some (wrap32 (- 1)) in
      (ctx, o_buf, o_len, o_uid, o_gid, tt)
    else
      (ctx, o_buf, o_len, o_uid, o_gid, tt) in
  let '(ctx, o_buf, o_len, o_uid, o_gid, tt) :=
    if (is_some o_gid) then
      let o_gid := Some (wrap32 (- 1)) in
      (ctx, o_buf, o_len, o_uid, o_gid, tt)
    else
      (ctx, o_buf, o_len, o_uid, o_gid, tt) in
  (0, (ctx, o_buf, o_len, o_uid, o_gid, tt)).

Definition lib_decode_req (m : msg) (ctx : option lctx) (p_cred : option bytes) : Z * (msg * option lctx * unit) :=
  let m := m <| m_data_len := Z.to_N (wrap32 ((Z.of_N (c_strlen (ptrv p_cred))) + 1)) |> in
  let m := m <| m_data := pmem p_cred |> in
  ((Z.of_N e_success), (m, ctx, tt)).

Definition lib_decode_rsp (txt : nat -> bytes) (m_type : Z) (m : msg) (ctx : option lctx) (o_buf : option (option bytes)) (o_len : option Z) (o_uid : option Z) (o_gid : option Z) : Z * (msg * option lctx * option (option bytes) * option Z * option Z * option Z * unit) :=
  if (negb (m_type =? msgt_dec_rsp)) then
    let m := set_err m e_snafu (Some (txt 0%nat)) in
    ((Z.of_N e_snafu), (m, ctx, o_buf, o_len, o_uid, o_gid, tt))
  else
    let '(m, ctx, o_buf, o_len, o_uid, o_gid, tt) :=
      if (is_some ctx) then
        let ctx := Some ((ctxv ctx) <| x_cipher := (Z.of_N (m_cipher m)) |>) in
        let ctx := Some ((ctxv ctx) <| x_mac := (Z.of_N (m_mac m)) |>) in
        let ctx := Some ((ctxv ctx) <| x_zip := (Z.of_N (m_zip m)) |>) in
        let ctx := Some ((ctxv ctx) <| x_realm_str := (mptr (m_realm m)) |>) in
        let '(m, ctx, o_buf, o_len, o_uid, o_gid, tt) :=
          if (is_some (x_realm_str (ctxv ctx))) then
            (m, ctx, o_buf, o_len, o_uid, o_gid, tt)
          else
            (m, ctx, o_buf, o_len, o_uid, o_gid, tt) in
        let ctx := Some ((ctxv ctx) <| x_ttl := (wrapi32 (Z.of_N (m_ttl m))) |>) in
        let ctx := Some ((ctxv ctx) <| x_addr := (m_addr m) |>) in
        let ctx := Some ((ctxv ctx) <| x_time0 := (Z.of_N (m_time0 m)) |>) in
        let ctx := Some ((ctxv ctx) <| x_time1 := (Z.of_N (m_time1 m)) |>) in
        let ctx := Some ((ctxv ctx) <| x_auth_uid := (Z.of_N (m_auth_uid m)) |>) in
        let ctx := Some ((ctxv ctx) <| x_auth_gid := (Z.of_N (m_auth_gid m)) |>) in
        (m, ctx, o_buf, o_len, o_uid, o_gid, tt)
      else
        (m, ctx, o_buf, o_len, o_uid, o_gid, tt) in
    let '(m, ctx, o_buf, o_len, o_uid, o_gid, tt) :=
      if (((is_some o_buf) && (is_some o_len)) && ((Z.of_N (m_data_len m)) >? 0)) then
        let o_buf := Some (mptr (m_data m)) in
        (m, ctx, o_buf, o_len, o_uid, o_gid, tt)
      else
        (m, ctx, o_buf, o_len, o_uid, o_gid, tt) in
    let '(m, ctx, o_buf, o_len, o_uid, o_gid, tt) :=
      if (is_some o_len) then
        let o_len := Some (wrapi32 (Z.of_N (m_data_len m))) in
        (m, ctx, o_buf, o_len, o_uid, o_gid, tt)
      else
        (m, ctx, o_buf, o_len, o_uid, o_gid, tt) in
    let '(m, ctx, o_buf, o_len, o_uid, o_gid, tt) :=
      if (is_some o_uid) then
        let o_uid := Some (Z.of_N (m_cred_uid m)) in
        (m, ctx, o_buf, o_len, o_uid, o_gid, tt)
      else
        (m, ctx, o_buf, o_len, o_uid, o_gid, tt) in
    let '(m, ctx, o_buf, o_len, o_uid, o_gid, tt) :=
      if (is_some o_gid) then
        let o_gid := Some (Z.of_N (m_cred_gid m)) in
        (m, ctx, o_buf, o_len, o_uid, o_gid, tt)
      else
        (m, ctx, o_buf, o_len, o_uid, o_gid, tt) in
    ((Z.of_N (m_err m)), (m, ctx, o_buf, o_len, o_uid, o_gid, tt)).
