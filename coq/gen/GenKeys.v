(* GENERATED from src/libcommon/munge_defs.h, src/common/hkdf.c, src/mungekey/key.c and the
   running md/mac code by tools/gen_facts.py - do not edit *)
From Coq Require Import List NArith ZArith.
Import ListNotations.
Local Open Scope N_scope.
Definition key_len_min_bytes : N := 32.
Definition key_len_max_bytes : N := 1024.
Definition key_len_dfl_bytes : N := 128.
Definition key_len_min_bits : Z := 256%Z.
Definition key_len_max_bits : Z := 8192%Z.
Definition hkdf_max_rounds : N := 255.
(* digest sizes: (munge_mac_t code, mac_size, md_size) as reported at run time; 0 = unsupported *)
Definition digest_sizes : list (N * N * N) := [(2, 16, 16); (3, 20, 20); (4, 20, 20); (5, 32, 32); (6, 64, 64)].
Definition key_open_creat : bool := true.
Definition key_open_excl : bool := true.
Definition key_open_trunc : bool := false.
Definition key_open_wronly : bool := true.
Definition key_open_mode : N := 384. (* octal 0600 *)
Definition key_open_calls : N := 1.
Definition key_mode_calls : N := 0. (* fchmod/chmod/umask calls made by create_key *)
Definition key_noforce_unlinks : bool := false.
Definition key_hkdf_md : N := 5.
Definition key_ikm_len : N := 256.
Definition key_ikm_from_entropy_read : bool := true.
Definition key_salt_len : N := 4.
Definition key_info_prefix : list N := [77; 85; 78; 71; 69; 75; 69; 89; 58; 115; 104; 97; 50; 53; 54; 58].
Definition key_info_suffix : list N := [58].
(* info_prefix_str=MUNGEKEY:sha256: info_suffix_str=: *)
(* info for 33 bytes: MUNGEKEY:sha256:264: *)
Definition key_info_sample : list N := [77; 85; 78; 71; 69; 75; 69; 89; 58; 115; 104; 97; 50; 53; 54; 58; 50; 54; 52; 58].
Definition key_info_sample_bytes : N := 33.
Definition key_force_unlinks : bool := true.
Definition key_force_unlink_first : bool := true.
Definition key_force_open_excl : bool := true.
Definition key_force_open_mode : N := 384.
