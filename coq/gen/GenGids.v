(* GENERATED from src/libcommon/common.h, src/common/xgetgr.c, xgetpw.c by tools/gen_facts.py - do not edit *)
From Coq Require Import NArith.
Local Open Scope N_scope.
Definition uid_sentinel : N := 4294967295.
Definition uid_bits : N := 32.
Definition gid_bits : N := 32.
Definition time_bits : N := 64.
Definition size_bits : N := 64.
Definition grbuf_init : N := 1024.
Definition pwbuf_init : N := 1024.
Definition grbuf_grow_factor : N := 2.
Definition pwbuf_grow_factor : N := 2.
