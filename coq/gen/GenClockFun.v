(* GENERATED from the C text of src/munged/clock.c by tools/facts/clockfun.py - do not edit *)
From Coq Require Import ZArith Bool.
Local Open Scope Z_scope.
Definition b2z (b : bool) : Z := if b then 1 else 0.
Definition wrapi32 (z : Z) : Z := (z + 2147483648) mod 4294967296 - 2147483648.
(* call sites of these functions in src/munged/*.c whose pointer arguments were checked to be addresses of objects *)
Definition clock_call_sites : Z := 7.
Definition src_clock_get_timespec (gt_rc : Z) (clk : Z * Z) (tsp : Z * Z) (v_msecs : Z) : Z * (Z * Z) :=
  let v_tsp_sec := fst tsp in let v_tsp_nsec := snd tsp in
  let v_rv := 0 in
  if false then
    ((- 1), (v_tsp_sec, v_tsp_nsec))
  else
    let v_rv := gt_rc in
    let '(v_tsp_sec, v_tsp_nsec) := if gt_rc =? 0 then clk else (v_tsp_sec, v_tsp_nsec) in
    if (v_rv <? 0) then
      ((- 1), (v_tsp_sec, v_tsp_nsec))
    else
      let '(v_tsp_sec, v_tsp_nsec) :=
        if (0 <? v_msecs) then
          let v_tsp_sec := (v_tsp_sec + (Z.quot v_msecs 1000)) in
          let v_tsp_nsec := (v_tsp_nsec + (((Z.rem v_msecs 1000) * 1000) * 1000)) in
          let '(v_tsp_sec, v_tsp_nsec) :=
            if (((1000 * 1000) * 1000) <=? v_tsp_nsec) then
              let v_tsp_sec := (v_tsp_sec + (Z.quot v_tsp_nsec ((1000 * 1000) * 1000))) in
              let v_tsp_nsec := (Z.rem v_tsp_nsec ((1000 * 1000) * 1000)) in
              (v_tsp_sec, v_tsp_nsec)
            else
              (v_tsp_sec, v_tsp_nsec) in
          (v_tsp_sec, v_tsp_nsec)
        else
          (v_tsp_sec, v_tsp_nsec) in
      (0, (v_tsp_sec, v_tsp_nsec)).

Definition src_clock_is_timespec_le (tsp0 : Z * Z) (tsp1 : Z * Z) : Z :=
  let v_tsp0_sec := fst tsp0 in let v_tsp0_nsec := snd tsp0 in
  let v_tsp1_sec := fst tsp1 in let v_tsp1_nsec := snd tsp1 in
  if (false || false)%bool then
    (- 1)
  else
    if (v_tsp0_sec =? v_tsp1_sec) then
      (b2z (v_tsp0_nsec <=? v_tsp1_nsec))
    else
      (b2z (v_tsp0_sec <=? v_tsp1_sec)).

Definition src_clock_is_timespec_expired (gt_rc : Z) (clk : Z * Z) (tsp : Z * Z) : Z :=
  let v_tsp_sec := fst tsp in let v_tsp_nsec := snd tsp in
  let v_now_sec := 0 in let v_now_nsec := 0 in
  let v_rv := 0 in
  if false then
    (- 1)
  else
    let '(v_rv, (v_now_sec, v_now_nsec)) := src_clock_get_timespec gt_rc clk (v_now_sec, v_now_nsec) 0 in
    if (v_rv <? 0) then
      (- 1)
    else
      let v_rv := src_clock_is_timespec_le (v_tsp_sec, v_tsp_nsec) (v_now_sec, v_now_nsec) in
      v_rv.
