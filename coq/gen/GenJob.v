(* GENERATED from the text of src/munged/job.c (job_accept) and src/munged/munged.c (sig_handler, handle_signals) by tools/facts/job.py - do not edit *)
From Coq Require Import List ZArith.
From MV Require Import JobModel.
Import ListNotations.
Local Open Scope Z_scope.
(* #define LOG_LIMIT_SECS *)
Definition src_log_limit : Z := 60.
Definition src_job : prog := mkprog
  (seq [SIf (CInitFails) (seq [SFatal FInit]) (seq []); SLog PInfo TCreated])
  (CNot (CTerm))
  (seq [SIf (CReconf) (seq [SLog PNotice TReconfig; SClearReconf; SGids]) (seq []); SAccept; SIf (CSdNeg) (seq [SIf (CErrnoIn [ECONNABORTED; EINTR]) (seq [SContinue]) (seq [SIf (CErrnoIn [EMFILE; ENFILE; ENOBUFS; ENOMEM]) (seq [SSaveErrno; STime; SIf (CTimeFailed) (seq [SFatal FTime]) (seq []); SIf (COr (CTimeAfter 60) (CErrnoChanged)) (seq [SLog PInfo TAcceptFail; SSetLastErrno; SSetLastTime]) (seq []); SWait; SContinue]) (seq [SFatal FAccept])])]) (seq []); SIf (CNonblockFails) (seq [SClose; SLog PWarning TNonblock]) (seq [SIf (CCreateFails) (seq [SClose; SLog PWarning TCreate]) (seq [SIf (CBindFails) (seq [SDestroy; SLog PWarning TBind]) (seq [SIf (CQueueFails) (seq [SDestroy; SLog PWarning TQueue]) (seq [])])])])])
  (seq [SLog PNotice TExiting; SFini true; SReturn]).
(* munged.c: sig_handler evaluated for each signal; the signals handle_signals installs it for (sa_flags = 0) *)
Definition src_handler (s : sig) : sigflag := match s with SIGHUP => FReconf | SIGINT => FTerm | SIGTERM => FTerm end.
Definition src_installed : list sig := [SIGHUP; SIGINT; SIGTERM].
