(* GENERATED from the C text of enc.c (enc_validate_msg) and dec.c (dec_validate_auth, dec_validate_time) by tools/facts/cfun.py - do not edit *)
From Coq Require Import List NArith ZArith Bool.
From RecordUpdate Require Import RecordSet.
From MV Require Import Bytes CredModel.
From MV.gen Require Import GenCred.
Import ListNotations RecordSetNotations.
Local Open Scope Z_scope.
Definition b2z (b : bool) : Z := if b then 1 else 0.
Definition wrap32 (z : Z) : Z := z mod 4294967296.
Definition wrapi32 (z : Z) : Z := (z + 2147483648) mod 4294967296 - 2147483648.

Definition src_enc_validate_msg (cf : conf) (m : msg) : N * msg :=
  match (
    if ((Z.of_N (m_cipher m)) =? (Z.of_N c_cipher_default)) then
      let m := m <| m_cipher := Z.to_N ((Z.of_N (cf_def_cipher cf)) mod 256) |> in
      inr (m, (tt))
    else
      if ((Z.of_N (m_cipher m)) =? (Z.of_N c_cipher_none)) then
        inr (m, (tt))
      else
        if ((if cipher_valid (Z.to_N (Z.of_N (m_cipher m))) then 0 else -1) <? 0) then
          inl (e_bad_cipher, m)
        else
          inr (m, (tt))
  ) with
  | inl r => r
  | inr (m, (tt)) =>
    match (
      if ((Z.of_N (m_mac m)) =? (Z.of_N c_mac_default)) then
        let m := m <| m_mac := Z.to_N ((Z.of_N (cf_def_mac cf)) mod 256) |> in
        inr (m, (tt))
      else
        if ((if mac_valid (Z.to_N (Z.of_N (m_mac m))) then 0 else -1) <? 0) then
          inl (e_bad_mac, m)
        else
          inr (m, (tt))
    ) with
    | inl r => r
    | inr (m, (tt)) =>
      match (
        if ((Z.of_N (mac_size (Z.to_N (Z.of_N (m_mac m))))) <? (Z.of_N (cipher_key_size (Z.to_N (Z.of_N (m_cipher m)))))) then
          inl (e_bad_mac, m)
        else
          inr (m, (tt))
      ) with
      | inl r => r
      | inr (m, (tt)) =>
        match (
          if ((Z.of_N (m_zip m)) =? (Z.of_N c_zip_default)) then
            let m := m <| m_zip := Z.to_N ((Z.of_N (cf_def_zip cf)) mod 256) |> in
            inr (m, (tt))
          else
            if ((Z.of_N (m_zip m)) =? (Z.of_N c_zip_none)) then
              inr (m, (tt))
            else
              if (negb (negb ((b2z (zip_valid (Z.to_N (Z.of_N (m_zip m))))) =? 0))) then
                inl (e_bad_zip, m)
              else
                inr (m, (tt))
        ) with
        | inl r => r
        | inr (m, (tt)) =>
          match (
            if ((Z.of_N (m_data_len m)) =? 0) then
              let m := m <| m_zip := Z.to_N ((Z.of_N c_zip_none) mod 256) |> in
              inr (m, (tt))
            else
              inr (m, (tt))
          ) with
          | inl r => r
          | inr (m, (tt)) =>
            match (
              if ((Z.of_N (m_ttl m)) =? 0) then
                let m := m <| m_ttl := Z.to_N (wrap32 (Z.of_N (cf_def_ttl cf))) |> in
                inr (m, (tt))
              else
                if ((Z.of_N (m_ttl m)) >? (wrap32 (Z.of_N (cf_max_ttl cf)))) then
                  let m := m <| m_ttl := Z.to_N (wrap32 (Z.of_N (cf_max_ttl cf))) |> in
                  inr (m, (tt))
                else
                  inr (m, (tt))
            ) with
            | inl r => r
            | inr (m, (tt)) =>
              (0%N, m)
            end
          end
        end
      end
    end
  end.

Definition src_dec_validate_auth (cf : conf) (is_member : N -> N -> bool) (m : msg) : N * msg :=
  match (
    if (((negb ((Z.of_N (m_auth_uid m)) =? (wrap32 (Z.of_N c_uid_any)))) && (negb ((Z.of_N (m_auth_uid m)) =? (Z.of_N (m_client_uid m))))) && (negb ((negb ((b2z (cf_root_auth cf)) =? 0)) && ((Z.of_N (m_client_uid m)) =? 0)))) then
      inl (
        (e_cred_unauthorized, m))
    else
      inr (m, (tt))
  ) with
  | inl r => r
  | inr (m, (tt)) =>
    match (
      if ((Z.of_N (m_auth_gid m)) =? (wrap32 (Z.of_N c_gid_any))) then
        inl (0%N, m)
      else
        if ((Z.of_N (m_auth_gid m)) =? (Z.of_N (m_client_gid m))) then
          inl (0%N, m)
        else
          if (negb ((b2z (is_member (Z.to_N (Z.of_N (m_client_uid m))) (Z.to_N (Z.of_N (m_auth_gid m))))) =? 0)) then
            inl (0%N, m)
          else
            inr (m, (tt))
    ) with
    | inl r => r
    | inr (m, (tt)) =>
      (e_cred_unauthorized, m)
    end
  end.

Definition src_dec_validate_time (cf : conf) (m : msg) : N * msg :=
  let l_skew := 0 in
  let l_tmin := 0 in
  let l_tmax := 0 in
  match (
    if ((Z.of_N (m_ttl m)) >? (wrap32 (Z.of_N (cf_max_ttl cf)))) then
      let m := m <| m_ttl := Z.to_N (wrap32 (Z.of_N (cf_max_ttl cf))) |> in
      inr (m, (l_skew, l_tmin, l_tmax, tt))
    else
      inr (m, (l_skew, l_tmin, l_tmax, tt))
  ) with
  | inl r => r
  | inr (m, (l_skew, l_tmin, l_tmax, tt)) =>
    let l_skew := (wrapi32 (if (negb ((b2z (cf_clock_skew cf)) =? 0)) then (Z.of_N (m_ttl m)) else 1)) in
    let l_tmin := ((Z.of_N (m_time0 m)) - l_skew) in
    let l_tmax := ((Z.of_N (m_time0 m)) + (Z.of_N (m_ttl m))) in
    match (
      if ((Z.of_N (m_time1 m)) <? l_tmin) then
        inl (e_cred_rewound, m)
      else
        inr (m, (l_skew, l_tmin, l_tmax, tt))
    ) with
    | inl r => r
    | inr (m, (l_skew, l_tmin, l_tmax, tt)) =>
      match (
        if ((Z.of_N (m_time1 m)) >? l_tmax) then
          inl (e_cred_expired, m)
        else
          inr (m, (l_skew, l_tmin, l_tmax, tt))
      ) with
      | inl r => r
      | inr (m, (l_skew, l_tmin, l_tmax, tt)) =>
        (0%N, m)
      end
    end
  end.
