(* GENERATED from the C text of enc.c and dec.c (decision functions and the enc_process_msg / dec_process_msg skeletons) by tools/facts/cfun.py - do not edit *)
From Coq Require Import List NArith ZArith Bool String.
From RecordUpdate Require Import RecordSet.
From MV Require Import Bytes CredModel.
From MV.gen Require Import GenCred.
Import ListNotations RecordSetNotations.
Local Open Scope Z_scope.
Definition b2z (b : bool) : Z := if b then 1 else 0.
Definition wrap32 (z : Z) : Z := z mod 4294967296.
Definition wrapi32 (z : Z) : Z := (z + 2147483648) mod 4294967296 - 2147483648.
(* the operations a request-processing skeleton is translated over: S is the state of one request *)
Record pipe_ops (S : Type) : Type := {
  op_msg : S -> msg;                   (* the m_msg the members m->... are read from *)
  op_cred : string -> S -> Z;          (* an integer member c->... of the request's struct munge_cred, by its C name *)
  op_stage : string -> S -> Z * S;     (* a stage function, by its C name: its return value and the new state *)
  op_reset : S -> S;                   (* m_msg_reset (m) *)
  op_send : S -> Z * S;                (* m_msg_send (m, ...): its munge_err_t value and the new state *)
  op_unplay : S -> S                   (* replay_remove (c) *)
}.
Arguments op_msg {S}. Arguments op_cred {S}. Arguments op_stage {S}. Arguments op_reset {S}. Arguments op_send {S}. Arguments op_unplay {S}.

Definition src_enc_validate_msg (cf : conf) (m : msg) : N * msg :=
  match (
    if ((Z.of_N (m_cipher m)) =? (Z.of_N c_cipher_default)) then
      let m := m <| m_cipher := Z.to_N ((Z.of_N (cf_def_cipher cf)) mod 256) |> in
      inr (m, (tt))
    else
      if ((Z.of_N (m_cipher m)) =? (Z.of_N c_cipher_none)) then
        inr (m, (tt))
      else
        if ((if cipher_valid (Z.to_N (Z.of_N (m_cipher m))) then 0 else -1) <? 0) then
          inl (e_bad_cipher, m)
        else
          inr (m, (tt))
  ) with
  | inl r => r
  | inr (m, (tt)) =>
    match (
      if ((Z.of_N (m_mac m)) =? (Z.of_N c_mac_default)) then
        let m := m <| m_mac := Z.to_N ((Z.of_N (cf_def_mac cf)) mod 256) |> in
        inr (m, (tt))
      else
        if ((if mac_valid (Z.to_N (Z.of_N (m_mac m))) then 0 else -1) <? 0) then
          inl (e_bad_mac, m)
        else
          inr (m, (tt))
    ) with
    | inl r => r
    | inr (m, (tt)) =>
      match (
        if ((Z.of_N (mac_size (Z.to_N (Z.of_N (m_mac m))))) <? (Z.of_N (cipher_key_size (Z.to_N (Z.of_N (m_cipher m)))))) then
          inl (e_bad_mac, m)
        else
          inr (m, (tt))
      ) with
      | inl r => r
      | inr (m, (tt)) =>
        match (
          if ((Z.of_N (m_zip m)) =? (Z.of_N c_zip_default)) then
            let m := m <| m_zip := Z.to_N ((Z.of_N (cf_def_zip cf)) mod 256) |> in
            inr (m, (tt))
          else
            if ((Z.of_N (m_zip m)) =? (Z.of_N c_zip_none)) then
              inr (m, (tt))
            else
              if (negb (negb ((b2z (zip_valid (Z.to_N (Z.of_N (m_zip m))))) =? 0))) then
                inl (e_bad_zip, m)
              else
                inr (m, (tt))
        ) with
        | inl r => r
        | inr (m, (tt)) =>
          match (
            if ((Z.of_N (m_data_len m)) =? 0) then
              let m := m <| m_zip := Z.to_N ((Z.of_N c_zip_none) mod 256) |> in
              inr (m, (tt))
            else
              inr (m, (tt))
          ) with
          | inl r => r
          | inr (m, (tt)) =>
            match (
              if ((Z.of_N (m_ttl m)) =? 0) then
                let m := m <| m_ttl := Z.to_N (wrap32 (Z.of_N (cf_def_ttl cf))) |> in
                inr (m, (tt))
              else
                if ((Z.of_N (m_ttl m)) >? (wrap32 (Z.of_N (cf_max_ttl cf)))) then
                  let m := m <| m_ttl := Z.to_N (wrap32 (Z.of_N (cf_max_ttl cf))) |> in
                  inr (m, (tt))
                else
                  inr (m, (tt))
            ) with
            | inl r => r
            | inr (m, (tt)) =>
              (0%N, m)
            end
          end
        end
      end
    end
  end.

Definition src_dec_validate_auth (cf : conf) (is_member : N -> N -> bool) (m : msg) : N * msg :=
  match (
    if (((negb ((Z.of_N (m_auth_uid m)) =? (wrap32 (Z.of_N c_uid_any)))) && (negb ((Z.of_N (m_auth_uid m)) =? (Z.of_N (m_client_uid m))))) && (negb ((negb ((b2z (cf_root_auth cf)) =? 0)) && ((Z.of_N (m_client_uid m)) =? 0)))) then
      inl (
        (e_cred_unauthorized, m))
    else
      inr (m, (tt))
  ) with
  | inl r => r
  | inr (m, (tt)) =>
    match (
      if ((Z.of_N (m_auth_gid m)) =? (wrap32 (Z.of_N c_gid_any))) then
        inl (0%N, m)
      else
        if ((Z.of_N (m_auth_gid m)) =? (Z.of_N (m_client_gid m))) then
          inl (0%N, m)
        else
          if (negb ((b2z (is_member (Z.to_N (Z.of_N (m_client_uid m))) (Z.to_N (Z.of_N (m_auth_gid m))))) =? 0)) then
            inl (0%N, m)
          else
            inr (m, (tt))
    ) with
    | inl r => r
    | inr (m, (tt)) =>
      (e_cred_unauthorized, m)
    end
  end.

Definition src_dec_validate_time (cf : conf) (m : msg) : N * msg :=
  let l_skew := 0 in
  let l_tmin := 0 in
  let l_tmax := 0 in
  match (
    if ((Z.of_N (m_ttl m)) >? (wrap32 (Z.of_N (cf_max_ttl cf)))) then
      let m := m <| m_ttl := Z.to_N (wrap32 (Z.of_N (cf_max_ttl cf))) |> in
      inr (m, (l_skew, l_tmin, l_tmax, tt))
    else
      inr (m, (l_skew, l_tmin, l_tmax, tt))
  ) with
  | inl r => r
  | inr (m, (l_skew, l_tmin, l_tmax, tt)) =>
    let l_skew := (wrapi32 (if (negb ((b2z (cf_clock_skew cf)) =? 0)) then (Z.of_N (m_ttl m)) else 1)) in
    let l_tmin := ((Z.of_N (m_time0 m)) - l_skew) in
    let l_tmax := ((Z.of_N (m_time0 m)) + (Z.of_N (m_ttl m))) in
    match (
      if ((Z.of_N (m_time1 m)) <? l_tmin) then
        inl (e_cred_rewound, m)
      else
        inr (m, (l_skew, l_tmin, l_tmax, tt))
    ) with
    | inl r => r
    | inr (m, (l_skew, l_tmin, l_tmax, tt)) =>
      match (
        if ((Z.of_N (m_time1 m)) >? l_tmax) then
          inl (e_cred_expired, m)
        else
          inr (m, (l_skew, l_tmin, l_tmax, tt))
      ) with
      | inl r => r
      | inr (m, (l_skew, l_tmin, l_tmax, tt)) =>
        (0%N, m)
      end
    end
  end.

Definition src_dec_validate_msg (cf : conf) (p_data : Z) (m : msg) : N * msg :=
  match (
    if (((Z.of_N (m_data_len m)) =? 0) || (p_data =? 0)) then
      inl (e_snafu, m)
    else
      inr (m, (tt))
  ) with
  | inl r => r
  | inr (m, (tt)) =>
    (0%N, m)
  end.

Definition src_dec_timestamp (cf : conf) (clk : Z) (m : msg) : N * msg :=
  let l_now := 0 in
  match (
    let l_now := clk in
    if (clk =? (- 1)) then
      inl (e_snafu, m)
    else
      inr (m, (l_now, tt))
  ) with
  | inl r => r
  | inr (m, (l_now, tt)) =>
    let m := m <| m_time0 := Z.to_N 0 |> in
    let m := m <| m_time1 := Z.to_N (wrap32 l_now) |> in
    (0%N, m)
  end.

Definition src_enc_timestamp (cf : conf) (clk : Z) (m : msg) : N * msg :=
  let l_now := 0 in
  match (
    let l_now := clk in
    if (clk =? (- 1)) then
      inl (e_snafu, m)
    else
      inr (m, (l_now, tt))
  ) with
  | inl r => r
  | inr (m, (l_now, tt)) =>
    let m := m <| m_time0 := Z.to_N (wrap32 l_now) |> in
    let m := m <| m_time1 := Z.to_N 0 |> in
    (0%N, m)
  end.

Definition src_dec_authenticate (cf : conf) (auth_rc peer_uid peer_gid : Z) (m : msg) : N * msg :=
  match (
    let m := (if (auth_rc =? 0) then m <| m_client_uid := Z.to_N peer_uid |> else m) in
    let m := (if (auth_rc =? 0) then m <| m_client_gid := Z.to_N peer_gid |> else m) in
    if (negb (auth_rc =? (Z.of_N e_success))) then
      inl (e_snafu, m)
    else
      inr (m, (tt))
  ) with
  | inl r => r
  | inr (m, (tt)) =>
    (0%N, m)
  end.

Definition src_enc_authenticate (cf : conf) (auth_rc peer_uid peer_gid : Z) (m : msg) : N * msg :=
  match (
    let m := (if (auth_rc =? 0) then m <| m_client_uid := Z.to_N peer_uid |> else m) in
    let m := (if (auth_rc =? 0) then m <| m_client_gid := Z.to_N peer_gid |> else m) in
    if (negb (auth_rc =? (Z.of_N e_success))) then
      inl (e_snafu, m)
    else
      inr (m, (tt))
  ) with
  | inl r => r
  | inr (m, (tt)) =>
    (0%N, m)
  end.

Definition src_dec_check_retry (cf : conf) (m : msg) : N * msg :=
  match (
    if ((Z.of_N (m_retry m)) >? 0) then
      inr (m, (tt))
    else
      inr (m, (tt))
  ) with
  | inl r => r
  | inr (m, (tt)) =>
    match (
      if ((Z.of_N (m_retry m)) >? (Z.of_N c_retry_attempts)) then
        inl (e_socket, m)
      else
        inr (m, (tt))
    ) with
    | inl r => r
    | inr (m, (tt)) =>
      (0%N, m)
    end
  end.

Definition src_enc_check_retry (cf : conf) (m : msg) : N * msg :=
  match (
    if ((Z.of_N (m_retry m)) >? 0) then
      inr (m, (tt))
    else
      inr (m, (tt))
  ) with
  | inl r => r
  | inr (m, (tt)) =>
    match (
      if ((Z.of_N (m_retry m)) >? (Z.of_N c_retry_attempts)) then
        inl (e_socket, m)
      else
        inr (m, (tt))
    ) with
    | inl r => r
    | inr (m, (tt)) =>
      (0%N, m)
    end
  end.

Definition src_dec_validate_replay (cf : conf) (clk : Z) (ins : Z) (errno_ : Z) (c_is_replay_new : Z) (m : msg) : N * msg * Z :=
  let l_rc := 0 in
  let l_now := 0 in
  let l_c__is_replay_new := c_is_replay_new in
  let l_rc := ins in
  match (
    if (l_rc =? 0) then
      match (
        let l_now := clk in
        if (clk =? (- 1)) then
          inl (e_snafu, m, l_c__is_replay_new)
        else
          inr (m, (l_rc, l_now, l_c__is_replay_new, tt))
      ) with
      | inl r => inl r
      | inr (m, (l_rc, l_now, l_c__is_replay_new, tt)) =>
        match (
          if (l_now >? ((Z.of_N (m_time0 m)) + (Z.of_N (m_ttl m)))) then
            inl (e_cred_expired, m, l_c__is_replay_new)
          else
            inr (m, (l_rc, l_now, l_c__is_replay_new, tt))
        ) with
        | inl r => inl r
        | inr (m, (l_rc, l_now, l_c__is_replay_new, tt)) =>
          let l_c__is_replay_new := 1 in
          inl (0%N, m, l_c__is_replay_new)
        end
      end
    else
      inr (m, (l_rc, l_now, l_c__is_replay_new, tt))
  ) with
  | inl r => r
  | inr (m, (l_rc, l_now, l_c__is_replay_new, tt)) =>
    match (
      if (l_rc >? 0) then
        if (((negb ((b2z (cf_socket_retry cf)) =? 0)) && ((Z.of_N (m_retry m)) >? 0)) && ((Z.of_N (m_retry m)) <=? (Z.of_N c_retry_attempts))) then
          inl (0%N, m, l_c__is_replay_new)
        else
          inl (e_cred_replayed, m, l_c__is_replay_new)
      else
        inr (m, (l_rc, l_now, l_c__is_replay_new, tt))
    ) with
    | inl r => r
    | inr (m, (l_rc, l_now, l_c__is_replay_new, tt)) =>
      match (
        if (errno_ =? 12) then
          inl (e_no_memory, m, l_c__is_replay_new)
        else
          inr (m, (l_rc, l_now, l_c__is_replay_new, tt))
      ) with
      | inl r => r
      | inr (m, (l_rc, l_now, l_c__is_replay_new, tt)) =>
        (e_snafu, m, l_c__is_replay_new)
      end
    end
  end.

Definition src_dec_process_msg {S : Type} (ops : pipe_ops S) (m : S) : Z * S :=
  let l_c := 0 in
  let l_rc := 0 in
  let l_c := 0 in
  let l_rc := (- 1) in
  match (
    let '(v1, m) := op_stage ops "dec_validate_msg"%string m in
    if (v1 <? 0) then
      inr (m, (l_c, l_rc, tt))
    else
      let '(v2, m) := op_stage ops "cred_create"%string m in
      let l_c := v2 in
      if (negb (negb (l_c =? 0))) then
        inr (m, (l_c, l_rc, tt))
      else
        let '(v3, m) := op_stage ops "dec_timestamp"%string m in
        if (v3 <? 0) then
          inr (m, (l_c, l_rc, tt))
        else
          let '(v4, m) := op_stage ops "dec_authenticate"%string m in
          if (v4 <? 0) then
            inr (m, (l_c, l_rc, tt))
          else
            let '(v5, m) := op_stage ops "dec_check_retry"%string m in
            if (v5 <? 0) then
              inr (m, (l_c, l_rc, tt))
            else
              let '(v6, m) := op_stage ops "dec_unarmor"%string m in
              if (v6 <? 0) then
                inr (m, (l_c, l_rc, tt))
              else
                let '(v7, m) := op_stage ops "dec_unpack_outer"%string m in
                if (v7 <? 0) then
                  inr (m, (l_c, l_rc, tt))
                else
                  let '(v8, m) := op_stage ops "dec_decrypt"%string m in
                  if (v8 <? 0) then
                    inr (m, (l_c, l_rc, tt))
                  else
                    let '(v9, m) := op_stage ops "dec_validate_mac"%string m in
                    if (v9 <? 0) then
                      inr (m, (l_c, l_rc, tt))
                    else
                      let '(v10, m) := op_stage ops "dec_decompress"%string m in
                      if (v10 <? 0) then
                        inr (m, (l_c, l_rc, tt))
                      else
                        let '(v11, m) := op_stage ops "dec_unpack_inner"%string m in
                        if (v11 <? 0) then
                          inr (m, (l_c, l_rc, tt))
                        else
                          let '(v12, m) := op_stage ops "dec_validate_auth"%string m in
                          if (v12 <? 0) then
                            inr (m, (l_c, l_rc, tt))
                          else
                            let '(v13, m) := op_stage ops "dec_validate_time"%string m in
                            if (v13 <? 0) then
                              inr (m, (l_c, l_rc, tt))
                            else
                              let '(v14, m) := op_stage ops "dec_validate_replay"%string m in
                              if (v14 <? 0) then
                                inr (m, (l_c, l_rc, tt))
                              else
                                let l_rc := 0 in
                                inr (m, (l_c, l_rc, tt))
  ) with
  | inl r => r
  | inr (m, (l_c, l_rc, tt)) =>
    match (
      if ((((negb (l_rc =? 0)) && (negb ((Z.of_N (m_err (op_msg ops m))) =? (Z.of_N e_cred_expired)))) && (negb ((Z.of_N (m_err (op_msg ops m))) =? (Z.of_N e_cred_rewound)))) && (negb ((Z.of_N (m_err (op_msg ops m))) =? (Z.of_N e_cred_replayed)))) then
        let m := op_reset ops m in
        inr (m, (l_c, l_rc, tt))
      else
        inr (m, (l_c, l_rc, tt))
    ) with
    | inl r => r
    | inr (m, (l_c, l_rc, tt)) =>
      match (
        let '(v15, m) := op_send ops m in
        if (negb (v15 =? (Z.of_N e_success))) then
          match (
            if ((l_rc =? 0) && (negb ((op_cred ops "is_replay_new"%string m) =? 0))) then
              let m := op_unplay ops m in
              inr (m, (l_c, l_rc, tt))
            else
              inr (m, (l_c, l_rc, tt))
          ) with
          | inl r => inl r
          | inr (m, (l_c, l_rc, tt)) =>
            let l_rc := (- 1) in
            inr (m, (l_c, l_rc, tt))
          end
        else
          inr (m, (l_c, l_rc, tt))
      ) with
      | inl r => r
      | inr (m, (l_c, l_rc, tt)) =>
        (l_rc, m)
      end
    end
  end.

Definition src_enc_process_msg {S : Type} (ops : pipe_ops S) (m : S) : Z * S :=
  let l_c := 0 in
  let l_rc := 0 in
  let l_c := 0 in
  let l_rc := (- 1) in
  match (
    let '(v1, m) := op_stage ops "enc_validate_msg"%string m in
    if (v1 <? 0) then
      inr (m, (l_c, l_rc, tt))
    else
      let '(v2, m) := op_stage ops "cred_create"%string m in
      let l_c := v2 in
      if (negb (negb (l_c =? 0))) then
        inr (m, (l_c, l_rc, tt))
      else
        let '(v3, m) := op_stage ops "enc_init"%string m in
        if (v3 <? 0) then
          inr (m, (l_c, l_rc, tt))
        else
          let '(v4, m) := op_stage ops "enc_authenticate"%string m in
          if (v4 <? 0) then
            inr (m, (l_c, l_rc, tt))
          else
            let '(v5, m) := op_stage ops "enc_check_retry"%string m in
            if (v5 <? 0) then
              inr (m, (l_c, l_rc, tt))
            else
              let '(v6, m) := op_stage ops "enc_timestamp"%string m in
              if (v6 <? 0) then
                inr (m, (l_c, l_rc, tt))
              else
                let '(v7, m) := op_stage ops "enc_pack_outer"%string m in
                if (v7 <? 0) then
                  inr (m, (l_c, l_rc, tt))
                else
                  let '(v8, m) := op_stage ops "enc_pack_inner"%string m in
                  if (v8 <? 0) then
                    inr (m, (l_c, l_rc, tt))
                  else
                    let '(v9, m) := op_stage ops "enc_compress"%string m in
                    if (v9 <? 0) then
                      inr (m, (l_c, l_rc, tt))
                    else
                      let '(v10, m) := op_stage ops "enc_mac"%string m in
                      if (v10 <? 0) then
                        inr (m, (l_c, l_rc, tt))
                      else
                        let '(v11, m) := op_stage ops "enc_encrypt"%string m in
                        if (v11 <? 0) then
                          inr (m, (l_c, l_rc, tt))
                        else
                          let '(v12, m) := op_stage ops "enc_armor"%string m in
                          if (v12 <? 0) then
                            inr (m, (l_c, l_rc, tt))
                          else
                            let '(v13, m) := op_stage ops "enc_fini"%string m in
                            if (v13 <? 0) then
                              inr (m, (l_c, l_rc, tt))
                            else
                              let l_rc := 0 in
                              inr (m, (l_c, l_rc, tt))
  ) with
  | inl r => r
  | inr (m, (l_c, l_rc, tt)) =>
    match (
      if (negb (l_rc =? 0)) then
        let m := op_reset ops m in
        inr (m, (l_c, l_rc, tt))
      else
        inr (m, (l_c, l_rc, tt))
    ) with
    | inl r => r
    | inr (m, (l_c, l_rc, tt)) =>
      match (
        let '(v14, m) := op_send ops m in
        if (negb (v14 =? (Z.of_N e_success))) then
          let l_rc := (- 1) in
          inr (m, (l_c, l_rc, tt))
        else
          inr (m, (l_c, l_rc, tt))
      ) with
      | inl r => r
      | inr (m, (l_c, l_rc, tt)) =>
        (l_rc, m)
      end
    end
  end.
