(* GENERATED from src/munged/work.c by tools/gen_facts.py - do not edit *)
From Coq Require Import List Bool.
From MV Require Import WorkModel.
Import ListNotations.
(* value of the wait-loop guard for (n_working, work_head != NULL) =
   (0, false); (0, true); (non-zero, false); (non-zero, true) *)
Definition code_wait_tab : list bool := [false; true; true; true].
Definition code_fini_tab : list bool := [false; true; true; true].
Definition code_wait_cond : nat -> bool -> bool := tabguard code_wait_tab.
Definition code_fini_cond : nat -> bool -> bool := tabguard code_fini_tab.
