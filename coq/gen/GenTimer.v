(* GENERATED from src/munged/{timer,clock,random}.c and src/libcommon/munge_defs.h by tools/gen_facts.py - do not edit *)
From Coq Require Import ZArith.
Local Open Scope Z_scope.
Definition long_max : Z := 9223372036854775807.
Definition msec_per_sec : Z := 1000.
Definition nsec_per_msec : Z := 1000000.
Definition nsec_per_sec : Z := 1000000000.
Definition replay_purge_secs : Z := 60.
Definition group_update_secs : Z := 3600.
Definition stir_max_secs : Z := 32768.
