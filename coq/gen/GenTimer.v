(* GENERATED from src/munged/{timer,clock,random}.c and src/libcommon/munge_defs.h by tools/gen_facts.py - do not edit *)
From Coq Require Import ZArith List.
Import ListNotations.
Local Open Scope Z_scope.
Definition long_max : Z := 9223372036854775807.
Definition msec_per_sec : Z := 1000.
Definition nsec_per_msec : Z := 1000000.
Definition nsec_per_sec : Z := 1000000000.
Definition replay_purge_secs : Z := 60.
Definition group_update_secs : Z := 3600.
Definition stir_max_secs : Z := 32768.
Definition random_bytes_wanted : Z := 1152.
Definition random_seed_bytes : Z := 1024.
Definition stir_init_samples : list (Z * Z) := [(132, 2000); (132, 2000); (232, 2000); (1151, 2000); (1152, 32768000); (1156, 32768000); (1156, 32768000)].
Definition stir_run_samples : list (Z * Z) := [(1, 2000); (2, 4000); (4, 8000); (8, 16000); (16, 32000); (32, 64000); (64, 128000); (128, 256000); (256, 512000); (512, 1024000); (1024, 2048000); (2048, 4096000); (4096, 8192000); (8192, 16384000); (16384, 32768000); (32768, 32768000)].
Definition stir_jitter_max : Z := 1023.
