(* GENERATED from src/libcommon/munge_defs.h by tools/gen_facts.py - do not edit *)
From Coq Require Import NArith.
Local Open Scope N_scope.
Definition c_signal_wait_msecs : N := 5000.
Definition c_signal_check_msecs : N := 25.
Definition c_socket_timeout_msecs : N := 2000.
