(* GENERATED from the text of src/libmunge/m_msg_client.c, decode.c and encode.c by tools/facts/msgclientsrc.py - do not edit *)
From Coq Require Import NArith ZArith.
From MV.gen Require Import GenMsg.
Definition src_xfer_exptype (req : N) : option N :=
  if (req =? mt_enc_req)%N then Some mt_enc_rsp else if (req =? mt_dec_req)%N then Some mt_dec_rsp else None.
Definition src_xfer_recv_maxlen : Z := 0%Z.
Definition src_xfer_send_maxlen : Z := (Z.of_N max_req_len).
Definition src_dec_sanity : option N := (Some mt_dec_rsp).
Definition src_enc_sanity : option N := (Some mt_enc_rsp).
