(* GENERATED from src/munged/{path.h,munged.c,lock.c,random.c,conf.c} by tools/facts/path.py - do not edit *)
From Coq Require Import List NArith.
Import ListNotations.
Local Open Scope N_scope.
Definition path_security_no_flags : N := 0.
Definition path_security_ignore_group_write : N := 1.
Definition gid_sentinel : N := 4294967295.
Definition gid_maximum : N := 4294967294.
Definition s_isvtx : N := 512.
Definition s_irusr : N := 256.
Definition s_iwusr : N := 128.
Definition s_ixusr : N := 64.
Definition s_irgrp : N := 32.
Definition s_iwgrp : N := 16.
Definition s_ixgrp : N := 8.
Definition s_iroth : N := 4.
Definition s_iwoth : N := 2.
Definition s_ixoth : N := 1.
(* flags each call site hands to path_is_secure (observed through -Wl,--wrap on a real start) *)
Definition key_flags : N := 0.
Definition seed_flags : N := 0.
Definition log_flags : N := 1.
Definition sock_flags : N := 0.
Definition pid_flags : N := 0.
(* does the directory walk of each site run: (when nothing is at the file's name, when a file is there
   already) - observed on starts over fresh names and over occupied ones *)
Definition key_walk : bool * bool := (true, true).
Definition seed_walk : bool * bool := (true, true).
Definition log_walk : bool * bool := (true, true).
Definition sock_walk : bool * bool := (true, true).
Definition pid_walk : bool * bool := (true, true).
(* does _random_read_seed open the seed with O_NONBLOCK (a FIFO in its place cannot block the start) *)
Definition seed_open_nonblock : bool := false.
(* recipe of each created file: (requested mode, keep, or, final chmod); the umask in force at the
   creating call is (inherited land keep) lor or; fg = munged -F, bg = daemon mode.
   Socket: requested = mode of a fresh AF_UNIX socket inode before the umask is applied by bind(2). *)
Definition fg_sock : N * N * N * option N := (511, 0, 0, None).  (* 0777, 00, 00 *)
Definition fg_lock : N * N * N * option N := (128, 0, 0, None).  (* 0200, 00, 00 *)
Definition fg_pid : N * N * N * option N := (438, 493, 18, None).  (* 0666, 0755, 022 *)
Definition fg_seed : N * N * N * option N := (384, 511, 0, None).  (* 0600, 0777, 00 *)
Definition bg_sock : N * N * N * option N := (511, 0, 0, None).  (* 0777, 00, 00 *)
Definition bg_lock : N * N * N * option N := (128, 0, 0, None).  (* 0200, 00, 00 *)
Definition bg_pid : N * N * N * option N := (438, 0, 18, None).  (* 0666, 00, 022 *)
Definition bg_log : N * N * N * option N := (438, 0, 23, None).  (* 0666, 00, 027 *)
Definition bg_seed : N * N * N * option N := (384, 0, 0, None).  (* 0600, 00, 00 *)
(* how each file is created: (the name is unlinked first, O_EXCL, O_NOFOLLOW), from the same traces *)
Definition fg_sock_how : bool * bool * bool := (true, false, false).
Definition fg_lock_how : bool * bool * bool := (false, false, false).
Definition fg_pid_how : bool * bool * bool := (true, false, false).
Definition fg_seed_how : bool * bool * bool := (true, false, false).
Definition bg_sock_how : bool * bool * bool := (true, false, false).
Definition bg_lock_how : bool * bool * bool := (false, false, false).
Definition bg_pid_how : bool * bool * bool := (true, false, false).
Definition bg_log_how : bool * bool * bool := (false, false, false).
Definition bg_seed_how : bool * bool * bool := (true, false, false).
(* what the source does to an old file it could not unlink (a daemon that is not root, a directory it may not
   write to) and that open() therefore REUSED, mode and all: Some (base, keep, gives_up) = fchmod (fd, base land
   lnot (inherited land keep)) and, when that fails (file of another owner), gives_up = nothing is written;
   None = no fchmod: the old mode stays.  Observed with strace on starts of a uid-4242 daemon. *)
Definition fg_pid_rechmod : option (N * N * bool) := Some (420, 420, false).
Definition fg_seed_rechmod : option (N * N * bool) := Some (384, 0, true).
Definition bg_pid_rechmod : option (N * N * bool) := Some (420, 0, false).
Definition bg_seed_rechmod : option (N * N * bool) := Some (384, 0, true).
(* which of the process's user ids each ownership test compares with, observed by starting munged with
   real uid <> effective uid and the file (directory) in question owned by either *)
Definition id_real : N := 0.
Definition id_effective : N := 1.
Definition dir_owner_id : N := 1.
Definition key_owner_id : N := 1.
Definition seed_owner_id : N := 1.
Definition log_owner_id : N := 1.
Definition lock_owner_id : N := 1.
