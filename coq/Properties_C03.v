(* Properties_C03.v — statements only.  Credential identity is the kernel-attested identity of the requester. *)
From Coq Require Import List NArith ZArith Bool.
From Coq.Strings Require Import Byte.
From RecordUpdate Require Import RecordSet.
From MV Require Import Bytes Base64Model CredModel CredProofs CredRoundtrip CredIdentity.
From MV.gen Require Import GenCred.
Import ListNotations RecordSetNotations.
Local Open Scope N_scope.

(* The message object the daemon works on after m_msg_recv has NO field through which a request could state an
   identity: enc_pre overwrites client_uid/client_gid with the peer credentials obtained from the kernel before
   anything reads them, for every request content (any field values at all, including the ones an ENC_REQ does
   not carry). *)
Theorem C03_enc_identity_from_peer :
  forall cf m pu pg now m1, enc_pre cf m pu pg now = inl m1 -> m_client_uid m1 = pu /\ m_client_gid m1 = pg.
Proof. exact enc_pre_identity. Qed.
Print Assumptions C03_enc_identity_from_peer.

(* two requests that differ arbitrarily (payload, options, even the stale client_* / cred_* fields of the
   message object) but come from the same peer yield INNER layers with the same uid and gid words at the
   documented offsets: salt(8) addr_len(1) addr(4) time(4) ttl(4) UID(4) GID(4) ... *)
Theorem C03_inner_identity_words :
  forall cf m salt, len salt = c_salt_len -> len (cf_addr cf) = c_addr_size ->
  firstn 8 (skipn 21 (pack_inner cf m salt)) = be32 (m_client_uid m) ++ be32 (m_client_gid m).
Proof. exact pack_inner_identity. Qed.
Print Assumptions C03_inner_identity_words.

Section C03.
Variable hmac : N -> bytes -> bytes -> bytes.
Variable sha1 : bytes -> bytes.
Variable blk_enc blk_dec : N -> bytes -> bytes -> bytes.
Variable zcomp : N -> bytes -> option bytes.
Variable zdecomp : N -> bytes -> N -> option bytes.
Hypothesis hmac_len : forall a k d, mac_valid a = true -> len (hmac a k d) = mac_size a.
Hypothesis blk_len : forall c k b, cipher_valid c = true -> len b = cipher_blk_size c -> len (blk_enc c k b) = cipher_blk_size c.
Hypothesis blk_inv : forall c k b, cipher_valid c = true -> len b = cipher_blk_size c -> blk_dec c k (blk_enc c k b) = b.
Hypothesis zip_inv : forall z x raw mx, zip_valid z = true -> zcomp z x = Some raw -> len x <= mx -> zdecomp z raw mx = Some x.

(* end to end: whatever the request says, the uid and gid a decoder is told are exactly the encoder's kernel-
   reported effective ids, for all 32-bit values (no truncation, no swap) — corollary of the round trip *)
Theorem C03_decoded_identity_is_encoder_peer :
  forall (cfe cfd : conf) (m m1 : msg) (pu pg now : N) (salt ivr : bytes) (o : enc_out),
  wf_conf cfe -> wf_enc_req m -> cf_key cfd = cf_key cfe ->
  pu < 4294967296 -> pg < 4294967296 -> len salt = c_salt_len -> 16 <= len ivr ->
  enc_pre cfe m pu pg now = inl m1 ->
  enc_core hmac sha1 blk_enc zcomp cfe m1 salt ivr = inr o ->
  forall (mem : N -> N -> bool) (rs : rstate) (du dg now' retry : N),
  retry <= c_retry_attempts -> du < 4294967296 -> dg < 4294967296 ->
  (m_auth_uid m = c_uid_any \/ m_auth_uid m = du \/ (cf_root_auth cfd = true /\ du = 0)) ->
  (m_auth_gid m = c_gid_any \/ m_auth_gid m = dg \/ mem du (m_auth_gid m) = true) ->
  (Z.of_N (u32 now) - Z.of_N (skew_of cfd (capped cfd (m_ttl m1))) <= Z.of_N (u32 now'))%Z ->
  u32 now' <= u32 now + capped cfd (m_ttl m1) ->
  r_mem (firstn 16 (eo_tag o), u32 now + capped cfd (m_ttl m1)) rs = false ->
  let '(r, _, _) := dec_process hmac sha1 blk_dec zdecomp cfd mem rs (dec_req (eo_cred o) retry) du dg now' in
  m_err r = e_success /\ m_cred_uid r = pu /\ m_cred_gid r = pg.
Proof. exact (decoded_identity hmac sha1 blk_enc blk_dec zcomp zdecomp hmac_len blk_len blk_inv zip_inv). Qed.

(* the decoding client's identity used for the authorization decision is obtained the same way *)
Theorem C03_dec_auth_uses_peer :
  forall cf m pu pg now m2 tag,
  dec_parse hmac sha1 blk_dec zdecomp cf
    (m <| m_time0 := 0 |> <| m_time1 := u32 now |> <| m_client_uid := pu |> <| m_client_gid := pg |>) = inr (m2, tag) ->
  m_client_uid m2 = pu /\ m_client_gid m2 = pg.
Proof. exact (dec_auth_uses_peer hmac sha1 blk_dec zdecomp). Qed.
End C03.
Print Assumptions C03_decoded_identity_is_encoder_peer.
Print Assumptions C03_dec_auth_uses_peer.

Example C03_example :
  firstn 8 (skipn 21 (pack_inner cf_std (msg0 <| m_client_uid := 4294967294 |> <| m_client_gid := 2147483648 |>) (repeat x00 8)))
  = [xff; xff; xff; xfe; x80; x00; x00; x00].
Proof. vm_compute. reflexivity. Qed.
