(* Properties_C04.v — statements only.  UID/GID decode restrictions are enforced, silently to the unauthorized.
   Model: CredModel.dec_authorized / dec_process (dec.c:dec_validate_auth and its place in dec_process_msg). *)
From Coq Require Import List NArith Bool.
From RecordUpdate Require Import RecordSet.
From MV Require Import Bytes CredModel CredProofs.
From MV.gen Require Import GenCred.
Import ListNotations RecordSetNotations.
Local Open Scope N_scope.

(* the decision: restricted to UID u => only UID u (root only when built to allow it); restricted to GID g =>
   only primary GID g or a member of g according to the group map as last loaded *)
Theorem C04_auth_decision : forall cf mem m,
  dec_authorized cf mem m = true <->
  (m_auth_uid m = c_uid_any \/ m_auth_uid m = m_client_uid m \/ (cf_root_auth cf = true /\ m_client_uid m = 0)) /\
  (m_auth_gid m = c_gid_any \/ m_auth_gid m = m_client_gid m \/ mem (m_client_uid m) (m_auth_gid m) = true).
Proof. exact auth_decision. Qed.
Print Assumptions C04_auth_decision.

(* this build does not exempt root *)
Theorem C04_root_not_exempt_in_this_build : c_root_auth_flag = 0.
Proof. reflexivity. Qed.
Print Assumptions C04_root_not_exempt_in_this_build.

Section C04.
Variable hmac : N -> bytes -> bytes -> bytes.
Variable sha1 : bytes -> bytes.
Variable blk_dec : N -> bytes -> bytes -> bytes.
Variable zdecomp : N -> bytes -> N -> option bytes.

(* For a credential that authenticates (MAC valid, interior well formed) and a client the decision refuses, the
   reply is the reset message with 'unauthorized' — in ANY time relation (fresh, expired, rewound) and ANY replay
   state (already decoded or not) — it names only the client's own ids, and the replay state is left as it was:
   the refused attempt does not consume the credential. *)
Theorem C04_deny_precedes_everything :
  forall cf mem rs m pu pg now m2 tag,
  m_err m = e_success -> m_data_len m <> 0 -> m_retry m <= c_retry_attempts ->
  dec_parse hmac sha1 blk_dec zdecomp cf
    (m <| m_time0 := 0 |> <| m_time1 := u32 now |> <| m_client_uid := pu |> <| m_client_gid := pg |>) = inr (m2, tag) ->
  dec_authorized cf mem m2 = false ->
  dec_process hmac sha1 blk_dec zdecomp cf mem rs m pu pg now =
    (msg_reset (set_err m2 e_cred_unauthorized (Some (unauth_str m2))), rs, None)
  /\ m_client_uid m2 = pu /\ m_client_gid m2 = pg.
Proof. exact (deny_precedes_everything hmac sha1 blk_dec zdecomp). Qed.

(* the identity the decision uses is the kernel-reported peer of this very request *)
Theorem C04_decision_uses_peer :
  forall cf m pu pg now m2 tag,
  dec_parse hmac sha1 blk_dec zdecomp cf
    (m <| m_time0 := 0 |> <| m_time1 := u32 now |> <| m_client_uid := pu |> <| m_client_gid := pg |>) = inr (m2, tag) ->
  m_client_uid m2 = pu /\ m_client_gid m2 = pg.
Proof. exact (dec_auth_uses_peer hmac sha1 blk_dec zdecomp). Qed.
End C04.
Print Assumptions C04_deny_precedes_everything.
Print Assumptions C04_decision_uses_peer.

(* non-vacuity of the decision: restricted to uid 5, client uid 6 is refused, uid 5 accepted, member of gid 9 accepted *)
Example C04_example :
  dec_authorized cf_std (fun _ _ => false) (msg0 <| m_auth_uid := 5 |> <| m_auth_gid := c_gid_any |> <| m_client_uid := 6 |>) = false /\
  dec_authorized cf_std (fun _ _ => false) (msg0 <| m_auth_uid := 5 |> <| m_auth_gid := c_gid_any |> <| m_client_uid := 5 |>) = true /\
  dec_authorized cf_std (fun u g => (u =? 6) && (g =? 9)) (msg0 <| m_auth_uid := c_uid_any |> <| m_auth_gid := 9 |> <| m_client_uid := 6 |>) = true /\
  dec_authorized cf_std (fun _ _ => false) (msg0 <| m_auth_uid := 5 |> <| m_auth_gid := c_gid_any |> <| m_client_uid := 0 |>) = false.
Proof. vm_compute. repeat split; reflexivity. Qed.

(* TRANSLATOR TIE: dec_authorized IS dec.c's dec_validate_auth as translated from the C text on every run
   (tools/facts/cfun.py -> gen/GenCredFun.v): which members are compared (the credential's restriction against the
   DECODING client's ids), the root exception, the order and the group-membership call. *)
From MV Require Import CredFun.
From MV.gen Require Import GenCredFun.
Theorem C04_authorization_is_the_source : forall (cf : conf) (mem : N -> N -> bool) (m : msg),
  src_dec_validate_auth cf mem m = ((if dec_authorized cf mem m then 0 else e_cred_unauthorized), m).
Proof. exact dec_authorized_is_source. Qed.
Print Assumptions C04_authorization_is_the_source.
