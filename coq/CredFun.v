(* CredFun.v — the model's decision functions ARE the C functions, as translated from the source text on every run
   (tools/facts/cfun.py -> gen/GenCredFun.v): enc_validate_msg, dec_validate_auth, dec_validate_time, and (second half)
   dec_validate_msg, dec_check_retry / enc_check_retry, dec_timestamp / enc_timestamp, dec_authenticate /
   enc_authenticate, dec_validate_replay.  The control skeletons (dec_process_msg, enc_process_msg) are in CredPipe.v.
   The translation makes C's integer types explicit (uint8/uint32 wrap, conversion to int, 64-bit time_t), so a dropped
   cast, a swapped pair of statements, a comparison against the wrong member or a changed operator changes the generated
   function and breaks the equalities below. *)
From Coq Require Import List NArith ZArith Bool Lia.
From RecordUpdate Require Import RecordSet.
From MV Require Import Bytes CredModel.
From MV.gen Require Import GenCred GenCredFun.
Import ListNotations RecordSetNotations.
Local Open Scope N_scope.

Lemma zn (x : N) : Z.to_N (Z.of_N x) = x.
Proof. apply N2Z.id. Qed.

Lemma wrap32_small (x : N) : x < 4294967296 -> wrap32 (Z.of_N x) = Z.of_N x.
Proof. intros H. unfold wrap32. apply Z.mod_small. lia. Qed.

Lemma mod256_small (x : N) : x < 256 -> (Z.of_N x mod 256)%Z = Z.of_N x.
Proof. intros H. apply Z.mod_small. lia. Qed.

Lemma wrapi32_small (x : N) : x < 2147483648 -> wrapi32 (Z.of_N x) = Z.of_N x.
Proof. intros H. unfold wrapi32. rewrite Z.mod_small by lia. lia. Qed.

Lemma zeqb (a b : N) : (Z.of_N a =? Z.of_N b)%Z = (a =? b).
Proof. destruct (N.eqb_spec a b) as [->|Hn]; [apply Z.eqb_refl|]. apply Z.eqb_neq. lia. Qed.

Lemma zeqb0 (a : N) : (Z.of_N a =? 0)%Z = (a =? 0).
Proof. exact (zeqb a 0). Qed.

Lemma zltb (a b : N) : (Z.of_N a <? Z.of_N b)%Z = (a <? b).
Proof. destruct (N.ltb_spec a b); [apply Z.ltb_lt|apply Z.ltb_ge]; lia. Qed.

Lemma zgtb (a b : N) : (Z.of_N a >? Z.of_N b)%Z = (b <? a).
Proof. rewrite Z.gtb_ltb. apply zltb. Qed.

Lemma b2z_nz (b : bool) : negb (b2z b =? 0)%Z = b.
Proof. destruct b; reflexivity. Qed.

Lemma valid_lt0 (b : bool) : ((if b then 0 else -1) <? 0)%Z = negb b.
Proof. destruct b; reflexivity. Qed.

Lemma msg_eta (m : msg) : m <| m_ttl := m_ttl m |> = m.
Proof. destruct m; reflexivity. Qed.

(* one step of symbolic execution: normalise the Z comparisons of the translated text to the N comparisons of the
   model, split on the condition at the head, reduce *)
Ltac norm := rewrite ?zn, ?zeqb, ?zeqb0, ?zltb, ?zgtb, ?valid_lt0, ?b2z_nz, ?negb_involutive.
Ltac redx := cbn beta iota zeta delta [fst snd set m_retry m_cipher m_mac m_zip m_realm_len m_realm m_ttl m_addr_len m_addr
                                      m_time0 m_time1 m_client_uid m_client_gid m_cred_uid m_cred_gid m_auth_uid m_auth_gid
                                      m_data_len m_data m_err m_errstr].
Ltac step :=
  norm;
  match goal with
  | |- context [match (if ?b then _ else _) with inl _ => _ | inr _ => _ end] => destruct b eqn:?
  | |- context [if ?b then _ else _] => destruct b eqn:?
  end; redx.

(* ---------------- enc_validate_msg ---------------- *)
Theorem enc_validate_is_source : forall (cf : conf) (m : msg),
  cf_def_cipher cf < 256 -> cf_def_mac cf < 256 -> cf_def_zip cf < 256 ->
  cf_def_ttl cf < 4294967296 -> cf_max_ttl cf < 4294967296 -> m_err m = e_success ->
  match enc_validate cf m with
  | inl m' => src_enc_validate_msg cf m = (0, m')
  | inr e => fst (src_enc_validate_msg cf m) = m_err e
  end.
Proof.
  intros cf m Hc Hm Hz Hd Hx He.
  assert (Hse : forall (mm : msg) e s, m_err mm = e_success -> e <> e_success -> m_err (set_err mm e s) = e).
  { intros mm e s H1 H2. unfold set_err. rewrite H1, N.eqb_refl. apply N.eqb_neq in H2. rewrite H2. reflexivity. }
  assert (Hcz : (Z.of_N c_zip_none mod 256 = Z.of_N c_zip_none)%Z) by (vm_compute; reflexivity).
  unfold src_enc_validate_msg, enc_validate.
  destruct m as [rt ci ma zi rl rs tt al ad t0 t1 cu cg ku kg au ag dl da er es]. redx. cbn [m_err] in He.
  rewrite (mod256_small _ Hc), (mod256_small _ Hm), (mod256_small _ Hz), Hcz, (wrap32_small _ Hd), (wrap32_small _ Hx).
  repeat step.
  all: try reflexivity.
  all: try congruence.
  all: try (rewrite Hse; [reflexivity|assumption|vm_compute; discriminate]).
Qed.

(* ---------------- dec_validate_auth ---------------- *)
Theorem dec_authorized_is_source : forall (cf : conf) (mem : N -> N -> bool) (m : msg),
  src_dec_validate_auth cf mem m = ((if dec_authorized cf mem m then 0 else e_cred_unauthorized), m).
Proof.
  intros cf mem m.
  assert (Hu : wrap32 (Z.of_N c_uid_any) = Z.of_N c_uid_any) by (vm_compute; reflexivity).
  assert (Hg : wrap32 (Z.of_N c_gid_any) = Z.of_N c_gid_any) by (vm_compute; reflexivity).
  unfold src_dec_validate_auth, dec_authorized. rewrite Hu, Hg.
  norm.
  destruct (m_auth_uid m =? c_uid_any); destruct (m_auth_uid m =? m_client_uid m); destruct (cf_root_auth cf);
    destruct (m_client_uid m =? 0); cbn [negb andb orb]; redx; norm;
    destruct (m_auth_gid m =? c_gid_any); destruct (m_auth_gid m =? m_client_gid m);
    destruct (mem (m_client_uid m) (m_auth_gid m)); reflexivity.
Qed.

(* ---------------- dec_validate_time ---------------- *)
Definition tcode (v : tverdict) : N :=
  match v with TOk => 0 | TRewound => e_cred_rewound | TExpired => e_cred_expired end.

Theorem dec_time_is_source : forall (cf : conf) (m : msg),
  cf_max_ttl cf < 2147483648 -> m_ttl m < 4294967296 ->
  let r := dec_time cf (m_time0 m) (m_ttl m) (m_time1 m) in
  src_dec_validate_time cf m = (tcode (fst r), m <| m_ttl := snd r |>).
Proof.
  intros cf m Hx Ht r. subst r.
  assert (Hx32 : cf_max_ttl cf < 4294967296) by lia.
  unfold src_dec_validate_time, dec_time.
  rewrite (wrap32_small _ Hx32). norm.
  destruct m as [rt ci ma zi rl rs tt al ad t0 t1 cu cg ku kg au ag dl da er es]. redx. cbn [m_ttl] in Ht.
  destruct (cf_max_ttl cf <? tt) eqn:Ecap; redx; norm.
  - (* capped *)
    destruct (cf_clock_skew cf) eqn:Esk; cbn [b2z]; redx.
    + change (negb (1 =? 0)%Z) with true. cbn iota.
      rewrite (wrapi32_small _ Hx).
      rewrite <- N2Z.inj_add. norm.
      destruct (Z.of_N t1 <? Z.of_N t0 - Z.of_N (cf_max_ttl cf))%Z eqn:E1; redx; [reflexivity|]; rewrite <- ?N2Z.inj_add; norm.
      destruct (t0 + cf_max_ttl cf <? t1) eqn:E2; redx; reflexivity.
    + change (negb (0 =? 0)%Z) with false. cbn iota.
      change (wrapi32 1) with 1%Z. change (Z.of_N 1) with 1%Z.
      rewrite <- N2Z.inj_add. norm.
      destruct (Z.of_N t1 <? Z.of_N t0 - 1)%Z eqn:E1; redx; [reflexivity|]; rewrite <- ?N2Z.inj_add; norm.
      destruct (t0 + cf_max_ttl cf <? t1) eqn:E2; redx; reflexivity.
  - (* not capped *)
    apply N.ltb_ge in Ecap.
    destruct (cf_clock_skew cf) eqn:Esk; cbn [b2z]; redx.
    + change (negb (1 =? 0)%Z) with true. cbn iota.
      rewrite (wrapi32_small tt) by lia.
      rewrite <- N2Z.inj_add. norm.
      destruct (Z.of_N t1 <? Z.of_N t0 - Z.of_N tt)%Z eqn:E1; redx; [reflexivity|]; rewrite <- ?N2Z.inj_add; norm.
      destruct (t0 + tt <? t1) eqn:E2; redx; reflexivity.
    + change (negb (0 =? 0)%Z) with false. cbn iota.
      change (wrapi32 1) with 1%Z. change (Z.of_N 1) with 1%Z.
      rewrite <- N2Z.inj_add. norm.
      destruct (Z.of_N t1 <? Z.of_N t0 - 1)%Z eqn:E1; redx; [reflexivity|]; rewrite <- ?N2Z.inj_add; norm.
      destruct (t0 + tt <? t1) eqn:E2; redx; reflexivity.
Qed.

Lemma zleb (a b : N) : (Z.of_N a <=? Z.of_N b)%Z = (a <=? b).
Proof. destruct (N.leb_spec a b); [apply Z.leb_le|apply Z.leb_gt]; lia. Qed.

Lemma zgtb0 (a : N) : (Z.of_N a >? 0)%Z = (0 <? a).
Proof. exact (zgtb a 0). Qed.

Lemma to_n_wrap32 (x : N) : Z.to_N (wrap32 (Z.of_N x)) = u32 x.
Proof.
  unfold wrap32, u32. change 4294967296%Z with (Z.of_N 4294967296).
  rewrite <- N2Z.inj_mod by discriminate. apply N2Z.id.
Qed.

Lemma clock_not_failed (now : N) : (Z.of_N now =? -1)%Z = false.
Proof. apply Z.eqb_neq. lia. Qed.

Ltac norm2 := norm; rewrite ?zleb, ?zgtb0.

(* ==================================================================== *)
(* the remaining small decision functions of dec.c / enc.c              *)
(* ==================================================================== *)

(* ---------------- dec_validate_msg: a request without a credential ----------------
   p = the address in m->data.  m_msg.c allocates m->data exactly when data_len > 0, so the model's test on the
   length alone is the source's test under that invariant (second statement). *)
Theorem dec_validate_msg_is_source : forall (cf : conf) (p : Z) (m : msg),
  src_dec_validate_msg cf p m = ((if (m_data_len m =? 0) || (p =? 0)%Z then e_snafu else 0), m).
Proof.
  intros cf p m. unfold src_dec_validate_msg. norm2.
  destruct ((m_data_len m =? 0) || (p =? 0)%Z); reflexivity.
Qed.

Corollary dec_validate_msg_is_model : forall (cf : conf) (p : Z) (m : msg),
  (p = 0%Z <-> m_data_len m = 0) ->
  src_dec_validate_msg cf p m = ((if m_data_len m =? 0 then e_snafu else 0), m).
Proof.
  intros cf p m H. rewrite dec_validate_msg_is_source.
  destruct (N.eqb_spec (m_data_len m) 0) as [E|E]; [reflexivity|].
  destruct (Z.eqb_spec p 0) as [P|P]; [apply H in P; contradiction|reflexivity].
Qed.

(* ---------------- dec_check_retry / enc_check_retry: the retry limit ---------------- *)
Theorem dec_check_retry_is_source : forall (cf : conf) (m : msg),
  src_dec_check_retry cf m = ((if c_retry_attempts <? m_retry m then e_socket else 0), m).
Proof.
  intros cf m. unfold src_dec_check_retry.
  destruct (Z.of_N (m_retry m) >? 0)%Z; redx; norm2; destruct (c_retry_attempts <? m_retry m); reflexivity.
Qed.

Theorem enc_check_retry_is_source : forall (cf : conf) (m : msg),
  src_enc_check_retry cf m = ((if c_retry_attempts <? m_retry m then e_socket else 0), m).
Proof.
  intros cf m. unfold src_enc_check_retry.
  destruct (Z.of_N (m_retry m) >? 0)%Z; redx; norm2; destruct (c_retry_attempts <? m_retry m); reflexivity.
Qed.

(* ---------------- dec_timestamp / enc_timestamp: which members are set from the clock ----------------
   the clock is a time_t (64 bit); the members are uint32_t, so the stored value is the clock mod 2^32 *)
Theorem dec_timestamp_is_source : forall (cf : conf) (now : N) (m : msg),
  src_dec_timestamp cf (Z.of_N now) m = (0, m <| m_time0 := 0 |> <| m_time1 := u32 now |>).
Proof.
  intros cf now m. unfold src_dec_timestamp. rewrite clock_not_failed.
  cbn beta iota zeta. rewrite to_n_wrap32. reflexivity.
Qed.

Theorem enc_timestamp_is_source : forall (cf : conf) (now : N) (m : msg),
  src_enc_timestamp cf (Z.of_N now) m = (0, m <| m_time0 := u32 now |> <| m_time1 := 0 |>).
Proof.
  intros cf now m. unfold src_enc_timestamp. rewrite clock_not_failed.
  cbn beta iota zeta. rewrite to_n_wrap32. reflexivity.
Qed.

(* time () failing is an internal error on both paths and leaves the message alone *)
Theorem timestamp_clock_failure_is_source : forall (cf : conf) (m : msg),
  src_dec_timestamp cf (-1) m = (e_snafu, m) /\ src_enc_timestamp cf (-1) m = (e_snafu, m).
Proof. intros cf m. split; reflexivity. Qed.

(* ---------------- dec_authenticate / enc_authenticate: which members receive the peer's ids ----------------
   auth_recv is an opaque source of (rc, uid, gid); any rc other than EMUNGE_SUCCESS is a failure *)
Theorem dec_authenticate_is_source : forall (cf : conf) (rc : Z) (pu pg : N) (m : msg),
  src_dec_authenticate cf rc (Z.of_N pu) (Z.of_N pg) m =
  if (rc =? 0)%Z then (0, m <| m_client_uid := pu |> <| m_client_gid := pg |>) else (e_snafu, m).
Proof.
  intros cf rc pu pg m. unfold src_dec_authenticate. rewrite !zn.
  change (Z.of_N e_success) with 0%Z. destruct (rc =? 0)%Z; reflexivity.
Qed.

Theorem enc_authenticate_is_source : forall (cf : conf) (rc : Z) (pu pg : N) (m : msg),
  src_enc_authenticate cf rc (Z.of_N pu) (Z.of_N pg) m =
  if (rc =? 0)%Z then (0, m <| m_client_uid := pu |> <| m_client_gid := pg |>) else (e_snafu, m).
Proof.
  intros cf rc pu pg m. unfold src_enc_authenticate. rewrite !zn.
  change (Z.of_N e_success) with 0%Z. destruct (rc =? 0)%Z; reflexivity.
Qed.

(* ---------------- dec_validate_replay: replay_insert's outcome x the retry exemption x the FRESH clock ----------------
   ins = replay_insert's result (0 inserted, > 0 already there, < 0 failure), en = errno after it, c = the request's
   c->is_replay_new on entry, clk = the clock read AFTER the insert (time_t; -1 = time () failed).
   A credential that is already there is accepted exactly when retries are enabled and
   0 < retry <= MUNGE_SOCKET_RETRY_ATTEMPTS.  A credential that was NOT there (the insert succeeded) is accepted only if
   it has not expired by the fresh clock reading: clk <= time0 + ttl (ttl as capped by dec_validate_time) - otherwise
   EMUNGE_CRED_EXPIRED, the inserted record stays and c->is_replay_new is NOT set.  c->is_replay_new is set exactly when
   this call inserted the record and accepted the credential; an allowed replay leaves it as it was. *)
Definition replay_exempt (cf : conf) (m : msg) : bool :=
  cf_socket_retry cf && (0 <? m_retry m) && (m_retry m <=? c_retry_attempts).

Theorem dec_validate_replay_is_source : forall (cf : conf) (clk ins en c : Z) (m : msg),
  src_dec_validate_replay cf clk ins en c m =
  ((if (ins =? 0)%Z then (if (clk =? -1)%Z then e_snafu
                          else if (clk >? Z.of_N (m_time0 m) + Z.of_N (m_ttl m))%Z then e_cred_expired else 0)
    else if (ins >? 0)%Z then (if replay_exempt cf m then 0 else e_cred_replayed)
    else if (en =? 12)%Z then e_no_memory else e_snafu), m,
   (if (ins =? 0)%Z && negb (clk =? -1)%Z && negb (clk >? Z.of_N (m_time0 m) + Z.of_N (m_ttl m))%Z then 1 else c)%Z).
Proof.
  intros cf clk ins en c m. unfold src_dec_validate_replay, replay_exempt.
  cbn beta iota zeta.
  destruct (ins =? 0)%Z; cbn beta iota; cbn [andb].
  - destruct (clk =? -1)%Z; cbn beta iota; cbn [negb andb]; [reflexivity|].
    destruct (clk >? Z.of_N (m_time0 m) + Z.of_N (m_ttl m))%Z; reflexivity.
  - destruct (ins >? 0)%Z; cbn beta iota.
    + norm2. destruct (cf_socket_retry cf && (0 <? m_retry m) && (m_retry m <=? c_retry_attempts)); reflexivity.
    + destruct (en =? 12)%Z; reflexivity.
Qed.
