(* CredFun.v — the model's decision functions ARE the C functions, as translated from the source text on every run
   (tools/facts/cfun.py -> gen/GenCredFun.v): enc_validate_msg, dec_validate_auth, dec_validate_time.
   The translation makes C's integer types explicit (uint8/uint32 wrap, conversion to int, 64-bit time_t), so a dropped
   cast, a swapped pair of statements, a comparison against the wrong member or a changed operator changes the generated
   function and breaks the equalities below. *)
From Coq Require Import List NArith ZArith Bool Lia.
From RecordUpdate Require Import RecordSet.
From MV Require Import Bytes CredModel.
From MV.gen Require Import GenCred GenCredFun.
Import ListNotations RecordSetNotations.
Local Open Scope N_scope.

Lemma zn (x : N) : Z.to_N (Z.of_N x) = x.
Proof. apply N2Z.id. Qed.

Lemma wrap32_small (x : N) : x < 4294967296 -> wrap32 (Z.of_N x) = Z.of_N x.
Proof. intros H. unfold wrap32. apply Z.mod_small. lia. Qed.

Lemma mod256_small (x : N) : x < 256 -> (Z.of_N x mod 256)%Z = Z.of_N x.
Proof. intros H. apply Z.mod_small. lia. Qed.

Lemma wrapi32_small (x : N) : x < 2147483648 -> wrapi32 (Z.of_N x) = Z.of_N x.
Proof. intros H. unfold wrapi32. rewrite Z.mod_small by lia. lia. Qed.

Lemma zeqb (a b : N) : (Z.of_N a =? Z.of_N b)%Z = (a =? b).
Proof. destruct (N.eqb_spec a b) as [->|Hn]; [apply Z.eqb_refl|]. apply Z.eqb_neq. lia. Qed.

Lemma zeqb0 (a : N) : (Z.of_N a =? 0)%Z = (a =? 0).
Proof. exact (zeqb a 0). Qed.

Lemma zltb (a b : N) : (Z.of_N a <? Z.of_N b)%Z = (a <? b).
Proof. destruct (N.ltb_spec a b); [apply Z.ltb_lt|apply Z.ltb_ge]; lia. Qed.

Lemma zgtb (a b : N) : (Z.of_N a >? Z.of_N b)%Z = (b <? a).
Proof. rewrite Z.gtb_ltb. apply zltb. Qed.

Lemma b2z_nz (b : bool) : negb (b2z b =? 0)%Z = b.
Proof. destruct b; reflexivity. Qed.

Lemma valid_lt0 (b : bool) : ((if b then 0 else -1) <? 0)%Z = negb b.
Proof. destruct b; reflexivity. Qed.

Lemma msg_eta (m : msg) : m <| m_ttl := m_ttl m |> = m.
Proof. destruct m; reflexivity. Qed.

(* one step of symbolic execution: normalise the Z comparisons of the translated text to the N comparisons of the
   model, split on the condition at the head, reduce *)
Ltac norm := rewrite ?zn, ?zeqb, ?zeqb0, ?zltb, ?zgtb, ?valid_lt0, ?b2z_nz, ?negb_involutive.
Ltac redx := cbn beta iota zeta delta [fst snd set m_retry m_cipher m_mac m_zip m_realm_len m_realm m_ttl m_addr_len m_addr
                                      m_time0 m_time1 m_client_uid m_client_gid m_cred_uid m_cred_gid m_auth_uid m_auth_gid
                                      m_data_len m_data m_err m_errstr].
Ltac step :=
  norm;
  match goal with
  | |- context [match (if ?b then _ else _) with inl _ => _ | inr _ => _ end] => destruct b eqn:?
  | |- context [if ?b then _ else _] => destruct b eqn:?
  end; redx.

(* ---------------- enc_validate_msg ---------------- *)
Theorem enc_validate_is_source : forall (cf : conf) (m : msg),
  cf_def_cipher cf < 256 -> cf_def_mac cf < 256 -> cf_def_zip cf < 256 ->
  cf_def_ttl cf < 4294967296 -> cf_max_ttl cf < 4294967296 -> m_err m = e_success ->
  match enc_validate cf m with
  | inl m' => src_enc_validate_msg cf m = (0, m')
  | inr e => fst (src_enc_validate_msg cf m) = m_err e
  end.
Proof.
  intros cf m Hc Hm Hz Hd Hx He.
  assert (Hse : forall (mm : msg) e s, m_err mm = e_success -> e <> e_success -> m_err (set_err mm e s) = e).
  { intros mm e s H1 H2. unfold set_err. rewrite H1, N.eqb_refl. apply N.eqb_neq in H2. rewrite H2. reflexivity. }
  assert (Hcz : (Z.of_N c_zip_none mod 256 = Z.of_N c_zip_none)%Z) by (vm_compute; reflexivity).
  unfold src_enc_validate_msg, enc_validate.
  destruct m as [rt ci ma zi rl rs tt al ad t0 t1 cu cg ku kg au ag dl da er es]. redx. cbn [m_err] in He.
  rewrite (mod256_small _ Hc), (mod256_small _ Hm), (mod256_small _ Hz), Hcz, (wrap32_small _ Hd), (wrap32_small _ Hx).
  repeat step.
  all: try reflexivity.
  all: try congruence.
  all: try (rewrite Hse; [reflexivity|assumption|vm_compute; discriminate]).
Qed.

(* ---------------- dec_validate_auth ---------------- *)
Theorem dec_authorized_is_source : forall (cf : conf) (mem : N -> N -> bool) (m : msg),
  src_dec_validate_auth cf mem m = ((if dec_authorized cf mem m then 0 else e_cred_unauthorized), m).
Proof.
  intros cf mem m.
  assert (Hu : wrap32 (Z.of_N c_uid_any) = Z.of_N c_uid_any) by (vm_compute; reflexivity).
  assert (Hg : wrap32 (Z.of_N c_gid_any) = Z.of_N c_gid_any) by (vm_compute; reflexivity).
  unfold src_dec_validate_auth, dec_authorized. rewrite Hu, Hg.
  norm.
  destruct (m_auth_uid m =? c_uid_any); destruct (m_auth_uid m =? m_client_uid m); destruct (cf_root_auth cf);
    destruct (m_client_uid m =? 0); cbn [negb andb orb]; redx; norm;
    destruct (m_auth_gid m =? c_gid_any); destruct (m_auth_gid m =? m_client_gid m);
    destruct (mem (m_client_uid m) (m_auth_gid m)); reflexivity.
Qed.

(* ---------------- dec_validate_time ---------------- *)
Definition tcode (v : tverdict) : N :=
  match v with TOk => 0 | TRewound => e_cred_rewound | TExpired => e_cred_expired end.

Theorem dec_time_is_source : forall (cf : conf) (m : msg),
  cf_max_ttl cf < 2147483648 -> m_ttl m < 4294967296 ->
  let r := dec_time cf (m_time0 m) (m_ttl m) (m_time1 m) in
  src_dec_validate_time cf m = (tcode (fst r), m <| m_ttl := snd r |>).
Proof.
  intros cf m Hx Ht r. subst r.
  assert (Hx32 : cf_max_ttl cf < 4294967296) by lia.
  unfold src_dec_validate_time, dec_time.
  rewrite (wrap32_small _ Hx32). norm.
  destruct m as [rt ci ma zi rl rs tt al ad t0 t1 cu cg ku kg au ag dl da er es]. redx. cbn [m_ttl] in Ht.
  destruct (cf_max_ttl cf <? tt) eqn:Ecap; redx; norm.
  - (* capped *)
    destruct (cf_clock_skew cf) eqn:Esk; cbn [b2z]; redx.
    + change (negb (1 =? 0)%Z) with true. cbn iota.
      rewrite (wrapi32_small _ Hx).
      rewrite <- N2Z.inj_add. norm.
      destruct (Z.of_N t1 <? Z.of_N t0 - Z.of_N (cf_max_ttl cf))%Z eqn:E1; redx; [reflexivity|]; rewrite <- ?N2Z.inj_add; norm.
      destruct (t0 + cf_max_ttl cf <? t1) eqn:E2; redx; reflexivity.
    + change (negb (0 =? 0)%Z) with false. cbn iota.
      change (wrapi32 1) with 1%Z. change (Z.of_N 1) with 1%Z.
      rewrite <- N2Z.inj_add. norm.
      destruct (Z.of_N t1 <? Z.of_N t0 - 1)%Z eqn:E1; redx; [reflexivity|]; rewrite <- ?N2Z.inj_add; norm.
      destruct (t0 + cf_max_ttl cf <? t1) eqn:E2; redx; reflexivity.
  - (* not capped *)
    apply N.ltb_ge in Ecap.
    destruct (cf_clock_skew cf) eqn:Esk; cbn [b2z]; redx.
    + change (negb (1 =? 0)%Z) with true. cbn iota.
      rewrite (wrapi32_small tt) by lia.
      rewrite <- N2Z.inj_add. norm.
      destruct (Z.of_N t1 <? Z.of_N t0 - Z.of_N tt)%Z eqn:E1; redx; [reflexivity|]; rewrite <- ?N2Z.inj_add; norm.
      destruct (t0 + tt <? t1) eqn:E2; redx; reflexivity.
    + change (negb (0 =? 0)%Z) with false. cbn iota.
      change (wrapi32 1) with 1%Z. change (Z.of_N 1) with 1%Z.
      rewrite <- N2Z.inj_add. norm.
      destruct (Z.of_N t1 <? Z.of_N t0 - 1)%Z eqn:E1; redx; [reflexivity|]; rewrite <- ?N2Z.inj_add; norm.
      destruct (t0 + tt <? t1) eqn:E2; redx; reflexivity.
Qed.
