(* ConcCred.v — ConcModel instantiated with the credential pipeline: encode requests are pure, decode requests
   have the replay-cache step as their one critical section (RetryProofs.dec_process_factor). *)
From Coq Require Import List NArith ZArith Bool.
From Coq.Strings Require Import Byte.
From RecordUpdate Require Import RecordSet.
From MV Require Import Bytes Base64Model CredModel CredProofs RetryModel RetryProofs ConcModel ConcProofs.
From MV.gen Require Import GenCred.
Import ListNotations RecordSetNotations.
Local Open Scope N_scope.

Inductive creq :=
| QEnc (m : msg) (pu pg now : N) (salt ivr : bytes)
| QDec (m : msg) (pu pg now : N).
Inductive cpre := PEnc (r : enc_rsp) | PDec (x : msg + (msg * rkey)).
Inductive crep := REnc (r : enc_rsp) | RDec (r : msg).

Section CC.
Variable hmac : N -> bytes -> bytes -> bytes.
Variable sha1 : bytes -> bytes.
Variable blk_enc blk_dec : N -> bytes -> bytes -> bytes.
Variable zcomp : N -> bytes -> option bytes.
Variable zdecomp : N -> bytes -> N -> option bytes.
Variable cf : conf.
Variable mem : N -> N -> bool.      (* the group map is constant during the batch *)

Definition c_pre (q : creq) : cpre :=
  match q with
  | QEnc m pu pg now salt ivr => PEnc (enc_process hmac sha1 blk_enc zcomp cf m pu pg now salt ivr)
  | QDec m pu pg now => PDec (dec_pre hmac sha1 blk_dec zdecomp cf mem m pu pg now)
  end.

(* the critical section: replay_insert (and the retry exception) for decodes; nothing for encodes *)
Definition c_atomic (p : cpre) (rs : rstate) : crep * rstate :=
  match p with
  | PEnc r => (REnc r, rs)
  | PDec (inl r) => (RDec r, rs)
  | PDec (inr (m', k)) =>
      if r_mem k rs then
        if cf_socket_retry cf && (0 <? m_retry m') && (m_retry m' <=? c_retry_attempts)
        then (RDec m', rs)
        else (RDec (dec_finish (set_err m' e_cred_replayed None)), rs)
      else (RDec m', k :: rs)
  end.

(* serving one request alone, as enc_process_msg / dec_process_msg do *)
Definition serve (q : creq) (rs : rstate) : crep * rstate :=
  match q with
  | QEnc m pu pg now salt ivr => (REnc (enc_process hmac sha1 blk_enc zcomp cf m pu pg now salt ivr), rs)
  | QDec m pu pg now => let '(r, rs', _) := dec_process hmac sha1 blk_dec zdecomp cf mem rs m pu pg now in (RDec r, rs')
  end.

Lemma atomic_pre_is_serve q rs : c_atomic (c_pre q) rs = serve q rs.
Proof.
  destruct q as [m pu pg now salt ivr|m pu pg now]; cbn [c_pre c_atomic serve]; [reflexivity|].
  rewrite (dec_process_factor hmac sha1 blk_dec zdecomp).
  destruct (dec_pre hmac sha1 blk_dec zdecomp cf mem m pu pg now) as [r|[m' k]]; [reflexivity|].
  destruct (r_mem k rs); [|reflexivity]. destruct (_ && _ && _); reflexivity.
Qed.

(* sequential service of a list of requests, in a given order *)
Fixpoint serve_all (reqs : nat -> option creq) (order : list nat) (rs : rstate) : rstate * list (nat * crep) :=
  match order with
  | [] => (rs, [])
  | i :: r => match reqs i with
              | Some q => let '(rep, rs') := serve q rs in
                          let '(rf, l) := serve_all reqs r rs' in (rf, (i, rep) :: l)
              | None => serve_all reqs r rs
              end
  end.

Lemma seq_run_is_serve_all reqs order rs :
  seq_run c_pre c_atomic reqs order rs = serve_all reqs order rs.
Proof.
  revert rs. induction order as [|i r IH]; intros rs; cbn; [reflexivity|].
  destruct (reqs i) as [q|]; [|apply IH]. rewrite atomic_pre_is_serve. destruct (serve q rs) as [rep rs'].
  rewrite IH. reflexivity.
Qed.

(* C11: any interleaving of any number of concurrent encode/decode requests produces, for every request that
   has been through its critical section, exactly the reply that serving the same requests one at a time — in the
   order in which they went through the critical section — produces; and the replay cache is the one that order
   produces. *)
Theorem cred_linearizable (reqs : nat -> option creq) rs0 es s :
  crun c_pre c_atomic reqs (cinit rs0) es = Some s ->
  let order := rev (done_order s) in
  NoDup order /\
  shared s = fst (serve_all reqs order rs0) /\
  (forall i r, reply_of s i = Some r <-> In (i, r) (snd (serve_all reqs order rs0))).
Proof.
  intros H. pose proof (linearizable _ _ _ _ c_pre c_atomic reqs rs0 es s H) as L. cbv zeta in L.
  rewrite seq_run_is_serve_all in L. exact L.
Qed.

(* isolation: what a request is answered depends on that request (message, kernel-reported peer, clock) and, for
   a decode that got that far, on ONE bit of shared state: whether its own replay key is present at its critical
   section.  Nothing of any other request enters. *)
Theorem reply_is_function_of_own_request q rs :
  fst (serve q rs) =
  match q with
  | QEnc m pu pg now salt ivr => REnc (enc_process hmac sha1 blk_enc zcomp cf m pu pg now salt ivr)
  | QDec m pu pg now =>
      match dec_pre hmac sha1 blk_dec zdecomp cf mem m pu pg now with
      | inl r => RDec r
      | inr (m', k) =>
          if r_mem k rs then
            if cf_socket_retry cf && (0 <? m_retry m') && (m_retry m' <=? c_retry_attempts) then RDec m'
            else RDec (dec_finish (set_err m' e_cred_replayed None))
          else RDec m'
      end
  end.
Proof.
  rewrite <- atomic_pre_is_serve. destruct q as [m pu pg now salt ivr|m pu pg now]; cbn [c_pre c_atomic]; [reflexivity|].
  destruct (dec_pre _ _ _ _ _ _ _ _ _ _) as [r|[m' k]]; [reflexivity|].
  destruct (r_mem k rs); [|reflexivity]. destruct (_ && _ && _); reflexivity.
Qed.

End CC.
