(* GidsTimerModel.v — executable model of the PAIR gids.c + timer.c: the group-map refresh as a
   periodic service on the timer thread (C17: "after a refresh (periodic or SIGHUP) completes it
   reflects ..."; C18: "the periodic services built on it — ..., group-map refresh, ... — keep
   recurring").  No proofs here.

   What is modelled, read off src/munged/gids.c and src/munged/timer.c:
   * timer.c, as far as gids.c uses it: _timer_active sorted by expiry, stable (pt_insert);
     ids handed out as _timer_id++ (below LONG_MAX sets, where TimerModel proves them unique);
     timer_cancel searches the ACTIVE list only — a timer that the thread has already detached
     for dispatch (batch) or that is running cannot be cancelled (returns 0); the thread detaches
     the whole due prefix in one scan (XDetach) and runs the callbacks one after the other with
     the timer mutex released (XFire ... XCommit), so set/cancel from any thread are enabled in
     every state; timer_set_relative (ms) expires at clock + max 0 ms.
   * gids_update (gids_create calls it; the SIGHUP handler's action): under the gids mutex:
     if (gids->timer > 0) timer_cancel (gids->timer); gids->timer = timer_set_relative (.., 0);
     do_group_stat = !! do_group_stat.
   * _gids_map_update, the timer callback, in its three parts:
       XFire    first critical section: snapshot of do_group_stat and t_last_update;
       XScan    off-lock: time(), stat(), _gids_map_create (GidsModel.refresh_begin on the snapshot;
                the databases are read at this point);
       XCommit  second critical section: swap, t_last_update, flag, gids->timer = 0, and when
                interval_secs > 0: gids->timer = timer_set_relative (.., interval_secs * 1000)
                — on every path, whatever the build returned (GidsModel.refresh_commit).
     Between the parts every other thread may run: database edits, clock changes, gids_update
     (a SIGHUP that arrives while a refresh is running), lookups.
   * the clock is in milliseconds; time() is clock / 1000.

   [variant] selects the code as it is (VRepo) or one of two plausible "tidy-ups" of
   _gids_map_update that the theorems exclude (refuted by witnesses in GidsTimerProofs):
     VCancelAtCommit  timer_cancel (gids->timer) before `gids->timer = 0`;
     VAbortOnFail     return right after a failed _gids_map_create. *)
From Coq Require Import List NArith ZArith Bool.
From MV Require Import Bytes GidsModel.
Import ListNotations.
Local Open Scope Z_scope.

Notation ptimer := (Z * Z)%type.                       (* (id, expiry in ms) *)

Inductive variant := VRepo | VCancelAtCommit | VAbortOnFail.

(* timer_set_absolute's walk: past every entry with expiry <= the new one *)
Fixpoint pt_insert (t : ptimer) (l : list ptimer) : list ptimer :=
  match l with
  | [] => [t]
  | x :: r => if snd x <=? snd t then x :: pt_insert t r else t :: l
  end.

(* timer_cancel's search of the active list *)
Fixpoint pt_remove (id : Z) (l : list ptimer) : option (list ptimer) :=
  match l with
  | [] => None
  | x :: r => if fst x =? id then Some r
              else match pt_remove id r with Some r' => Some (x :: r') | None => None end
  end.

(* the thread's scan: maximal prefix with expiry <= now *)
Fixpoint pt_due (now : Z) (l : list ptimer) : list ptimer * list ptimer :=
  match l with
  | [] => ([], [])
  | x :: r => if snd x <=? now then let (a, b) := pt_due now r in (x :: a, b) else ([], l)
  end.

Inductive phase :=
| PIdle
| PStarted (tm : ptimer) (snap : gstate)
| PBuilt (tm : ptimer) (p : pending) (attempted : bool) (wscan : world).

Record gt := mkGT {
  x_g : gstate;                 (* gid_hash, t_last_update, do_group_stat, interval_secs;
                                   g_timer = delay of the last timer_set_relative (informative) *)
  x_tid : Z;                    (* gids->timer *)
  x_active : list ptimer;       (* _timer_active *)
  x_batch : list ptimer;        (* detached for dispatch, callback not yet started *)
  x_phase : phase;              (* the callback in progress *)
  x_last : Z;                   (* _timer_id *)
  x_clock : Z;                  (* ms *)
  x_w : world;                  (* the databases as they are now *)
  (* ghost fields: no step reads them to decide anything *)
  x_hi : Z;                     (* highest clock reading so far *)
  x_owed : option Z;            (* Some c: gids_update ran at clock c and no refresh has STARTED since *)
  x_extra : nat;                (* gids_update calls whose timer_cancel found nothing to cancel
                                   although gids->timer was set (the timer it names is running or
                                   detached): each one leaves one more refresh chain behind *)
  x_loaded : option world       (* the database version the visible map was built from *)
}.

Inductive gev :=
| ESet (id now ms : Z)          (* timer_set_relative (ms) at clock now returned id *)
| ECancel (id : Z) (ok : bool)  (* timer_cancel (id) *)
| EFire (id now : Z)            (* callback of timer id starts *)
| EReturn (stat_called attempted : bool)   (* _gids_map_update returns *)
| EUpdated                      (* gids_update returns *)
| EOpen                         (* _gids_map_create opens the databases (setgrent) *)
| EClose                        (* ... and closes them again (endgrent), on its success and on its error path *)
| EAns (u g : N) (b : bool)
| EMark (c : nat)               (* scheduler: refresh parked at hook point c (0 T, 1 G, 2 E) *)
| EStuck.

Inductive glabel :=
| XEdit (w : world)
| XClock (t : Z)
| XSighup
| XDetach
| XFire
| XScan (sched : list fault)
| XCommit
| XLookup (u g : N).

Definition running_id (p : phase) : option Z :=
  match p with PIdle => None | PStarted tm _ | PBuilt tm _ _ _ => Some (fst tm) end.

(* timer_cancel (id) for id > 0 *)
Definition t_cancel (act : list ptimer) (id : Z) : list ptimer * bool :=
  match pt_remove id act with Some r => (r, true) | None => (act, false) end.

Definition set_g_timer (g : gstate) (t : option N) : gstate :=
  mkG (g_map g) (g_tlast g) (g_dostat g) t (g_interval g).

Definition do_sighup (s : gt) : gt * list gev :=
  let '(act1, ev1, failed) :=
    if 0 <? x_tid s then
      let (a, ok) := t_cancel (x_active s) (x_tid s) in (a, [ECancel (x_tid s) ok], negb ok)
    else (x_active s, [], false) in
  let id := x_last s + 1 in
  (mkGT (sighup (x_g s)) id (pt_insert (id, x_clock s) act1) (x_batch s) (x_phase s) id
        (x_clock s) (x_w s) (x_hi s) (Some (x_clock s))
        (if failed then S (x_extra s) else x_extra s) (x_loaded s),
   ev1 ++ [ESet id (x_clock s) 0; EUpdated]).

(* the re-arm at the end of _gids_map_update *)
Definition rearm (g : gstate) (act : list ptimer) (last clock : Z) : Z * list ptimer * Z * list gev :=
  if 0 <? g_interval g then
    let id := last + 1 in
    let ms := g_interval g * 1000 in
    (id, pt_insert (id, clock + Z.max 0 ms) act, id, [ESet id clock ms])
  else (0, act, last, []).

Definition do_commit (v : variant) (s : gt) (tm : ptimer) (p : pending) (attempted : bool)
           (wscan : world) (stat_called : bool) : gt * list gev :=
  let ret := [EReturn stat_called attempted] in
  let cls := if attempted then [EClose] else [] in
  let aborted :=
    match v with
    | VAbortOnFail => attempted && match p_map p with None => true | Some _ => false end
    | _ => false
    end in
  if aborted then
    (mkGT (x_g s) (x_tid s) (x_active s) (x_batch s) PIdle (x_last s) (x_clock s) (x_w s)
          (x_hi s) (x_owed s) (x_extra s) (x_loaded s), cls ++ ret)
  else
    let g' := refresh_commit (x_g s) p in
    let '(act1, ev1) :=
      match v with
      | VCancelAtCommit =>
          if 0 <? x_tid s then
            let (a, ok) := t_cancel (x_active s) (x_tid s) in (a, [ECancel (x_tid s) ok])
          else (x_active s, [])
      | _ => (x_active s, [])
      end in
    let '(tid, act2, last, ev2) := rearm g' act1 (x_last s) (x_clock s) in
    (mkGT g' tid act2 (x_batch s) PIdle last (x_clock s) (x_w s) (x_hi s) (x_owed s) (x_extra s)
          (match p_map p with Some _ => Some wscan | None => x_loaded s end),
     cls ++ ev1 ++ ev2 ++ ret).

(* was stat() called: the snapshot flag, remembered through the local do_group_stat: the local
   copy is > 0 or -2 exactly when the snapshot was > 0 *)
Definition stat_was_called (p : pending) : bool := (0 <? p_dostat p) || (p_dostat p <? -1).

Definition gt_step (v : variant) (s : gt) (l : glabel) : option (gt * list gev) :=
  match l with
  | XEdit w =>
      Some (mkGT (x_g s) (x_tid s) (x_active s) (x_batch s) (x_phase s) (x_last s) (x_clock s) w
                 (x_hi s) (x_owed s) (x_extra s) (x_loaded s), [])
  | XClock t =>
      Some (mkGT (x_g s) (x_tid s) (x_active s) (x_batch s) (x_phase s) (x_last s) t (x_w s)
                 (Z.max (x_hi s) t) (x_owed s) (x_extra s) (x_loaded s), [])
  | XSighup => Some (do_sighup s)
  | XDetach =>
      match x_phase s, x_batch s with
      | PIdle, [] =>
          match pt_due (x_clock s) (x_active s) with
          | ([], _) => None
          | (pre, post) =>
              Some (mkGT (x_g s) (x_tid s) post pre PIdle (x_last s) (x_clock s) (x_w s)
                         (x_hi s) (x_owed s) (x_extra s) (x_loaded s), [])
          end
      | _, _ => None
      end
  | XFire =>
      match x_phase s, x_batch s with
      | PIdle, tm :: r =>
          Some (mkGT (x_g s) (x_tid s) (x_active s) r (PStarted tm (x_g s)) (x_last s) (x_clock s)
                     (x_w s) (x_hi s) None (x_extra s) (x_loaded s), [EFire (fst tm) (x_clock s)])
      | _, _ => None
      end
  | XScan sched =>
      match x_phase s with
      | PStarted tm snap =>
          let w := x_w s in
          let p := refresh_begin snap (x_clock s / 1000) (w_mtime w) (w_pw w) (w_db w) sched in
          let att := snd (begin_decide snap (w_mtime w)) in
          Some (mkGT (x_g s) (x_tid s) (x_active s) (x_batch s) (PBuilt tm p att w) (x_last s)
                     (x_clock s) (x_w s) (x_hi s) (x_owed s) (x_extra s) (x_loaded s),
                if att then [EOpen] else [])
      | _ => None
      end
  | XCommit =>
      match x_phase s with
      | PBuilt tm p att w => Some (do_commit v s tm p att w (stat_was_called p))
      | _ => None
      end
  | XLookup u g => Some (s, [EAns u g (is_member (g_map (x_g s)) u g)])
  end.

Fixpoint gt_exec (v : variant) (s : gt) (tr : list glabel) : option (gt * list gev) :=
  match tr with
  | [] => Some (s, [])
  | l :: r =>
      match gt_step v s l with
      | None => None
      | Some (s', e) =>
          match gt_exec v s' r with
          | None => None
          | Some (s'', e') => Some (s'', e ++ e')
          end
      end
  end.

(* gids_create (interval_secs >= 0) at clock 0: the struct, then gids_update *)
Definition gt_create (interval dostat : Z) (w : world) : gt * list gev :=
  do_sighup (mkGT (mkG None 0 dostat None interval) 0 [] [] PIdle 0 0 w 0 None 0%nat None).
Definition gt_init (interval dostat : Z) (w : world) : gt := fst (gt_create interval dostat w).

(* gids_destroy: if (gids->timer > 0) timer_cancel (gids->timer) *)
Definition gt_destroy (s : gt) : option (Z * bool) :=
  if 0 <? x_tid s then Some (x_tid s, snd (t_cancel (x_active s) (x_tid s))) else None.

(* the group database stream (glibc keeps ONE: setgrent opens it only when it is not open, otherwise it rewinds the file
   it has; endgrent closes it): open or closed after a stretch of events *)
Definition stream_after (b : bool) (e : list gev) : bool :=
  fold_left (fun b ev => match ev with EOpen => true | EClose => false | _ => b end) e b.

(* ... and by the state of the callback: open exactly between the scan and the second critical section *)
Definition stream_open (s : gt) : bool :=
  match x_phase s with PBuilt _ _ att _ => att | _ => false end.

(* the databases after a stretch of labels *)
Fixpoint world_after (w : world) (tr : list glabel) : world :=
  match tr with
  | [] => w
  | XEdit w' :: r => world_after w' r
  | _ :: r => world_after w r
  end.

(* the clock after a stretch of labels *)
Fixpoint clock_after (c : Z) (tr : list glabel) : Z :=
  match tr with
  | [] => c
  | XClock t :: r => clock_after t r
  | _ :: r => clock_after c r
  end.

(* ------------------------------------------------------------------------------------------------
   Deterministic scheduler for the extracted oracle and harness/gids_timer_harness.c: after every
   driver operation the timer thread runs until nothing is due.  A refresh may be parked at three
   points so that other threads act INSIDE it: T (in time(): after the first critical section,
   before stat and the scan), G (in the first getgrent_r call: the databases have been opened) and
   E (in the getgrent_r call that ends the scan); G and E exist only when a build is attempted. *)
Inductive act :=
| ADb (db : grdb)                 (* /etc/group replaced (mtime unchanged until AMtime) *)
| APw (pw : pwfun)                (* the user database replaced *)
| AMtime (m : option Z)           (* mtime of /etc/group; None = stat() fails *)
| ASighup
| AClock (t : Z)                  (* the clock now reads t *)
| AAdvance (d : Z)                (* the clock moves on by d ms *)
| ALookups (qs : list (N * N)).

Record hook := mkH { h_t : list act; h_g : list act; h_e : list act; h_sched : list fault }.
Definition no_hook : hook := mkH [] [] [] [].

Section Sched.
Variable v : variant.

Definition do_label (s : gt) (l : glabel) : gt * list gev :=
  match gt_step v s l with Some r => r | None => (s, [EStuck]) end.

Fixpoint do_lookups (s : gt) (qs : list (N * N)) : gt * list gev :=
  match qs with
  | [] => (s, [])
  | (u, g) :: r => let (s1, e1) := do_label s (XLookup u g) in
                   let (s2, e2) := do_lookups s1 r in (s2, e1 ++ e2)
  end.

Definition do_act (s : gt) (a : act) : gt * list gev :=
  match a with
  | ADb db => do_label s (XEdit (mkW db (w_pw (x_w s)) (w_mtime (x_w s))))
  | APw pw => do_label s (XEdit (mkW (w_db (x_w s)) pw (w_mtime (x_w s))))
  | AMtime m => do_label s (XEdit (mkW (w_db (x_w s)) (w_pw (x_w s)) m))
  | ASighup => do_label s XSighup
  | AClock t => do_label s (XClock t)
  | AAdvance d => do_label s (XClock (x_clock s + d))
  | ALookups qs => do_lookups s qs
  end.

Fixpoint do_acts (s : gt) (l : list act) : gt * list gev :=
  match l with
  | [] => (s, [])
  | a :: r => let (s1, e1) := do_act s a in let (s2, e2) := do_acts s1 r in (s2, e1 ++ e2)
  end.

Definition parked (c : nat) (s : gt) (l : list act) : gt * list gev :=
  match l with
  | [] => (s, [])
  | _ => let (s', e) := do_acts s l in (s', EMark c :: e)
  end.

Definition attempted_of (s : gt) : bool :=
  match x_phase s with PBuilt _ _ att _ => att | _ => false end.

(* one whole refresh, from the start of the callback to its return *)
Definition do_refresh (h : hook) (s : gt) : gt * list gev :=
  let (s1, e1) := do_label s XFire in
  let (s2, e2) := parked 0 s1 (h_t h) in
  let (s3, e3) := do_label s2 (XScan (h_sched h)) in
  let (s4, e4) := if attempted_of s3 then parked 1 s3 (h_g h) else (s3, []) in
  let (s5, e5) := if attempted_of s3 then parked 2 s4 (h_e h) else (s4, []) in
  let (s6, e6) := do_label s5 XCommit in
  (s6, e1 ++ e2 ++ e3 ++ e4 ++ e5 ++ e6).

Variable hooks : nat -> hook.             (* by ordinal of the refresh, counted from 0 *)

Fixpoint settle (fuel : nat) (s : gt) (n : nat) : gt * nat * list gev :=
  match fuel with
  | O => (s, n, [EStuck])
  | S f =>
      match x_batch s with
      | _ :: _ =>
          let (s1, e1) := do_refresh (hooks n) s in
          let '(s2, n2, e2) := settle f s1 (S n) in (s2, n2, e1 ++ e2)
      | [] =>
          match pt_due (x_clock s) (x_active s) with
          | ([], _) => (s, n, [])
          | _ => let (s1, e1) := do_label s XDetach in
                 let '(s2, n2, e2) := settle f s1 n in (s2, n2, e1 ++ e2)
          end
      end
  end.

Definition drive1 (fuel : nat) (s : gt) (n : nat) (a : act) : gt * nat * list gev :=
  let (s1, e1) := do_act s a in
  let '(s2, n2, e2) := settle fuel s1 n in (s2, n2, e1 ++ e2).
End Sched.
