(* GidsTimerProofs.v — lemmas about GidsTimerModel (the pair gids.c + timer.c; C17 and C18). *)
From Coq Require Import List NArith ZArith Bool Lia Sorted Permutation.
From MV Require Import Bytes GidsModel GidsProofs GidsTimerModel.
Import ListNotations.
Local Open Scope Z_scope.

Definition ids (l : list ptimer) : list Z := map fst l.
Definition pend (s : gt) : list ptimer := x_active s ++ x_batch s.
Definition run_ids (p : phase) : list Z :=
  match running_id p with Some i => [i] | None => [] end.
Definition le_exp (a b : ptimer) : Prop := snd a <= snd b.

(* ------------------------------------------------------------------ the timer lists *)
Lemma pt_insert_perm t l : Permutation (pt_insert t l) (t :: l).
Proof.
  induction l as [|x r IH]; cbn [pt_insert]; [reflexivity|].
  destruct (snd x <=? snd t); [|reflexivity].
  rewrite IH. apply perm_swap.
Qed.

Lemma pt_insert_in t l x : In x (pt_insert t l) <-> x = t \/ In x l.
Proof.
  split; intros H.
  - apply (Permutation_in _ (pt_insert_perm t l)) in H. destruct H; auto.
  - apply (Permutation_in _ (Permutation_sym (pt_insert_perm t l))). destruct H; [left|right]; auto.
Qed.

Lemma pt_insert_sorted t l : StronglySorted le_exp l -> StronglySorted le_exp (pt_insert t l).
Proof.
  induction l as [|x r IH]; intros Hs; cbn [pt_insert].
  - constructor; [constructor|constructor].
  - inversion Hs as [|? ? Hr Hx]; subst.
    destruct (snd x <=? snd t) eqn:E.
    + constructor; [apply IH; exact Hr|].
      apply Forall_forall. intros y Hy. apply pt_insert_in in Hy. destruct Hy as [->|Hy].
      * apply Z.leb_le in E. exact E.
      * rewrite Forall_forall in Hx. apply Hx. exact Hy.
    + apply Z.leb_gt in E. constructor; [exact Hs|].
      constructor; [unfold le_exp; lia|].
      rewrite Forall_forall in Hx |- *. intros y Hy. specialize (Hx y Hy). unfold le_exp in *. lia.
Qed.

Lemma pt_remove_some id l r : pt_remove id l = Some r ->
  exists l1 x l2, l = l1 ++ x :: l2 /\ fst x = id /\ r = l1 ++ l2.
Proof.
  revert r; induction l as [|y l IH]; intros r H; cbn [pt_remove] in H; [discriminate|].
  destruct (fst y =? id) eqn:E.
  - inversion H; subst. apply Z.eqb_eq in E. exists [], y, r. auto.
  - destruct (pt_remove id l) as [r'|] eqn:E2; [|discriminate]. inversion H; subst.
    destruct (IH r' eq_refl) as (l1 & x & l2 & -> & Hx & ->).
    exists (y :: l1), x, l2. auto.
Qed.

Lemma pt_remove_none id l : pt_remove id l = None -> ~ In id (ids l).
Proof.
  induction l as [|y l IH]; intros H; cbn [pt_remove] in H; [intros []|].
  destruct (fst y =? id) eqn:E; [discriminate|].
  destruct (pt_remove id l) eqn:E2; [discriminate|].
  apply Z.eqb_neq in E. intros [Hy|Hy]; [contradiction|]. apply IH; auto.
Qed.

Lemma pt_remove_found id l : In id (ids l) -> exists r, pt_remove id l = Some r.
Proof.
  intros H. destruct (pt_remove id l) eqn:E; [eauto|]. apply pt_remove_none in E. contradiction.
Qed.

Lemma sorted_remove_mid (l1 : list ptimer) x l2 :
  StronglySorted le_exp (l1 ++ x :: l2) -> StronglySorted le_exp (l1 ++ l2).
Proof.
  induction l1 as [|y l1 IH]; cbn [app]; intros H.
  - inversion H; assumption.
  - inversion H as [|? ? Hr Hy]; subst. constructor; [apply IH; exact Hr|].
    rewrite Forall_forall in Hy |- *. intros z Hz. apply Hy.
    apply in_app_iff in Hz. apply in_app_iff. destruct Hz; [left|right; right]; assumption.
Qed.

Lemma pt_due_spec now l pre post : pt_due now l = (pre, post) ->
  l = pre ++ post /\ Forall (fun x => snd x <= now) pre.
Proof.
  revert pre post; induction l as [|x r IH]; intros pre post H; cbn [pt_due] in H.
  - inversion H; subst. split; [reflexivity|constructor].
  - destruct (snd x <=? now) eqn:E.
    + destruct (pt_due now r) as [a b] eqn:E2. inversion H; subst.
      destruct (IH a post eq_refl) as [-> Hf]. split; [reflexivity|].
      constructor; [apply Z.leb_le; exact E|exact Hf].
    + inversion H; subst. split; [reflexivity|constructor].
Qed.

Lemma sorted_app_r (l1 l2 : list ptimer) : StronglySorted le_exp (l1 ++ l2) -> StronglySorted le_exp l2.
Proof.
  induction l1 as [|y l1 IH]; cbn [app]; intros H; [exact H|]. inversion H; subst. apply IH. assumption.
Qed.

Lemma pt_due_head now x r : StronglySorted le_exp (x :: r) ->
  (exists t, In t (x :: r) /\ snd t <= now) -> exists a b, pt_due now (x :: r) = (x :: a, b).
Proof.
  intros Hs (t & Ht & Hd). cbn [pt_due].
  assert (Hx : snd x <= now).
  { destruct Ht as [->|Ht]; [exact Hd|]. inversion Hs as [|? ? _ Hf]; subst.
    rewrite Forall_forall in Hf. specialize (Hf t Ht). unfold le_exp in Hf. lia. }
  apply Z.leb_le in Hx. rewrite Hx. destruct (pt_due now r) as [a b]. eauto.
Qed.

Lemma ids_app a b : ids (a ++ b) = ids a ++ ids b.
Proof. apply map_app. Qed.

Lemma in_ids (l : list ptimer) t : In t l -> In (fst t) (ids l).
Proof. apply in_map. Qed.

Lemma ids_in (l : list ptimer) i : In i (ids l) -> exists e, In (i, e) l.
Proof.
  intros H. apply in_map_iff in H. destruct H as ([i' e] & Hi & Hx). cbn in Hi. subst. eauto.
Qed.

(* ------------------------------------------------------------------ the invariant *)
Record Inv (s : gt) : Prop := {
  i_ids : forall t, In t (pend s) -> 0 < fst t <= x_last s;
  i_run : forall i, running_id (x_phase s) = Some i -> 0 < i <= x_last s;
  i_nodup : NoDup (ids (pend s) ++ run_ids (x_phase s));
  i_tid : x_tid s = 0 \/ In (x_tid s) (ids (pend s)) \/ running_id (x_phase s) = Some (x_tid s);
  i_rng : 0 <= x_tid s <= x_last s;
  i_live : 0 < g_interval (x_g s) -> 0 < x_tid s;
  i_sorted : StronglySorted le_exp (x_active s);
  i_exp : forall t, In t (pend s) -> snd t <= x_hi s + Z.max 0 (g_interval (x_g s) * 1000);
  i_clock : x_clock s <= x_hi s;
  i_owed : forall c, x_owed s = Some c -> c <= x_hi s /\ exists t, In t (pend s) /\ snd t <= c;
  i_count : 0 < g_interval (x_g s) ->
            (length (pend s) + length (run_ids (x_phase s)) = S (x_extra s))%nat;
  i_loaded : g_map (x_g s) = option_map (fun w => build (w_pw w) (w_db w)) (x_loaded s);
  i_built : forall tm p att w, x_phase s = PBuilt tm p att w ->
            forall m, p_map p = Some m -> m = build (w_pw w) (w_db w)
}.

Lemma sighup_interval g : g_interval (sighup g) = g_interval g.
Proof. reflexivity. Qed.
Lemma commit_interval g p : g_interval (refresh_commit g p) = g_interval g.
Proof. reflexivity. Qed.

Lemma gt_init_inv interval dostat w : Inv (gt_init interval dostat w).
Proof.
  unfold gt_init, gt_create, do_sighup. cbn.
  constructor; cbn; unfold pend, ids, run_ids; cbn.
  - intros t [<-|[]]. cbn. lia.
  - discriminate.
  - constructor; [intros []|constructor].
  - right; left; left; reflexivity.
  - lia.
  - lia.
  - constructor; constructor.
  - intros t [<-|[]]. cbn. lia.
  - lia.
  - intros c H. inversion H; subst. split; [lia|]. exists (1, 0). split; [left; reflexivity|cbn; lia].
  - reflexivity.
  - reflexivity.
  - discriminate.
Qed.

(* a stretch of labels from other threads only *)
Definition quiet (l : glabel) : Prop :=
  match l with XEdit _ | XClock _ | XSighup | XLookup _ _ => True | _ => False end.

(* ---- gids_update ---- *)
Lemma inv_sighup s : Inv s -> Inv (fst (do_sighup s)).
Proof.
  intros I. unfold do_sighup.
  destruct (0 <? x_tid s) eqn:Ht.
  - apply Z.ltb_lt in Ht. unfold t_cancel.
    destruct (pt_remove (x_tid s) (x_active s)) as [r|] eqn:Er.
    + (* cancelled: the named timer was on the active list *)
      destruct (pt_remove_some _ _ _ Er) as (l1 & x & l2 & Ha & Hx & ->).
      cbn [fst]. set (id := x_last s + 1).
      assert (Pm : Permutation (pend s) (x :: (l1 ++ l2) ++ x_batch s)).
      { unfold pend. rewrite Ha. rewrite <- app_assoc. cbn [app].
        symmetry. rewrite <- app_assoc. apply Permutation_middle. }
      assert (Pn : Permutation (pt_insert (id, x_clock s) (l1 ++ l2) ++ x_batch s)
                               ((id, x_clock s) :: (l1 ++ l2) ++ x_batch s)).
      { rewrite app_comm_cons. apply Permutation_app_tail. apply pt_insert_perm. }
      assert (Sub : forall t, In t ((l1 ++ l2) ++ x_batch s) -> In t (pend s)).
      { intros t H. apply (Permutation_in _ (Permutation_sym Pm)). right; exact H. }
      constructor; cbn; unfold pend; cbn.
      * intros t H. apply (Permutation_in _ Pn) in H. destruct H as [<-|H]; [cbn; pose proof (i_rng _ I); lia|].
        pose proof (i_ids _ I t (Sub t H)). lia.
      * intros i H. pose proof (i_run _ I i H). lia.
      * pose proof (i_nodup _ I) as N.
        assert (P1 : Permutation (ids (pend s) ++ run_ids (x_phase s))
                       (fst x :: ids ((l1 ++ l2) ++ x_batch s) ++ run_ids (x_phase s))).
        { change (fst x :: ids ((l1 ++ l2) ++ x_batch s) ++ run_ids (x_phase s))
            with (ids (x :: (l1 ++ l2) ++ x_batch s) ++ run_ids (x_phase s)).
          apply Permutation_app_tail. apply Permutation_map. exact Pm. }
        apply (Permutation_NoDup P1) in N. inversion N as [|? ? _ N2]; subst.
        eapply Permutation_NoDup.
        { apply Permutation_app_tail. apply Permutation_map. symmetry. exact Pn. }
        cbn. constructor; [|exact N2].
        intros H. apply in_app_iff in H. destruct H as [H|H].
        -- apply ids_in in H. destruct H as (e & H). pose proof (i_ids _ I _ (Sub _ H)). cbn in *. lia.
        -- unfold run_ids in H. destruct (running_id (x_phase s)) eqn:Er2; [|destruct H].
           destruct H as [H|[]]. pose proof (i_run _ I _ Er2). subst id. lia.
      * right; left. apply in_map_iff. exists (id, x_clock s). split; [reflexivity|].
        apply in_app_iff. left. apply pt_insert_in. left; reflexivity.
      * pose proof (i_rng _ I). lia.
      * pose proof (i_rng _ I). lia.
      * apply pt_insert_sorted. pose proof (i_sorted _ I) as S0. rewrite Ha in S0.
        eapply sorted_remove_mid. exact S0.
      * intros t H. apply (Permutation_in _ Pn) in H. destruct H as [<-|H].
        -- cbn. pose proof (i_clock _ I). lia.
        -- apply (i_exp _ I). apply Sub. exact H.
      * apply (i_clock _ I).
      * intros c H. inversion H; subst. split; [apply (i_clock _ I)|].
        exists (id, x_clock s). split; [|cbn; lia].
        apply in_app_iff. left. apply pt_insert_in. left; reflexivity.
      * intros Hi. pose proof (i_count _ I Hi) as C.
        rewrite (Permutation_length Pm) in C.
        rewrite (Permutation_length Pn). cbn [length] in *. exact C.
      * apply (i_loaded _ I).
      * apply (i_built _ I).
    + (* nothing cancelled: the named timer is running or detached *)
      cbn [fst negb]. set (id := x_last s + 1).
      assert (Pn : Permutation (pt_insert (id, x_clock s) (x_active s) ++ x_batch s)
                               ((id, x_clock s) :: pend s)).
      { unfold pend. rewrite app_comm_cons. apply Permutation_app_tail. apply pt_insert_perm. }
      constructor; cbn; unfold pend; cbn.
      * intros t H. apply (Permutation_in _ Pn) in H. destruct H as [<-|H]; [cbn; pose proof (i_rng _ I); lia|].
        pose proof (i_ids _ I t H). lia.
      * intros i H. pose proof (i_run _ I i H). lia.
      * eapply Permutation_NoDup.
        { apply Permutation_app_tail. apply Permutation_map. symmetry. exact Pn. }
        cbn. constructor; [|apply (i_nodup _ I)].
        intros H. apply in_app_iff in H. destruct H as [H|H].
        -- apply ids_in in H. destruct H as (e & H). pose proof (i_ids _ I _ H). cbn in *. lia.
        -- unfold run_ids in H. destruct (running_id (x_phase s)) eqn:Er2; [|destruct H].
           destruct H as [H|[]]. pose proof (i_run _ I _ Er2). subst id. lia.
      * right; left. apply in_map_iff. exists (id, x_clock s). split; [reflexivity|].
        apply in_app_iff. left. apply pt_insert_in. left; reflexivity.
      * pose proof (i_rng _ I). lia.
      * pose proof (i_rng _ I). lia.
      * apply pt_insert_sorted. apply (i_sorted _ I).
      * intros t H. apply (Permutation_in _ Pn) in H. destruct H as [<-|H].
        -- cbn. pose proof (i_clock _ I). lia.
        -- apply (i_exp _ I). exact H.
      * apply (i_clock _ I).
      * intros c H. inversion H; subst. split; [apply (i_clock _ I)|].
        exists (id, x_clock s). split; [|cbn; lia].
        apply in_app_iff. left. apply pt_insert_in. left; reflexivity.
      * intros Hi. pose proof (i_count _ I Hi) as C.
        rewrite (Permutation_length Pn). cbn [length]. lia.
      * apply (i_loaded _ I).
      * apply (i_built _ I).
  - (* gids->timer is 0: nothing to cancel *)
    apply Z.ltb_ge in Ht. cbn [fst]. set (id := x_last s + 1).
    assert (Pn : Permutation (pt_insert (id, x_clock s) (x_active s) ++ x_batch s)
                             ((id, x_clock s) :: pend s)).
    { unfold pend. rewrite app_comm_cons. apply Permutation_app_tail. apply pt_insert_perm. }
    constructor; cbn; unfold pend; cbn.
    * intros t H. apply (Permutation_in _ Pn) in H. destruct H as [<-|H]; [cbn; pose proof (i_rng _ I); lia|].
      pose proof (i_ids _ I t H). lia.
    * intros i H. pose proof (i_run _ I i H). lia.
    * eapply Permutation_NoDup.
      { apply Permutation_app_tail. apply Permutation_map. symmetry. exact Pn. }
      cbn. constructor; [|apply (i_nodup _ I)].
      intros H. apply in_app_iff in H. destruct H as [H|H].
      -- apply ids_in in H. destruct H as (e & H). pose proof (i_ids _ I _ H). cbn in *. lia.
      -- unfold run_ids in H. destruct (running_id (x_phase s)) eqn:Er2; [|destruct H].
         destruct H as [H|[]]. pose proof (i_run _ I _ Er2). subst id. lia.
    * right; left. apply in_map_iff. exists (id, x_clock s). split; [reflexivity|].
      apply in_app_iff. left. apply pt_insert_in. left; reflexivity.
    * pose proof (i_rng _ I). lia.
    * pose proof (i_rng _ I). lia.
    * apply pt_insert_sorted. apply (i_sorted _ I).
    * intros t H. apply (Permutation_in _ Pn) in H. destruct H as [<-|H].
      -- cbn. pose proof (i_clock _ I). lia.
      -- apply (i_exp _ I). exact H.
    * apply (i_clock _ I).
    * intros c H. inversion H; subst. split; [apply (i_clock _ I)|].
      exists (id, x_clock s). split; [|cbn; lia].
      apply in_app_iff. left. apply pt_insert_in. left; reflexivity.
    * intros Hi. pose proof (i_live _ I Hi). lia.
    * apply (i_loaded _ I).
    * apply (i_built _ I).
Qed.

(* ---- the second critical section of _gids_map_update, code as it is ---- *)
Lemma inv_commit s tm p att w sc :
  Inv s -> x_phase s = PBuilt tm p att w -> Inv (fst (do_commit VRepo s tm p att w sc)).
Proof.
  intros I Hp. unfold do_commit. cbn [andb]. cbv iota.
  assert (Hrun : running_id (x_phase s) = Some (fst tm)) by (rewrite Hp; reflexivity).
  assert (Hrl : run_ids (x_phase s) = [fst tm]) by (unfold run_ids; rewrite Hrun; reflexivity).
  assert (Hload : g_map (refresh_commit (x_g s) p) =
                  option_map (fun w0 => build (w_pw w0) (w_db w0))
                             (match p_map p with Some _ => Some w | None => x_loaded s end)).
  { unfold refresh_commit. cbn [g_map]. destruct (p_map p) as [m|] eqn:Em.
    - cbn. f_equal. apply (i_built _ I _ _ _ _ Hp). exact Em.
    - apply (i_loaded _ I). }
  unfold rearm. rewrite commit_interval.
  destruct (0 <? g_interval (x_g s)) eqn:Ei.
  - apply Z.ltb_lt in Ei. cbn [fst]. set (id := x_last s + 1).
    set (e := x_clock s + Z.max 0 (g_interval (x_g s) * 1000)).
    assert (Pn : Permutation (pt_insert (id, e) (x_active s) ++ x_batch s) ((id, e) :: pend s)).
    { unfold pend. rewrite app_comm_cons. apply Permutation_app_tail. apply pt_insert_perm. }
    constructor; cbn; unfold pend; cbn.
    + intros t H. apply (Permutation_in _ Pn) in H. destruct H as [<-|H]; [cbn; pose proof (i_rng _ I); lia|].
      pose proof (i_ids _ I t H). lia.
    + discriminate.
    + unfold run_ids. cbn. rewrite app_nil_r.
      eapply Permutation_NoDup. { apply Permutation_map. symmetry. exact Pn. }
      cbn. pose proof (i_nodup _ I) as N. rewrite Hrl in N.
      constructor.
      * intros H. apply ids_in in H. destruct H as (e0 & H). pose proof (i_ids _ I _ H). cbn in *. lia.
      * apply NoDup_remove_1 in N. rewrite app_nil_r in N. exact N.
    + right; left. apply in_map_iff. exists (id, e). split; [reflexivity|].
      apply in_app_iff. left. apply pt_insert_in. left; reflexivity.
    + pose proof (i_rng _ I). lia.
    + pose proof (i_rng _ I). lia.
    + apply pt_insert_sorted. apply (i_sorted _ I).
    + intros t H. apply (Permutation_in _ Pn) in H. destruct H as [<-|H].
      * cbn. pose proof (i_clock _ I). subst e. lia.
      * apply (i_exp _ I). exact H.
    + apply (i_clock _ I).
    + intros c H. destruct (i_owed _ I c H) as (Hc & t & Ht & Hd). split; [exact Hc|].
      exists t. split; [|exact Hd].
      apply (Permutation_in _ (Permutation_sym Pn)). right. exact Ht.
    + intros _. pose proof (i_count _ I Ei) as C. rewrite Hrl in C.
      rewrite (Permutation_length Pn). cbn [length] in *. lia.
    + exact Hload.
    + discriminate.
  - apply Z.ltb_ge in Ei. cbn [fst].
    constructor; cbn; unfold pend; cbn.
    + apply (i_ids _ I).
    + discriminate.
    + unfold run_ids. cbn. rewrite app_nil_r. pose proof (i_nodup _ I) as N. rewrite Hrl in N.
      apply NoDup_remove_1 in N. rewrite app_nil_r in N. exact N.
    + left; reflexivity.
    + pose proof (i_rng _ I). lia.
    + lia.
    + apply (i_sorted _ I).
    + apply (i_exp _ I).
    + apply (i_clock _ I).
    + apply (i_owed _ I).
    + lia.
    + exact Hload.
    + discriminate.
Qed.

Lemma gt_step_inv s l s' e : Inv s -> gt_step VRepo s l = Some (s', e) -> Inv s'.
Proof.
  intros I H. destruct l; cbn [gt_step] in H.
  - (* edit *) inversion H; subst. destruct I. constructor; assumption.
  - (* clock *) inversion H; subst. destruct I. constructor; cbn in *; try assumption.
    + intros t0 Ht. specialize (i_exp0 t0 Ht). lia.
    + lia.
    + intros c Hc. destruct (i_owed0 c Hc) as (Hc1 & Hc2). split; [lia|exact Hc2].
  - (* gids_update *) inversion H; subst. rewrite (surjective_pairing (do_sighup s)) in H.
    inversion H; subst. apply inv_sighup. exact I.
  - (* the thread's scan *)
    destruct (x_phase s) eqn:Hp; try discriminate.
    destruct (x_batch s) eqn:Hb; try discriminate.
    destruct (pt_due (x_clock s) (x_active s)) as [pre post] eqn:Ed.
    destruct pre as [|t0 pre]; [discriminate|]. inversion H; subst. clear H.
    destruct (pt_due_spec _ _ _ _ Ed) as [Ha Hf].
    assert (Pm : Permutation (post ++ t0 :: pre) (pend s)).
    { unfold pend. rewrite Hb, app_nil_r, Ha. apply Permutation_app_comm. }
    assert (Hr : run_ids (x_phase s) = []) by (rewrite Hp; reflexivity).
    constructor; cbn; unfold pend; cbn.
    + intros t Ht. apply (i_ids _ I). apply (Permutation_in _ Pm). exact Ht.
    + discriminate.
    + pose proof (i_nodup _ I) as N. rewrite Hr in N. unfold run_ids; cbn.
      eapply Permutation_NoDup; [|exact N].
      apply Permutation_app_tail. apply Permutation_map. symmetry. exact Pm.
    + destruct (i_tid _ I) as [Hz|[Hi|Hr2]]; [left; exact Hz| |rewrite Hp in Hr2; discriminate].
      right; left. eapply Permutation_in; [|exact Hi]. apply Permutation_map. symmetry. exact Pm.
    + apply (i_rng _ I).
    + apply (i_live _ I).
    + pose proof (i_sorted _ I) as S0. rewrite Ha in S0. eapply sorted_app_r. exact S0.
    + intros t Ht. apply (i_exp _ I). apply (Permutation_in _ Pm). exact Ht.
    + apply (i_clock _ I).
    + intros c Hc. destruct (i_owed _ I c Hc) as (Hc1 & t & Ht & Hd). split; [exact Hc1|].
      exists t. split; [|exact Hd]. apply (Permutation_in _ (Permutation_sym Pm)). exact Ht.
    + intros Hi. pose proof (i_count _ I Hi) as C. rewrite Hr in C.
      rewrite (Permutation_length Pm). unfold run_ids; cbn. exact C.
    + apply (i_loaded _ I).
    + discriminate.
  - (* a callback starts *)
    destruct (x_phase s) eqn:Hp; try discriminate.
    destruct (x_batch s) as [|tm r] eqn:Hb; try discriminate. inversion H; subst. clear H.
    assert (Pm : Permutation (pend s) (tm :: x_active s ++ r)).
    { unfold pend. rewrite Hb. symmetry. apply Permutation_middle. }
    assert (Hr : run_ids (x_phase s) = []) by (rewrite Hp; reflexivity).
    constructor; cbn; unfold pend; cbn.
    + intros t Ht. apply (i_ids _ I). apply (Permutation_in _ (Permutation_sym Pm)). right; exact Ht.
    + intros i Hi. inversion Hi; subst. apply (i_ids _ I).
      apply (Permutation_in _ (Permutation_sym Pm)). left; reflexivity.
    + pose proof (i_nodup _ I) as N. rewrite Hr, app_nil_r in N.
      apply (Permutation_NoDup (Permutation_map fst Pm)) in N.
      unfold run_ids; cbn.
      eapply Permutation_NoDup; [|exact N].
      change (map fst (tm :: x_active s ++ r)) with ([fst tm] ++ map fst (x_active s ++ r)).
      apply Permutation_app_comm.
    + destruct (i_tid _ I) as [Hz|[Hi|Hr2]]; [left; exact Hz| |rewrite Hp in Hr2; discriminate].
      apply (Permutation_in _ (Permutation_map fst Pm)) in Hi. cbn in Hi.
      destruct Hi as [Hi|Hi]; [right; right; rewrite Hi; reflexivity|right; left; exact Hi].
    + apply (i_rng _ I).
    + apply (i_live _ I).
    + apply (i_sorted _ I).
    + intros t Ht. apply (i_exp _ I). apply (Permutation_in _ (Permutation_sym Pm)). right; exact Ht.
    + apply (i_clock _ I).
    + discriminate.
    + intros Hi. pose proof (i_count _ I Hi) as C. rewrite Hr in C.
      rewrite (Permutation_length Pm) in C. unfold run_ids; cbn. cbn [length] in C. lia.
    + apply (i_loaded _ I).
    + discriminate.
  - (* the scan of the databases *)
    destruct (x_phase s) as [|tm snap|] eqn:Hp; try discriminate. inversion H; subst. clear H.
    assert (Hr : run_ids (x_phase s) = [fst tm]) by (rewrite Hp; reflexivity).
    assert (Hri : running_id (x_phase s) = Some (fst tm)) by (rewrite Hp; reflexivity).
    constructor; cbn; unfold pend; cbn.
    + apply (i_ids _ I).
    + intros i Hi. apply (i_run _ I). rewrite Hri. exact Hi.
    + pose proof (i_nodup _ I) as N. rewrite Hr in N. exact N.
    + destruct (i_tid _ I) as [Hz|[Hi|Hr2]]; [left; exact Hz|right; left; exact Hi|right; right].
      rewrite Hri in Hr2. exact Hr2.
    + apply (i_rng _ I).
    + apply (i_live _ I).
    + apply (i_sorted _ I).
    + apply (i_exp _ I).
    + apply (i_clock _ I).
    + apply (i_owed _ I).
    + intros Hi. pose proof (i_count _ I Hi) as C. rewrite Hr in C. exact C.
    + apply (i_loaded _ I).
    + intros tm0 p att w Hb m Hm. inversion Hb; subst. clear Hb.
      unfold refresh_begin in Hm.
      destruct (begin_decide snap (w_mtime (x_w s))) as [ds du]. cbn [p_map] in Hm.
      destruct du; [|discriminate]. apply restart_on_erange in Hm. exact Hm.
  - (* the callback's second critical section *)
    destruct (x_phase s) as [| |tm p att w] eqn:Hp; try discriminate.
    rewrite (surjective_pairing (do_commit VRepo s tm p att w (stat_was_called p))) in H.
    inversion H; subst. apply inv_commit; assumption.
  - (* lookup *) inversion H; subst. exact I.
Qed.

Lemma gt_exec_inv tr : forall s s' e, Inv s -> gt_exec VRepo s tr = Some (s', e) -> Inv s'.
Proof.
  induction tr as [|l r IH]; intros s s' e I H; cbn [gt_exec] in H.
  - inversion H; subst. exact I.
  - destruct (gt_step VRepo s l) as [[s1 e1]|] eqn:E1; [|discriminate].
    destruct (gt_exec VRepo s1 r) as [[s2 e2]|] eqn:E2; [|discriminate]. inversion H; subst.
    eapply IH; [|exact E2]. eapply gt_step_inv; eassumption.
Qed.

Lemma do_sighup_fields s :
  x_g (fst (do_sighup s)) = sighup (x_g s) /\ x_phase (fst (do_sighup s)) = x_phase s /\
  x_w (fst (do_sighup s)) = x_w s /\ x_loaded (fst (do_sighup s)) = x_loaded s /\
  x_owed (fst (do_sighup s)) = Some (x_clock s) /\ x_clock (fst (do_sighup s)) = x_clock s.
Proof.
  unfold do_sighup. destruct (0 <? x_tid s); [destruct (t_cancel (x_active s) (x_tid s))|];
    cbn; repeat split; reflexivity.
Qed.

Lemma do_commit_fields v s tm p att w sc :
  x_phase (fst (do_commit v s tm p att w sc)) = PIdle /\
  x_w (fst (do_commit v s tm p att w sc)) = x_w s /\
  g_interval (x_g (fst (do_commit v s tm p att w sc))) = g_interval (x_g s) /\
  x_owed (fst (do_commit v s tm p att w sc)) = x_owed s /\
  x_clock (fst (do_commit v s tm p att w sc)) = x_clock s /\
  x_extra (fst (do_commit v s tm p att w sc)) = x_extra s.
Proof.
  unfold do_commit.
  destruct (match v with VAbortOnFail => _ | _ => false end); [cbn; repeat split; reflexivity|].
  unfold rearm. rewrite commit_interval.
  destruct v; try (destruct (0 <? x_tid s); [destruct (t_cancel (x_active s) (x_tid s))|]);
    destruct (0 <? g_interval (x_g s)); cbn; repeat split; reflexivity.
Qed.

(* what a step leaves alone *)
Lemma step_frame v s l s' e : gt_step v s l = Some (s', e) ->
  g_interval (x_g s') = g_interval (x_g s) /\
  x_w s' = world_after (x_w s) [l] /\
  x_clock s' = clock_after (x_clock s) [l] /\
  (forall c, x_owed s = Some c -> x_owed s' = None -> l = XFire) /\
  (l = XSighup -> x_owed s' = Some (x_clock s)).
Proof.
  intros H. destruct l; cbn [gt_step world_after clock_after] in *.
  - inversion H; subst; cbn. repeat split; try congruence; try discriminate.
  - inversion H; subst; cbn. repeat split; try congruence; try discriminate.
  - inversion H as [H1]. destruct (do_sighup_fields s) as (F1 & F2 & F3 & F4 & F5 & F6).
    rewrite H1 in *. cbn [fst] in *. rewrite F1, F3, F5, F6. repeat split; try congruence.
  - destruct (x_phase s); try discriminate. destruct (x_batch s); try discriminate.
    destruct (pt_due (x_clock s) (x_active s)) as [[|? ?] ?]; [discriminate|]. inversion H; subst; cbn.
    repeat split; try congruence; try discriminate.
  - destruct (x_phase s); try discriminate. destruct (x_batch s); try discriminate. inversion H; subst; cbn.
    repeat split; try congruence; try discriminate.
  - destruct (x_phase s); try discriminate. inversion H; subst; cbn. repeat split; try congruence; try discriminate.
  - destruct (x_phase s) as [| |tm p att w]; try discriminate. inversion H as [H1].
    destruct (do_commit_fields v s tm p att w (stat_was_called p)) as (F1 & F2 & F3 & F4 & F5 & F6).
    rewrite H1 in *. cbn [fst] in *. rewrite F2, F3, F4, F5. repeat split; try congruence; try discriminate.
  - inversion H; subst. repeat split; try congruence; try discriminate.
Qed.

Lemma step_interval v s l s' e : gt_step v s l = Some (s', e) -> g_interval (x_g s') = g_interval (x_g s).
Proof. intros H. apply (step_frame _ _ _ _ _ H). Qed.

Lemma exec_interval v tr : forall s s' e, gt_exec v s tr = Some (s', e) ->
  g_interval (x_g s') = g_interval (x_g s).
Proof.
  induction tr as [|l r IH]; intros s s' e H; cbn [gt_exec] in H.
  - inversion H; reflexivity.
  - destruct (gt_step v s l) as [[s1 e1]|] eqn:E1; [|discriminate].
    destruct (gt_exec v s1 r) as [[s2 e2]|] eqn:E2; [|discriminate]. inversion H; subst.
    rewrite (IH _ _ _ E2). eapply step_interval. exact E1.
Qed.

Lemma init_interval interval dostat w : g_interval (x_g (gt_init interval dostat w)) = interval.
Proof. reflexivity. Qed.

Lemma reach_inv interval dostat w tr s e :
  gt_exec VRepo (gt_init interval dostat w) tr = Some (s, e) ->
  Inv s /\ g_interval (x_g s) = interval.
Proof.
  intros H. split.
  - eapply gt_exec_inv; [apply gt_init_inv|exact H].
  - rewrite (exec_interval _ _ _ _ _ H). apply init_interval.
Qed.

(* ------------------------------------------------------------------ C18: the refresh keeps recurring *)
(* whenever no refresh is running, the timer gids->timer names is pending, and it is due no later
   than one interval after the latest clock reading *)
Theorem refresh_rearmed interval dostat w tr s e :
  0 < interval -> gt_exec VRepo (gt_init interval dostat w) tr = Some (s, e) ->
  x_phase s = PIdle ->
  exists exp, In (x_tid s, exp) (x_active s ++ x_batch s) /\ exp <= x_hi s + interval * 1000.
Proof.
  intros Hi H Hp. destruct (reach_inv _ _ _ _ _ _ H) as [I Hint].
  rewrite <- Hint in Hi. pose proof (i_live _ I Hi) as Hl.
  destruct (i_tid _ I) as [Hz|[Hin|Hr]]; [lia| |rewrite Hp in Hr; discriminate].
  apply ids_in in Hin. destruct Hin as (exp & Hin). exists exp. split; [exact Hin|].
  pose proof (i_exp _ I _ Hin) as He. cbn in He. rewrite Hint in *. lia.
Qed.

(* a refresh in progress always ends by re-arming, whatever the build returned *)
Theorem commit_rearms s tm p att w s' e :
  Inv s -> 0 < g_interval (x_g s) -> x_phase s = PBuilt tm p att w ->
  gt_step VRepo s XCommit = Some (s', e) ->
  x_phase s' = PIdle /\
  In (ESet (x_tid s') (x_clock s) (g_interval (x_g s) * 1000)) e /\
  In (x_tid s', x_clock s + g_interval (x_g s) * 1000) (x_active s') /\
  x_tid s' = x_last s + 1.
Proof.
  intros I Hi Hp H. cbn [gt_step] in H. rewrite Hp in H. inversion H as [H1]. clear H.
  unfold do_commit in H1. cbn [andb] in H1. cbv iota in H1. unfold rearm in H1.
  rewrite commit_interval in H1.
  apply Z.ltb_lt in Hi. rewrite Hi in H1. apply Z.ltb_lt in Hi. inversion H1; subst. clear H1. cbn.
  split; [reflexivity|]. split; [apply in_or_app; right; left; reflexivity|]. split; [|reflexivity].
  apply pt_insert_in. left. f_equal. lia.
Qed.

(* the number of refresh timers alive (pending, detached or running) *)
Definition alive (s : gt) : nat := (length (x_active s) + length (x_batch s) + length (run_ids (x_phase s)))%nat.

Theorem chain_count interval dostat w tr s e :
  0 < interval -> gt_exec VRepo (gt_init interval dostat w) tr = Some (s, e) ->
  alive s = S (x_extra s).
Proof.
  intros Hi H. destruct (reach_inv _ _ _ _ _ _ H) as [I Hint]. rewrite <- Hint in Hi.
  pose proof (i_count _ I Hi) as C. unfold alive, pend in *. rewrite app_length in C. exact C.
Qed.

(* the only step that adds a chain: a gids_update whose timer_cancel finds nothing on the active
   list (the timer gids->timer names is running or already detached) *)
Theorem extra_only_by_failed_cancel s l s' e :
  gt_step VRepo s l = Some (s', e) -> x_extra s' <> x_extra s ->
  l = XSighup /\ In (ECancel (x_tid s) false) e /\ x_extra s' = S (x_extra s).
Proof.
  intros H Hne. destruct l; cbn [gt_step] in H.
  - inversion H; subst. exfalso; apply Hne; reflexivity.
  - inversion H; subst. exfalso; apply Hne; reflexivity.
  - inversion H as [H1]. clear H. unfold do_sighup in H1.
    destruct (0 <? x_tid s).
    + unfold t_cancel in H1. destruct (pt_remove (x_tid s) (x_active s)); inversion H1; subst; cbn in *.
      * exfalso; apply Hne; reflexivity.
      * split; [reflexivity|]. split; [left; reflexivity|reflexivity].
    + inversion H1; subst; cbn in *. exfalso; apply Hne; reflexivity.
  - destruct (x_phase s); try discriminate. destruct (x_batch s); try discriminate.
    destruct (pt_due (x_clock s) (x_active s)) as [[|? ?] ?]; [discriminate|]. inversion H; subst.
    exfalso; apply Hne; reflexivity.
  - destruct (x_phase s); try discriminate. destruct (x_batch s); try discriminate.
    inversion H; subst. exfalso; apply Hne; reflexivity.
  - destruct (x_phase s); try discriminate. inversion H; subst. exfalso; apply Hne; reflexivity.
  - destruct (x_phase s) as [| |tm p att w]; try discriminate. inversion H as [H1].
    destruct (do_commit_fields VRepo s tm p att w (stat_was_called p)) as (F1 & F2 & F3 & F4 & F5 & F6).
    rewrite H1 in F6. cbn [fst] in F6. contradiction.
  - inversion H; subst. exfalso; apply Hne; reflexivity.
Qed.

(* the timer thread is never stuck: a due timer can be detached, a detached one started, a started
   refresh scanned (whatever the scan meets) and a scanned one committed *)
Theorem thread_progress s :
  Inv s ->
  match x_phase s with
  | PIdle => (exists t, In t (x_active s ++ x_batch s) /\ snd t <= x_clock s) ->
             exists l s' e, (l = XDetach \/ l = XFire) /\ gt_step VRepo s l = Some (s', e)
  | PStarted _ _ => forall sched, exists s' e, gt_step VRepo s (XScan sched) = Some (s', e)
  | PBuilt _ _ _ _ => exists s' e, gt_step VRepo s XCommit = Some (s', e)
  end.
Proof.
  intros I. destruct (x_phase s) eqn:Hp.
  - intros (t & Ht & Hd). destruct (x_batch s) as [|tm r] eqn:Hb.
    + rewrite app_nil_r in Ht. destruct (x_active s) as [|x r] eqn:Ha; [destruct Ht|].
      pose proof (i_sorted _ I) as Ss. rewrite Ha in Ss.
      destruct (pt_due_head (x_clock s) x r Ss) as (a & b & Ed); [eauto|].
      exists XDetach. cbn [gt_step]. rewrite Hp, Hb, Ha, Ed. eauto.
    + exists XFire. cbn [gt_step]. rewrite Hp, Hb. eauto.
  - intros sched. cbn [gt_step]. rewrite Hp. eauto.
  - cbn [gt_step]. rewrite Hp.
    destruct (do_commit VRepo s tm p attempted wscan (stat_was_called p)) as [s' e]. eauto.
Qed.

(* ------------------------------------------------------------------ C17: SIGHUP leads to a refresh that starts after it *)
(* once gids_update has run, and until a refresh STARTS, a timer that was due at the moment of the
   call stays pending — whether the call found the daemon idle or inside a running refresh *)
Theorem sighup_refresh_pending interval dostat w tr s e c :
  gt_exec VRepo (gt_init interval dostat w) tr = Some (s, e) -> x_owed s = Some c ->
  c <= x_hi s /\ exists t, In t (x_active s ++ x_batch s) /\ snd t <= c.
Proof.
  intros H Ho. destruct (reach_inv _ _ _ _ _ _ H) as [I _]. apply (i_owed _ I). exact Ho.
Qed.

Lemma sighup_owes v s s' e : gt_step v s XSighup = Some (s', e) -> x_owed s' = Some (x_clock s).
Proof. intros H. apply (step_frame _ _ _ _ _ H). reflexivity. Qed.

Lemma owed_cleared_only_by_fire v s l s' e c :
  gt_step v s l = Some (s', e) -> x_owed s = Some c -> x_owed s' = None -> l = XFire.
Proof. intros H. apply (step_frame _ _ _ _ _ H). Qed.

(* ---- what the refresh that starts then installs ---- *)
Lemma gt_exec_app v a : forall s b,
  gt_exec v s (a ++ b) =
  match gt_exec v s a with
  | None => None
  | Some (s1, e1) => match gt_exec v s1 b with None => None | Some (s2, e2) => Some (s2, e1 ++ e2) end
  end.
Proof.
  induction a as [|l a IH]; intros s b; cbn [gt_exec app].
  - destruct (gt_exec v s b) as [[s2 e2]|]; reflexivity.
  - destruct (gt_step v s l) as [[s1 e1]|]; [|reflexivity]. rewrite IH.
    destruct (gt_exec v s1 a) as [[s2 e2]|]; [|reflexivity].
    destruct (gt_exec v s2 b) as [[s3 e3]|]; [|reflexivity]. rewrite app_assoc. reflexivity.
Qed.

Lemma step_world v s l s' e : gt_step v s l = Some (s', e) -> x_w s' = world_after (x_w s) [l].
Proof. intros H. apply (step_frame _ _ _ _ _ H). Qed.

Lemma world_after_app a : forall w b, world_after w (a ++ b) = world_after (world_after w a) b.
Proof.
  induction a as [|l a IH]; intros w b; [reflexivity|]. destruct l; cbn [world_after app]; apply IH.
Qed.

Lemma exec_world v tr : forall s s' e, gt_exec v s tr = Some (s', e) -> x_w s' = world_after (x_w s) tr.
Proof.
  induction tr as [|l r IH]; intros s s' e H; cbn [gt_exec] in H.
  - inversion H; reflexivity.
  - destruct (gt_step v s l) as [[s1 e1]|] eqn:E1; [|discriminate].
    destruct (gt_exec v s1 r) as [[s2 e2]|] eqn:E2; [|discriminate]. inversion H; subst.
    rewrite (IH _ _ _ E2). rewrite (step_world _ _ _ _ _ E1).
    change (l :: r) with ([l] ++ r). rewrite world_after_app. reflexivity.
Qed.

(* other threads do not touch the refresh in progress, the visible map or the time of the last load *)
Lemma quiet_step v s l s' e : quiet l -> gt_step v s l = Some (s', e) ->
  x_phase s' = x_phase s /\ g_map (x_g s') = g_map (x_g s) /\ g_tlast (x_g s') = g_tlast (x_g s) /\
  x_loaded s' = x_loaded s.
Proof.
  intros Q H. destruct l; cbn in Q; try contradiction; cbn [gt_step] in H.
  - inversion H; subst; cbn; auto.
  - inversion H; subst; cbn; auto.
  - inversion H as [H1]. destruct (do_sighup_fields s) as (F1 & F2 & F3 & F4 & F5 & F6).
    rewrite H1 in *. cbn [fst] in *. rewrite F1, F2, F4. auto.
  - inversion H; subst; auto.
Qed.

Lemma quiet_exec v tr : forall s s' e, Forall quiet tr -> gt_exec v s tr = Some (s', e) ->
  x_phase s' = x_phase s /\ g_map (x_g s') = g_map (x_g s) /\ g_tlast (x_g s') = g_tlast (x_g s) /\
  x_loaded s' = x_loaded s.
Proof.
  induction tr as [|l r IH]; intros s s' e Q H; cbn [gt_exec] in H.
  - inversion H; auto.
  - inversion Q; subst.
    destruct (gt_step v s l) as [[s1 e1]|] eqn:E1; [|discriminate].
    destruct (gt_exec v s1 r) as [[s2 e2]|] eqn:E2; [|discriminate]. inversion H; subst.
    destruct (quiet_step _ _ _ _ _ H2 E1) as (A1 & A2 & A3 & A4).
    destruct (IH _ _ _ H3 E2) as (B1 & B2 & B3 & B4).
    rewrite B1, B2, B3, B4. auto.
Qed.

Lemma clock_after_app a : forall c b, clock_after c (a ++ b) = clock_after (clock_after c a) b.
Proof.
  induction a as [|l a IH]; intros c b; [reflexivity|]. destruct l; cbn [clock_after app]; apply IH.
Qed.

Lemma exec_clock v tr : forall s s' e, gt_exec v s tr = Some (s', e) -> x_clock s' = clock_after (x_clock s) tr.
Proof.
  induction tr as [|l r IH]; intros s s' e H; cbn [gt_exec] in H.
  - inversion H; reflexivity.
  - destruct (gt_step v s l) as [[s1 e1]|] eqn:E1; [|discriminate].
    destruct (gt_exec v s1 r) as [[s2 e2]|] eqn:E2; [|discriminate]. inversion H; subst.
    rewrite (IH _ _ _ E2). destruct (step_frame _ _ _ _ _ E1) as (_ & _ & F & _). rewrite F.
    change (l :: r) with ([l] ++ r). rewrite clock_after_app. reflexivity.
Qed.

Lemma exec_split v a l b s s' e : gt_exec v s (a ++ l :: b) = Some (s', e) ->
  exists s1 e1 s2 e2 e3, gt_exec v s a = Some (s1, e1) /\ gt_step v s1 l = Some (s2, e2) /\
                         gt_exec v s2 b = Some (s', e3).
Proof.
  intros H. rewrite gt_exec_app in H.
  destruct (gt_exec v s a) as [[s1 e1]|]; [|discriminate]. cbn [gt_exec] in H.
  destruct (gt_step v s1 l) as [[s2 e2]|] eqn:E2; [|discriminate].
  destruct (gt_exec v s2 b) as [[s3 e3]|] eqn:E3; [|discriminate]. inversion H; subst.
  exists s1, e1, s2, e2, e3. repeat split; [exact E2|exact E3].
Qed.

Lemma scan_step_spec v s tm snap sched s' e :
  x_phase s = PStarted tm snap -> gt_step v s (XScan sched) = Some (s', e) ->
  x_phase s' = PBuilt tm (refresh_begin snap (x_clock s / 1000) (w_mtime (x_w s)) (w_pw (x_w s))
                                        (w_db (x_w s)) sched)
                      (snd (begin_decide snap (w_mtime (x_w s)))) (x_w s) /\
  x_g s' = x_g s /\ x_loaded s' = x_loaded s.
Proof.
  intros Hp H. cbn [gt_step] in H. rewrite Hp in H. inversion H; subst. cbn. auto.
Qed.

Lemma commit_step_spec s tm p att w s' e :
  x_phase s = PBuilt tm p att w -> gt_step VRepo s XCommit = Some (s', e) ->
  x_g s' = refresh_commit (x_g s) p /\ x_phase s' = PIdle /\
  x_loaded s' = match p_map p with Some _ => Some w | None => x_loaded s end.
Proof.
  intros Hp H. cbn [gt_step] in H. rewrite Hp in H. inversion H as [H1]. clear H.
  unfold do_commit in H1. cbn [andb] in H1. cbv iota in H1. unfold rearm in H1.
  destruct (0 <? g_interval (refresh_commit (x_g s) p)); inversion H1; subst; cbn; auto.
Qed.

(* a refresh that has started (snapshot [snap] taken in its first critical section), with other threads
   acting before and after its scan: what is visible when it returns *)
Theorem started_refresh_installs s tm snap tr_b sched tr_c s' e :
  x_phase s = PStarted tm snap -> Forall quiet tr_b -> Forall quiet tr_c ->
  gt_exec VRepo s (tr_b ++ XScan sched :: tr_c ++ [XCommit]) = Some (s', e) ->
  let w := world_after (x_w s) tr_b in
  let now := clock_after (x_clock s) tr_b / 1000 in
  x_phase s' = PIdle /\
  (should_load snap (w_mtime w) -> forall m, map_create (w_pw w) (w_db w) sched = Some m ->
     g_map (x_g s') = Some (build (w_pw w) (w_db w)) /\ x_loaded s' = Some w /\
     g_tlast (x_g s') = now) /\
  (~ should_load snap (w_mtime w) \/ map_create (w_pw w) (w_db w) sched = None ->
     g_map (x_g s') = g_map (x_g s) /\ x_loaded s' = x_loaded s /\
     g_tlast (x_g s') = g_tlast (x_g s)).
Proof.
  intros Hp Qb Qc H w now.
  destruct (exec_split _ _ _ _ _ _ _ H) as (s1 & e1 & s2 & e2 & e3 & E1 & E2 & E3).
  destruct (exec_split _ _ _ _ _ _ _ E3) as (s3 & e4 & s4 & e5 & e6 & E4 & E5 & E6).
  cbn [gt_exec] in E6. inversion E6; subst s4 e6. clear E6 E3 H.
  destruct (quiet_exec _ _ _ _ _ Qb E1) as (A1 & A2 & A3 & A4).
  pose proof (exec_world _ _ _ _ _ E1) as Aw. pose proof (exec_clock _ _ _ _ _ E1) as Ac.
  rewrite Hp in A1.
  destruct (scan_step_spec _ _ _ _ _ _ _ A1 E2) as (S1 & S2 & S3).
  destruct (quiet_exec _ _ _ _ _ Qc E4) as (B1 & B2 & B3 & B4).
  rewrite S1 in B1. rewrite S2 in B2, B3. rewrite S3 in B4.
  destruct (commit_step_spec _ _ _ _ _ _ _ B1 E5) as (G1 & G2 & G3).
  split; [exact G2|].
  rewrite Aw, Ac in G1, G3. fold w in G1, G3.
  rewrite G1, G3. unfold refresh_commit. cbn [g_map g_tlast]. rewrite begin_map, begin_now.
  fold now.
  destruct (should_load_dec snap (w_mtime w)) as [Hs|Hs]; split.
  - intros _ m Em. rewrite Em. apply restart_on_erange in Em. subst m. auto.
  - intros [Hc|Hc]; [contradiction|]. rewrite Hc. rewrite B2, B3, B4, A2, A3, A4. auto.
  - intros Hc. contradiction.
  - intros _. rewrite B2, B3, B4, A2, A3, A4. auto.
Qed.

(* ... and the whole story from the SIGHUP on: whatever happens after gids_update (tr_a: the rest of a
   refresh that was running, other refreshes, edits, clock changes, further SIGHUPs), the refresh that
   starts next (XFire) reads the databases as they are at its scan, i.e. with every edit made before the
   SIGHUP, and installs them when it is obliged to load and the build succeeds *)
Theorem refresh_after_sighup_reflects s tr_a tr_b sched tr_c s' e :
  Forall quiet tr_b -> Forall quiet tr_c ->
  gt_exec VRepo s (XSighup :: tr_a ++ XFire :: tr_b ++ XScan sched :: tr_c ++ [XCommit]) = Some (s', e) ->
  exists s1 e1,
    gt_exec VRepo s (XSighup :: tr_a) = Some (s1, e1) /\
    let w := world_after (x_w s) (tr_a ++ tr_b) in
    x_phase s' = PIdle /\
    (should_load (x_g s1) (w_mtime w) -> forall m, map_create (w_pw w) (w_db w) sched = Some m ->
       g_map (x_g s') = Some (build (w_pw w) (w_db w)) /\ x_loaded s' = Some w) /\
    (~ should_load (x_g s1) (w_mtime w) \/ map_create (w_pw w) (w_db w) sched = None ->
       g_map (x_g s') = g_map (x_g s1) /\ x_loaded s' = x_loaded s1).
Proof.
  intros Qb Qc H.
  change (XSighup :: tr_a ++ XFire :: tr_b ++ XScan sched :: tr_c ++ [XCommit])
    with ((XSighup :: tr_a) ++ XFire :: tr_b ++ XScan sched :: tr_c ++ [XCommit]) in H.
  rewrite gt_exec_app in H.
  destruct (gt_exec VRepo s (XSighup :: tr_a)) as [[s1 e1]|] eqn:E1; [|discriminate].
  exists s1, e1. split; [reflexivity|].
  cbn [gt_exec] in H. destruct (gt_step VRepo s1 XFire) as [[s2 e2]|] eqn:E2; [|discriminate].
  destruct (gt_exec VRepo s2 (tr_b ++ XScan sched :: tr_c ++ [XCommit])) as [[s3 e3]|] eqn:E3; [|discriminate].
  inversion H; subst s' e. clear H.
  cbn [gt_step] in E2. destruct (x_phase s1) eqn:Hp1; try discriminate.
  destruct (x_batch s1) as [|tm r] eqn:Hb1; try discriminate. inversion E2; subst s2 e2. clear E2.
  match type of E3 with gt_exec _ ?S2 _ = _ =>
    assert (T := started_refresh_installs S2 tm (x_g s1) tr_b sched tr_c s3 e3 eq_refl Qb Qc E3) end.
  cbn [x_w x_clock x_g x_loaded] in T.
  pose proof (exec_world _ _ _ _ _ E1) as Aw. cbn [world_after] in Aw.
  rewrite world_after_app. rewrite <- Aw.
  destruct T as (T1 & T2 & T3). split; [exact T1|]. split.
  - intros Hs m Em. destruct (T2 Hs m Em) as (U1 & U2 & _). auto.
  - intros Hc. destruct (T3 Hc) as (U1 & U2 & _). auto.
Qed.

(* every answer is the exact answer for the database version the visible map was built from *)
Theorem lookup_answers_loaded interval dostat w0 tr s e u g :
  gt_exec VRepo (gt_init interval dostat w0) tr = Some (s, e) ->
  is_member (g_map (x_g s)) u g = true <->
  exists w, x_loaded s = Some w /\ member_spec (w_pw w) (w_db w) u g.
Proof.
  intros H. destruct (reach_inv _ _ _ _ _ _ H) as [I _]. rewrite (i_loaded _ I).
  destruct (x_loaded s) as [w|]; cbn [option_map].
  - rewrite membership_spec. split; [intros Hm; exists w; auto|].
    intros (w' & Hw & Hm). inversion Hw; subst. exact Hm.
  - cbn. split; [discriminate|]. intros (w' & Hw & _). discriminate.
Qed.

(* ------------------------------------------------------------------ C18: a dispatched refresh returns *)
(* xgetgrent's ERANGE loop (grow the buffer, ask again) ends for every entry below half the size_t range, from every
   positive buffer size, so the scan of every such database ends *)
Lemma scan_buf_total needs : forall len,
  (0 < len)%N -> Forall (fun n => (n <= 2 ^ (GenGids.size_bits - 1))%N) needs ->
  exists len', scan_buf len needs = Some len' /\ (len <= len')%N.
Proof.
  induction needs as [|n r IH]; intros len Hl Hf; cbn [scan_buf].
  - exists len. split; [reflexivity|apply N.le_refl].
  - inversion Hf as [|? ? Hn Hr]; subst.
    destruct (xgetgrent_buf_total (N.to_nat GenGids.size_bits) len n Hl Hn) as (l1 & E1).
    { apply N.le_trans with (2 ^ (GenGids.size_bits - 1))%N; [exact Hn|].
      apply N.le_trans with (1 * 2 ^ N.of_nat (N.to_nat GenGids.size_bits))%N.
      - rewrite N.mul_1_l, N2Nat.id. apply N.pow_le_mono_r; [discriminate|]. vm_compute. discriminate.
      - apply N.mul_le_mono_r. apply N.lt_pred_le. exact Hl. }
    rewrite E1. destruct (xgetgrent_buf_sound _ _ _ _ E1) as [_ Hle].
    destruct (IH l1) as (l2 & E2 & Hle2); [|exact Hr|].
    + apply N.lt_le_trans with len; assumption.
    + exists l2. split; [exact E2|]. apply N.le_trans with l1; assumption.
Qed.

(* the callback that has been dispatched runs to its return, whatever the scan meets: the timer thread goes on *)
Theorem refresh_returns s tm snap sched :
  x_phase s = PStarted tm snap ->
  exists s1 e1 s2 e2, gt_step VRepo s (XScan sched) = Some (s1, e1) /\
    gt_step VRepo s1 XCommit = Some (s2, e2) /\ x_phase s2 = PIdle /\
    exists sc at_, In (EReturn sc at_) e2.
Proof.
  intros Hp.
  assert (Hs : exists s1 e1, gt_step VRepo s (XScan sched) = Some (s1, e1)).
  { cbn [gt_step]. rewrite Hp. eauto. }
  destruct Hs as (s1 & e1 & Hs). exists s1, e1.
  destruct (scan_step_spec _ _ _ _ _ _ _ Hp Hs) as (Hp1 & _ & _).
  match type of Hp1 with x_phase s1 = PBuilt tm ?P ?A ?W => set (p := P) in *; set (att := A) in *; set (w := W) in * end.
  destruct (do_commit VRepo s1 tm p att w (stat_was_called p)) as [s2 e2] eqn:E.
  exists s2, e2. split; [exact Hs|].
  assert (Hc : gt_step VRepo s1 XCommit = Some (s2, e2)) by (cbn [gt_step]; rewrite Hp1, E; reflexivity).
  split; [exact Hc|].
  destruct (do_commit_fields VRepo s1 tm p att w (stat_was_called p)) as (F1 & _).
  rewrite E in F1. cbn [fst] in F1. split; [exact F1|].
  exists (stat_was_called p), att. unfold do_commit in E. cbn [andb] in E. cbv iota in E.
  destruct (rearm (refresh_commit (x_g s1) p) (x_active s1) (x_last s1) (x_clock s1)) as [[[a b] c] d].
  inversion E; subst. apply in_or_app. right. cbn [app]. apply in_or_app. right. left. reflexivity.
Qed.

(* ------------------------------------------------------------------ C17: every scan is bracketed by setgrent ... endgrent *)
Lemma stream_after_app b e1 e2 : stream_after b (e1 ++ e2) = stream_after (stream_after b e1) e2.
Proof. unfold stream_after. apply fold_left_app. Qed.

Lemma step_stream s l s' e : gt_step VRepo s l = Some (s', e) ->
  stream_after (stream_open s) e = stream_open s'.
Proof.
  intros H. unfold stream_open. destruct l; cbn [gt_step] in H.
  - inversion H; subst. reflexivity.
  - inversion H; subst. reflexivity.
  - inversion H as [H1]. destruct (do_sighup_fields s) as (_ & F2 & _).
    rewrite H1 in F2. cbn [fst] in F2. rewrite F2.
    unfold do_sighup in H1. destruct (0 <? x_tid s); [destruct (t_cancel (x_active s) (x_tid s))|];
      inversion H1; subst; reflexivity.
  - destruct (x_phase s); try discriminate. destruct (x_batch s); try discriminate.
    destruct (pt_due (x_clock s) (x_active s)) as [[|? ?] ?]; [discriminate|]. inversion H; subst. reflexivity.
  - destruct (x_phase s); try discriminate. destruct (x_batch s); try discriminate. inversion H; subst. reflexivity.
  - destruct (x_phase s); try discriminate. inversion H; subst. cbn.
    destruct (snd (begin_decide snap (w_mtime (x_w s)))); reflexivity.
  - destruct (x_phase s) as [| |tm p att w]; try discriminate. inversion H as [H1]. clear H.
    destruct (do_commit_fields VRepo s tm p att w (stat_was_called p)) as (F1 & _).
    rewrite H1 in F1. cbn [fst] in F1. rewrite F1.
    unfold do_commit in H1. cbn [andb] in H1. cbv iota in H1. unfold rearm in H1.
    destruct (0 <? g_interval (refresh_commit (x_g s) p)); destruct att; inversion H1; subst; reflexivity.
  - inversion H; subst. reflexivity.
Qed.

(* along every run the stream is open exactly between a refresh's scan (when it makes one) and its second critical
   section: every setgrent() is followed by its endgrent() before the callback returns, so the NEXT scan opens the
   group database afresh — the file that is there then, also when the old one was replaced by rename() *)
Theorem scan_bracketed interval dostat w0 tr s e :
  gt_exec VRepo (gt_init interval dostat w0) tr = Some (s, e) ->
  stream_after false e = stream_open s /\ (x_phase s = PIdle -> stream_after false e = false).
Proof.
  assert (G : forall tr s0 s1 e1, gt_exec VRepo s0 tr = Some (s1, e1) ->
              stream_after (stream_open s0) e1 = stream_open s1).
  { induction tr0 as [|l r IH]; intros s0 s1 e1 H; cbn [gt_exec] in H.
    - inversion H; subst. reflexivity.
    - destruct (gt_step VRepo s0 l) as [[s2 e2]|] eqn:E1; [|discriminate].
      destruct (gt_exec VRepo s2 r) as [[s3 e3]|] eqn:E2; [|discriminate]. inversion H; subst.
      rewrite stream_after_app, (step_stream _ _ _ _ E1). apply IH. exact E2. }
  intros H. pose proof (G _ _ _ _ H) as H1.
  assert (H0 : stream_open (gt_init interval dostat w0) = false) by reflexivity.
  rewrite H0 in H1. split; [exact H1|]. intros Hp. rewrite H1. unfold stream_open. rewrite Hp. reflexivity.
Qed.

(* ------------------------------------------------------------------ witnesses: what the theorems exclude *)
Definition wA : world := mkW [(100%N, [])] pwA (Some 5).
Definition wB : world := mkW [(100%N, [alice])] pwA (Some 20).

(* timer_cancel (gids->timer) before `gids->timer = 0` in _gids_map_update: with updates on SIGHUP only
   (interval 0), a SIGHUP that arrives while the start-up refresh is running — after an edit that the
   running scan no longer sees — is acknowledged (timer set) and then lost: no timer is pending, nothing
   will ever start a refresh, and the answer stays that of the old databases *)
Definition lost_sighup_trace : list glabel :=
  [XClock 10000; XDetach; XFire; XScan []; XEdit wB; XSighup; XCommit].

Theorem cancel_at_commit_loses_sighup :
  exists s e,
    gt_exec VCancelAtCommit (gt_init 0 1 wA) lost_sighup_trace = Some (s, e) /\
    x_phase s = PIdle /\ x_owed s = Some 10000 /\ x_active s ++ x_batch s = [] /\
    member_spec (w_pw (x_w s)) (w_db (x_w s)) 1000%N 100%N /\
    is_member (g_map (x_g s)) 1000%N 100%N = false /\
    (* the code as it is keeps the refresh *)
    exists s2 e2, gt_exec VRepo (gt_init 0 1 wA) lost_sighup_trace = Some (s2, e2) /\
                  x_active s2 = [(2, 10000)].
Proof.
  eexists. eexists. split; [vm_compute; reflexivity|].
  split; [reflexivity|]. split; [reflexivity|]. split; [reflexivity|].
  split.
  - cbn. exists [alice], alice. split; [left; reflexivity|]. split; [left; reflexivity|].
    split; [discriminate|]. split; [vm_compute; reflexivity|]. vm_compute. discriminate.
  - split; [vm_compute; reflexivity|].
    eexists. eexists. split; [vm_compute; reflexivity|]. reflexivity.
Qed.

(* `return` right after a failed _gids_map_create: one transient failure of the group database and the
   periodic refresh is gone for good (nothing pending although interval_secs > 0) *)
Definition abort_trace : list glabel := [XDetach; XFire; XScan [FFail 0]; XCommit].

Theorem abort_on_failure_stops_refresh :
  exists s e,
    gt_exec VAbortOnFail (gt_init 3600 0 wA) abort_trace = Some (s, e) /\
    x_phase s = PIdle /\ x_active s ++ x_batch s = [] /\ g_interval (x_g s) = 3600 /\
    exists s2 e2, gt_exec VRepo (gt_init 3600 0 wA) abort_trace = Some (s2, e2) /\
                  x_active s2 = [(2, 3600000)] /\ x_tid s2 = 2.
Proof.
  eexists. eexists. split; [vm_compute; reflexivity|].
  split; [reflexivity|]. split; [reflexivity|]. split; [reflexivity|].
  eexists. eexists. split; [vm_compute; reflexivity|]. split; reflexivity.
Qed.
