(* RetryWire.v — the two halves of C13 put together.  What breaks a connection is one thing on the wire and two things
   to the two ends:
     cut while the client still writes (W)   client: m_msg_send fails      daemon: short request, nothing processed
     request cut on the way (Q)              client: m_msg_recv fails      daemon: short request, nothing processed
     reply cut at some byte (L)              client: m_msg_recv fails      daemon: processed, its send succeeded
     reply cannot be sent (S)                client: m_msg_recv fails      daemon: processed, send failed, record rolled back
   For every order of up to four of these the client half (the loop translated from the source, RetryClientModel) makes
   exactly the attempts the daemon half (RetryModel) assumes — attempt i carries retry = i - 1 — and hands the caller the
   reply of the clean attempt; the daemon half shows that this reply is the fault-free one and that exactly one replay
   record remains. *)
From Coq Require Import List NArith ZArith Bool Lia.
From RecordUpdate Require Import RecordSet.
From MV Require Import Bytes CredModel CredProofs RetryModel RetryProofs RetryClientModel RetryClientProofs.
From MV.gen Require Import GenCred GenRetryLoop.
Import ListNotations.

Inductive wire := WCutWriting | WCutOnTheWay | WReplyCut | WReplyUnsent.

Definition client_phase (w : wire) : phase := match w with WCutWriting => FSend | _ => FRecv end.
Definition daemon_fault (w : wire) : fault :=
  match w with WCutWriting | WCutOnTheWay => ReqCut | WReplyCut => RspLost | WReplyUnsent => RspSendFailed end.

Lemma wire_no_connect ws : no_connect_fault (map client_phase ws) = true.
Proof. induction ws as [|w ws IH]; [reflexivity|]. cbn. destruct w; exact IH. Qed.

Section Wire.
Variable hmac : N -> bytes -> bytes -> bytes.
Variable sha1 : bytes -> bytes.
Variable blk_dec : N -> bytes -> bytes -> bytes.
Variable zdecomp : N -> bytes -> N -> option bytes.

Theorem wire_faults_masked cf mem cred pu pg now rs (ws : list wire) :
  cf_socket_retry cf = true -> (length ws <= 4)%nat ->
  (* the client: success, n+1 attempts with retry 0..n, the reply of the last one, nothing undefined, nothing left *)
  masked (map client_phase ws) /\ safe_and_isolated (map client_phase ws) /\
  (* the daemon and the result *)
  match dec_pre hmac sha1 blk_dec zdecomp cf mem (req cred 0) pu pg now with
  | inl r0 =>
      exists r, munge_decode_under_faults hmac sha1 blk_dec zdecomp cf mem cred pu pg now rs (map daemon_fault ws) = (rs, Some r)
                /\ strip r = strip r0
  | inr (m0, k) =>
      r_mem k rs = false ->
      exists r, munge_decode_under_faults hmac sha1 blk_dec zdecomp cf mem cred pu pg now rs (map daemon_fault ws) = (k :: rs, Some r)
                /\ strip r = strip m0
  end.
Proof.
  intros Hc Hl.
  assert (HA : q_attempts src_xconst = 5%nat) by reflexivity.
  split; [|split].
  - apply xfer_masks_faults; [apply wire_no_connect|]. rewrite map_length, HA. lia.
  - apply xfer_safe_and_isolated. rewrite map_length, HA. lia.
  - apply (retry_masks_faults hmac sha1 blk_dec zdecomp); [exact Hc|]. now rewrite map_length.
Qed.
End Wire.
