(* MsgSource.v — the hand-written field tables of MsgModel are exactly the tables translated from the text of
   src/libcommon/m_msg.c on this run (gen/GenMsgTables.v). *)
From Coq Require Import List NArith.
From MV Require Import MsgModel.
From MV.gen Require Import GenMsg GenMsgTables.
Import ListNotations.

Lemma tables_match_source : forall t : mtype,
  src_len_fields t = len_fields t /\ src_pack_fields t = pack_fields t /\ src_unpack_fields t = unpack_fields t.
Proof. intros t. destruct t; repeat split; reflexivity. Qed.
