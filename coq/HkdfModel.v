(* HkdfModel.v — executable model of src/common/hkdf.c (no proofs here), and an
   independent transcription of RFC 5869 section 2.

   The HMAC primitive is abstract: [hmac key data] stands for
   mac_init(key); mac_update(chunk)*; mac_final() over the concatenation of the
   chunks (hkdf.c feeds "previous okm", "info", "round byte" as separate
   mac_update calls; that a chunked MAC equals the MAC of the concatenation is a
   property of the primitive, exercised by the correspondence harness, not a
   statement of this file).  [hash_len] is ctxp->mdlen = mac_size(md).

   HKDF_MAX_ROUNDS comes from gen/GenKeys.v, regenerated from hkdf.c. *)
From Coq Require Import List NArith Bool Arith.
From Coq.Strings Require Import Byte.
From MV Require Import Bytes.
From MV.gen Require Import GenKeys.
Import ListNotations.

Section Hkdf.
  Variable hmac : bytes -> bytes -> bytes.
  Variable hash_len : nat.

  (* ------------------------------------------------------------------ *)
  (* hkdf.c                                                              *)
  (* ------------------------------------------------------------------ *)

  (* hkdf(): if (ctxp->salt == NULL) { saltlen = mdlen; salt = calloc (1, saltlen) }.
     A salt that was set (even with length 0) is used as given. *)
  Definition salt_bytes (salt : option bytes) : bytes :=
    match salt with Some s => s | None => repeat x00 hash_len end.

  (* _hkdf_extract: prk = HMAC (salt, ikm) *)
  Definition hkdf_extract (salt : option bytes) (ikm : bytes) : bytes :=
    hmac (salt_bytes salt) ikm.

  (* _hkdf_expand's while loop.  State: the unsigned char [round], the [okm]
     buffer (previous block), [left] = dstlen_left, [out] = bytes written so far.
       round = 0;
       while (dstlen_left > 0) {
           round++;                                   (uint8: wraps mod 256)
           mac_init (prk); if (round > 1) update (okm);
           if (infolen > 0) update (info); update (&round, 1); final -> okm
           n = MIN (okmlen, dstlen_left); memcpy; dstp += n; dstlen_left -= n;
           if (round == HKDF_MAX_ROUNDS) break;
       }
     [fuel] bounds the iterations for Coq's termination checker; hkdf_expand
     passes left+1, enough whenever a block is non-empty. *)
  Fixpoint expand_loop (fuel : nat) (prk info : bytes) (round : N) (okm : bytes)
           (left : nat) (out : bytes) : bytes :=
    match fuel with
    | O => out
    | S f =>
      if Nat.eqb left 0 then out else
      let round' := N.modulo (round + 1) 256 in
      let okm' := hmac prk ((if N.ltb 1 round' then okm else []) ++ info ++ [n2b round']) in
      let n := Nat.min (length okm') left in
      let out' := out ++ firstn n okm' in
      if N.eqb round' hkdf_max_rounds then out'
      else expand_loop f prk info round' okm' (left - n) out'
    end.

  (* okm = calloc (1, okmlen): the buffer holds mdlen zero bytes before round 1
     (never fed to the MAC, since round 1 skips it). *)
  Definition hkdf_expand (prk info : bytes) (L : nat) : bytes :=
    expand_loop (S L) prk info 0%N (repeat x00 hash_len) L [].

  (* hkdf(): key == NULL -> EINVAL (None); otherwise extract, then expand into a
     buffer of L = *dstlenp bytes; returns 0 and *dstlenp = bytes written.
     An info that was never set has infolen = 0, same as an empty one. *)
  Definition hkdf (salt : option bytes) (ikm : option bytes) (info : bytes) (L : nat)
    : option bytes :=
    match ikm with
    | None => None
    | Some k => Some (hkdf_expand (hkdf_extract salt k) info L)
    end.

  (* ------------------------------------------------------------------ *)
  (* RFC 5869, section 2 — written from the RFC text, independently of  *)
  (* the code above.                                                     *)
  (*   2.2  PRK = HMAC-Hash(salt, IKM); salt: if not provided, it is      *)
  (*        set to a string of HashLen zeros                             *)
  (*   2.3  N = ceil(L/HashLen); T = T(1) | T(2) | ... | T(N);           *)
  (*        OKM = first L octets of T; T(0) = empty string,              *)
  (*        T(i) = HMAC-Hash(PRK, T(i-1) | info | i)  (i one octet);     *)
  (*        L <= 255*HashLen                                             *)
  (* ------------------------------------------------------------------ *)
  Fixpoint rfc_T (prk info : bytes) (i : nat) : bytes :=
    match i with
    | O => []
    | S j => hmac prk (rfc_T prk info j ++ info ++ [n2b (N.of_nat i)])
    end.

  Fixpoint rfc_Tcat (prk info : bytes) (n : nat) : bytes :=
    match n with
    | O => []
    | S j => rfc_Tcat prk info j ++ rfc_T prk info n
    end.

  Definition ceil_div (a b : nat) : nat := (a + b - 1) / b.

  Definition rfc_salt (salt : option bytes) : bytes :=
    match salt with Some s => s | None => repeat x00 hash_len end.

  Definition rfc5869 (salt : option bytes) (ikm info : bytes) (L : nat) : option bytes :=
    if Nat.ltb (255 * hash_len) L then None
    else let prk := hmac (rfc_salt salt) ikm in
         Some (firstn L (rfc_Tcat prk info (ceil_div L hash_len))).
End Hkdf.
