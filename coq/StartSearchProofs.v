(* StartSearchProofs.v — the search semantics (StartSearchModel.xstep over a program text) is StartModel.step on
   the expected program; the state the search looks for (two_bound) is unreachable by starts and SIGKILLs. *)
From Coq Require Import List Arith NArith Bool Lia.
From MV.gen Require Import GenStart.
From MV Require Import StartModel StartProofs StartSearchModel.
Import ListNotations.

Lemma xstep_prog : forall s l, xstep (map XP prog) s l = step s l.
Proof.
  intros s l. destruct l as [p|p|p]; cbn [xstep step]; rewrite ?nth_error_map.
  - destruct (startable (procs s p)); [|reflexivity].
    destruct (nth_error prog (pc (procs s p))) as [a|]; reflexivity.
  - reflexivity.
  - destruct (st (procs s p)); try reflexivity.
    destruct (nth_error prog (pc (procs s p))) as [a|]; cbn [option_map]; [|reflexivity]. destruct a; reflexivity.
Qed.

Lemma xrun_prog : forall sched s, xrun (map XP prog) s sched = run s sched.
Proof.
  induction sched as [|l r IH]; intros s; cbn [xrun run]; [reflexivity|]. rewrite xstep_prog.
  destruct (step s l); auto.
Qed.

(* a process that holds a socket descriptor has passed the bind *)
Definition SockPc (s : state) : Prop := forall p j, sockfd (procs s p) = Some j -> 6 <= pc (procs s p).

Lemma exec_sockfd : forall s q pr a s1 pr1, exec s q pr a = Cont s1 pr1 ->
  procs s1 = procs s /\ (sockfd pr1 = sockfd pr \/ sockfd pr1 = None \/ a = Bind).
Proof. intros s q pr a s1 pr1 H. destruct a; cbn in H; break_exec H; inv H; cbn; auto. Qed.

Lemma SockPc_step : forall s l s', SockPc s -> step s l = Some s' -> SockPc s'.
Proof.
  intros s l s' I H. destruct l as [q|q|q].
  - apply step_Step_inv in H. destruct H as (Hst & a & Hn & [(s1 & pr1 & E & ->)|[(s1 & E & ->)|(s1 & E & ->)]]).
    + destruct (exec_sockfd _ _ _ _ _ _ E) as (Hp & Hs). intros p j. cbn. rewrite Hp. unfold upd.
      destruct (Nat.eqb_spec p q) as [->|Hne]; cbn; [|apply I].
      intros Hj. destruct Hs as [Hs|[Hs|Hs]].
      * rewrite Hs in Hj. apply I in Hj. lia.
      * congruence.
      * subst a. apply prog_at in Hn.
        repeat (destruct Hn as [[Hpc Ha]|Hn]); try destruct Hn as [Hpc Ha]; try discriminate. lia.
    + apply exec_Fail in E. subst. intros p j. cbn. unfold upd. destruct (Nat.eqb_spec p q); cbn; [discriminate|apply I].
    + apply exec_Done in E. destruct E; subst. intros p j. cbn. unfold upd.
      destruct (Nat.eqb_spec p q); cbn; [discriminate|apply I].
  - apply step_Crash_inv in H. destruct H as [_ ->]. intros p j. cbn. unfold upd.
    destruct (Nat.eqb_spec p q); cbn; [discriminate|apply I].
  - apply step_Term_inv in H. destruct H as (_ & _ & ->). intros p j. cbn. unfold upd.
    destruct (Nat.eqb_spec p q) as [->|]; cbn; [|apply I]. intros Hj. apply I in Hj. lia.
Qed.

Lemma SockPc_run : forall sched s s', SockPc s -> run s sched = Some s' -> SockPc s'.
Proof.
  induction sched as [|l r IH]; cbn; intros s s' I H; [now inv H|].
  destruct (step s l) as [s1|] eqn:E; [|discriminate]. eapply IH; [|eassumption]. eapply SockPc_step; eauto.
Qed.

Lemma le1_of_all_equal : forall (l : list nat), NoDup l -> (forall x y, In x l -> In y l -> x = y) -> length l <= 1.
Proof.
  intros l Hnd Heq. destruct l as [|a [|b r]]; cbn; auto.
  exfalso. inv Hnd. apply H1. rewrite (Heq a b); cbn; auto.
Qed.

(* the property's first clause, said directly: after any history that ends with no munged running, no interleaving
   of any number of starts and SIGKILLs reaches a state in which two live processes are bound *)
Theorem never_two_bound : forall hist s0 sched s k, run init hist = Some s0 -> quiet s0 ->
  starts_and_crashes sched = true -> run s0 sched = Some s -> two_bound s k = false.
Proof.
  intros hist s0 sched s k Hh Q Hsc Hr.
  pose proof (reach_SInv _ _ _ _ Hh Q Hsc Hr) as I.
  assert (SP : SockPc s).
  { eapply SockPc_run; [|exact Hr]. eapply SockPc_run; [|exact Hh]. intros p j; cbn; discriminate. }
  unfold two_bound. apply Nat.ltb_ge. apply le1_of_all_equal.
  - apply NoDup_filter. apply seq_NoDup.
  - intros x y Hx Hy. apply filter_In in Hx. apply filter_In in Hy. destruct Hx as [_ Hx]. destruct Hy as [_ Hy].
    unfold bound in Hx, Hy.
    destruct (st (procs s x)) eqn:Ex; try discriminate. destruct (sockfd (procs s x)) as [jx|] eqn:Sx; try discriminate.
    destruct (st (procs s y)) eqn:Ey; try discriminate. destruct (sockfd (procs s y)) as [jy|] eqn:Sy; try discriminate.
    apply SP in Sx. apply SP in Sy. eapply SInv_unique; eauto; lia.
Qed.
