(* KeyProofs.v — proofs about HkdfModel and KeyModel (C20). *)
From Coq Require Import List NArith ZArith Bool Arith Lia ZifyBool ZifyNat ZifyN.
From Coq.Strings Require Import Byte.
From MV Require Import Bytes HkdfModel KeyModel.
From MV.gen Require Import GenKeys.
Import ListNotations.

Ltac Zify.zify_post_hook ::= Z.div_mod_to_equations.

(* ---- facts read off the generated file (a change in the source breaks these) ---- *)
Lemma max_rounds_255 : hkdf_max_rounds = 255%N.
Proof. reflexivity. Qed.
Lemma min_bytes_32 : key_len_min_bytes = 32%N.
Proof. reflexivity. Qed.
Lemma max_bytes_1024 : key_len_max_bytes = 1024%N.
Proof. reflexivity. Qed.
Lemma min_bits_256 : key_len_min_bits = 256%Z.
Proof. reflexivity. Qed.
Lemma max_bits_8192 : key_len_max_bits = 8192%Z.
Proof. reflexivity. Qed.
Lemma dfl_bytes_in_range : (key_len_min_bytes <= key_len_dfl_bytes <= key_len_max_bytes)%N.
Proof. vm_compute. split; discriminate. Qed.

(* ---- small list lemmas ---- *)
Lemma firstn_min_len {A} (l : list A) k : firstn (Nat.min (length l) k) l = firstn k l.
Proof.
  destruct (le_lt_dec (length l) k) as [Hle|Hlt].
  - rewrite Nat.min_l by exact Hle. rewrite firstn_all. symmetry. now apply firstn_all2.
  - rewrite Nat.min_r by lia. reflexivity.
Qed.

Lemma firstn_app_long {A} (a b : list A) k : k <= length a -> firstn k (a ++ b) = firstn k a.
Proof.
  intros Hk. rewrite firstn_app. replace (k - length a) with 0 by lia.
  cbn [firstn]. now rewrite app_nil_r.
Qed.

(* ====================================================================== *)
(* HKDF                                                                    *)
(* ====================================================================== *)
Section HkdfProofs.
  Variable hmac : bytes -> bytes -> bytes.
  Variable hash_len : nat.
  Hypothesis hmac_len : forall k d, length (hmac k d) = hash_len.
  Hypothesis hash_pos : 0 < hash_len.

  (* T(r+1) | ... | T(r+n) *)
  Fixpoint blocks (prk info : bytes) (r n : nat) : bytes :=
    match n with
    | O => []
    | S m => rfc_T hmac prk info (S r) ++ blocks prk info (S r) m
    end.

  Lemma T_len prk info i : length (rfc_T hmac prk info (S i)) = hash_len.
  Proof. cbn [rfc_T]. apply hmac_len. Qed.

  Lemma blocks_len prk info : forall n r, length (blocks prk info r n) = n * hash_len.
  Proof.
    induction n as [|m IH]; intros r; cbn [blocks]; [reflexivity|].
    rewrite app_length, T_len, IH. lia.
  Qed.

  Lemma blocks_app prk info : forall n m r,
    blocks prk info r (n + m) = blocks prk info r n ++ blocks prk info (r + n) m.
  Proof.
    induction n as [|k IH]; intros m r.
    - cbn [blocks plus app]. now rewrite Nat.add_0_r.
    - cbn [blocks plus]. rewrite IH, <- app_assoc.
      replace (S r + k) with (r + S k) by lia. reflexivity.
  Qed.

  Lemma Tcat_blocks prk info : forall n, rfc_Tcat hmac prk info n = blocks prk info 0 n.
  Proof.
    induction n as [|j IH]; [reflexivity|].
    cbn [rfc_Tcat]. rewrite IH.
    replace (S j) with (j + 1) at 2 by lia.
    rewrite blocks_app. cbn [blocks plus]. now rewrite app_nil_r.
  Qed.

  Lemma Tcat_len prk info n : length (rfc_Tcat hmac prk info n) = n * hash_len.
  Proof. rewrite Tcat_blocks. apply blocks_len. Qed.

  (* the loop invariant: entered after r < 255 completed rounds, with okm = T(r)
     (for r = 0 the buffer content is irrelevant), the loop appends the first
     [left] bytes of T(r+1) | ... | T(255) *)
  Lemma loop_spec prk info : forall fuel r left out okm,
    r < 255 -> left < fuel -> (0 < r -> okm = rfc_T hmac prk info r) ->
    expand_loop hmac fuel prk info (N.of_nat r) okm left out
    = out ++ firstn left (blocks prk info r (255 - r)).
  Proof.
    induction fuel as [|f IH]; intros r left out okm Hr Hf Hokm; [lia|].
    cbn [expand_loop].
    destruct (Nat.eqb left 0) eqn:E0.
    - apply Nat.eqb_eq in E0. subst left. cbn [firstn]. now rewrite app_nil_r.
    - apply Nat.eqb_neq in E0.
      assert (Er : N.modulo (N.of_nat r + 1) 256 = N.of_nat (S r)).
      { rewrite N.mod_small by lia. lia. }
      rewrite Er.
      assert (Eokm : (if N.ltb 1 (N.of_nat (S r)) then okm else []) = rfc_T hmac prk info r).
      { destruct (N.ltb 1 (N.of_nat (S r))) eqn:E1.
        - apply N.ltb_lt in E1. apply Hokm. lia.
        - apply N.ltb_ge in E1. assert (r = 0) by lia. subst r. reflexivity. }
      rewrite Eokm.
      change (hmac prk (rfc_T hmac prk info r ++ info ++ [n2b (N.of_nat (S r))]))
        with (rfc_T hmac prk info (S r)).
      pose proof (T_len prk info r) as Ht.
      set (t := rfc_T hmac prk info (S r)) in *.
      rewrite Ht.
      assert (Hfn : firstn (Nat.min hash_len left) t = firstn left t).
      { rewrite <- Ht. apply firstn_min_len. }
      rewrite max_rounds_255.
      destruct (N.eqb (N.of_nat (S r)) 255) eqn:E2.
      + apply N.eqb_eq in E2. assert (r = 254) by lia. subst r.
        change (255 - 254) with 1. cbn [blocks]. fold t.
        rewrite app_nil_r. now rewrite Hfn.
      + apply N.eqb_neq in E2.
        rewrite (IH (S r)); [|lia|lia|intros _; reflexivity].
        replace (255 - r) with (S (255 - S r)) by lia.
        cbn [blocks]. fold t.
        rewrite firstn_app, Ht, <- app_assoc, Hfn.
        do 2 f_equal.
        destruct (le_lt_dec left hash_len) as [Hle|Hlt].
        * rewrite Nat.min_r by exact Hle.
          replace (left - left) with 0 by lia. replace (left - hash_len) with 0 by lia. reflexivity.
        * rewrite Nat.min_l by lia. reflexivity.
  Qed.

  Lemma expand_spec prk info L :
    hkdf_expand hmac hash_len prk info L = firstn L (rfc_Tcat hmac prk info 255).
  Proof.
    unfold hkdf_expand. change 0%N with (N.of_nat 0).
    rewrite loop_spec; [|lia|lia|lia].
    cbn [app]. now rewrite Tcat_blocks.
  Qed.

  Lemma ceil_div_bounds L : L <= 255 * hash_len ->
    L <= ceil_div L hash_len * hash_len /\ ceil_div L hash_len <= 255.
  Proof.
    intros HL. unfold ceil_div.
    assert (Hh : hash_len <> 0) by lia.
    pose proof (Nat.div_mod (L + hash_len - 1) hash_len Hh) as Hdm.
    pose proof (Nat.mod_upper_bound (L + hash_len - 1) hash_len Hh) as Hm.
    set (q := (L + hash_len - 1) / hash_len) in *.
    set (m := (L + hash_len - 1) mod hash_len) in *.
    split.
    - rewrite Nat.mul_comm. lia.
    - assert (q < 256); [|lia].
      apply Nat.div_lt_upper_bound; [exact Hh|lia].
  Qed.

  (* hkdf.c's output is RFC 5869's, for every input inside the RFC's bound *)
  Theorem hkdf_is_rfc5869 : forall (salt : option bytes) (ikm info : bytes) (L : nat),
    L <= 255 * hash_len ->
    hkdf hmac hash_len salt (Some ikm) info L = rfc5869 hmac hash_len salt ikm info L
    /\ exists okm, hkdf hmac hash_len salt (Some ikm) info L = Some okm /\ length okm = L.
  Proof.
    intros salt ikm info L HL.
    unfold hkdf, rfc5869, hkdf_extract, salt_bytes, rfc_salt.
    set (prk := hmac match salt with Some s => s | None => repeat x00 hash_len end ikm).
    rewrite expand_spec.
    destruct (ceil_div_bounds L HL) as [H1 H2].
    split.
    - replace (Nat.ltb (255 * hash_len) L) with false by (symmetry; apply Nat.ltb_ge; exact HL).
      f_equal.
      replace 255 with (ceil_div L hash_len + (255 - ceil_div L hash_len)) at 1 by lia.
      rewrite !Tcat_blocks, blocks_app.
      apply firstn_app_long. rewrite blocks_len. exact H1.
    - eexists; split; [reflexivity|].
      rewrite firstn_length, Tcat_len. lia.
  Qed.

  (* outside the bound the code differs from the RFC: it returns success with
     exactly 255 blocks where the RFC defines no output *)
  Theorem hkdf_over_limit : forall (salt : option bytes) (ikm info : bytes) (L : nat),
    255 * hash_len < L ->
    rfc5869 hmac hash_len salt ikm info L = None /\
    hkdf hmac hash_len salt (Some ikm) info L
      = Some (rfc_Tcat hmac (hmac (rfc_salt hash_len salt) ikm) info 255) /\
    length (rfc_Tcat hmac (hmac (rfc_salt hash_len salt) ikm) info 255) = 255 * hash_len.
  Proof.
    intros salt ikm info L HL. unfold rfc5869, hkdf, hkdf_extract.
    replace (Nat.ltb (255 * hash_len) L) with true by (symmetry; apply Nat.ltb_lt; exact HL).
    split; [reflexivity|]. split.
    - rewrite expand_spec. f_equal. apply firstn_all2. rewrite Tcat_len. lia.
    - apply Tcat_len.
  Qed.

  Theorem hkdf_no_key : forall salt info L, hkdf hmac hash_len salt None info L = None.
  Proof. reflexivity. Qed.
End HkdfProofs.

(* ====================================================================== *)
(* --bits                                                                  *)
(* ====================================================================== *)
Theorem key_size_bits : forall bits : Z,
  match key_num_bytes (Some bits) with
  | Some n => (256 <= bits <= 8192)%Z /\ Z.of_N n = ((bits + 7) / 8)%Z /\ (32 <= n <= 1024)%N
  | None => (bits < 256 \/ 8192 < bits)%Z
  end.
Proof.
  intros bits. unfold key_num_bytes, parse_bits, conf_validate.
  rewrite min_bits_256, max_bits_8192, min_bytes_32, max_bytes_1024.
  destruct (Z.ltb bits 256) eqn:E1; cbn [orb].
  - left. lia.
  - destruct (Z.ltb 8192 bits) eqn:E2.
    + right. lia.
    + set (q := ((bits + 7) / 8)%Z).
      assert (Hq : (32 <= q <= 1024)%Z) by (subst q; lia).
      destruct (Z.ltb (Z.of_N 1024) q) eqn:E3; [lia|].
      destruct (Z.ltb q (Z.of_N 32)) eqn:E4; [lia|].
      cbn [negb andb]. lia.
Qed.

Theorem key_size_default : key_num_bytes None = Some key_len_dfl_bytes.
Proof. vm_compute. reflexivity. Qed.

Lemma key_num_bytes_range bits n : key_num_bytes bits = Some n -> (32 <= n <= 1024)%N.
Proof.
  destruct bits as [b|].
  - intros H. pose proof (key_size_bits b) as K. rewrite H in K. tauto.
  - rewrite key_size_default. intros H. inversion H. vm_compute. split; discriminate.
Qed.

(* ====================================================================== *)
(* modes                                                                   *)
(* ====================================================================== *)
Lemma land_ldiff a u m : N.land (N.ldiff a u) m = N.ldiff (N.land a m) u.
Proof.
  apply N.bits_inj. intros i.
  rewrite N.land_spec, !N.ldiff_spec, N.land_spec.
  destruct (N.testbit a i), (N.testbit u i), (N.testbit m i); reflexivity.
Qed.

(* 0o077 = 63: the group and other permission bits; 0o7000 = 3584: setuid/setgid/sticky *)
Theorem mode_private_any_umask : forall umask : N,
  N.land (N.ldiff key_open_mode umask) 63 = 0%N.
Proof. intros u. rewrite land_ldiff. reflexivity. Qed.

(* the same, by brute force over the 512 umask values *)
Lemma mode_private_sweep :
  allb 512 (fun u => N.eqb (N.land (N.ldiff key_open_mode u) 63) 0) = true.
Proof. vm_compute. reflexivity. Qed.

Theorem mode_private_512 : forall umask : N, (umask < 512)%N ->
  N.land (N.ldiff key_open_mode umask) 63 = 0%N.
Proof.
  intros u Hu. apply N.eqb_eq.
  exact (allb_spec 512 _ mode_private_sweep u Hu).
Qed.

Lemma no_mode_calls : key_mode_calls = 0%N.
Proof. reflexivity. Qed.

(* ====================================================================== *)
(* create_key                                                              *)
(* ====================================================================== *)
Lemma fs_set_same fs p v : fs_set fs p v p = v.
Proof. unfold fs_set. now rewrite N.eqb_refl. Qed.
Lemma fs_set_other fs p v q : q <> p -> fs_set fs p v q = fs q.
Proof. intros H. unfold fs_set. apply N.eqb_neq in H. now rewrite H. Qed.

(* existing path and no --force: error, nothing changed *)
Theorem never_overwrites : forall fs p f umask nbytes secret,
  fs p = Some f ->
  fst (create_key fs p false umask nbytes secret) = false /\
  forall q, snd (create_key fs p false umask nbytes secret) q = fs q.
Proof.
  intros fs p f umask nbytes secret Hp.
  unfold create_key.
  change key_noforce_unlinks with false. cbv iota.
  unfold sys_open. rewrite Hp.
  change (key_open_creat && key_open_excl) with true. cbv iota.
  split; [reflexivity|]. intros q. reflexivity.
Qed.

(* path free, or --force: the key is written into a newly created file whose mode is
   key_open_mode & ~umask and whose content is exactly the secret (no residue of
   an old file); no other name is touched *)
Theorem create_key_fresh : forall fs p force umask nbytes s,
  fs p = None \/ force = true ->
  fst (create_key fs p force umask nbytes (Some s)) = true /\
  snd (create_key fs p force umask nbytes (Some s)) p
    = Some (mkfile (N.ldiff key_open_mode umask) (firstn nbytes s)) /\
  forall q, q <> p -> snd (create_key fs p force umask nbytes (Some s)) q = fs q.
Proof.
  intros fs p force umask nbytes s H.
  unfold create_key.
  set (fs1 := if (if force then key_force_unlinks else key_noforce_unlinks)
              then sys_unlink fs p else fs).
  assert (H1 : fs1 p = None).
  { subst fs1. destruct force.
    - change key_force_unlinks with true. cbv iota. unfold sys_unlink. apply fs_set_same.
    - change key_noforce_unlinks with false. cbv iota. destruct H as [H|H]; [exact H|discriminate]. }
  assert (H2 : forall q, q <> p -> fs1 q = fs q).
  { intros q Hq. subst fs1.
    destruct (if force then key_force_unlinks else key_noforce_unlinks); [|reflexivity].
    unfold sys_unlink. now apply fs_set_other. }
  unfold sys_open. rewrite H1.
  change key_open_creat with true. cbv iota. cbn [fst snd].
  unfold sys_write. rewrite fs_set_same. cbn [f_mode f_data].
  split; [reflexivity|]. split.
  - rewrite fs_set_same. f_equal. f_equal.
    rewrite skipn_nil. apply app_nil_r.
  - intros q Hq. rewrite !fs_set_other by exact Hq. now apply H2.
Qed.

(* the order of the system calls with --force, as observed on key.c *)
Lemma force_sequence :
  key_force_unlinks = true /\ key_force_unlink_first = true /\ key_force_open_excl = true /\
  key_open_excl = true /\ key_open_creat = true /\ key_open_trunc = false /\
  key_noforce_unlinks = false /\ key_force_open_mode = key_open_mode /\ key_open_calls = 1%N.
Proof. repeat split. Qed.

(* a failing _create_key_secret leaves an empty private file behind (a remark
   about the code as it is, not part of the property) *)
Lemma secret_failure_leaves_empty_file : forall fs p umask nbytes,
  fs p = None ->
  snd (create_key fs p false umask nbytes None) p = Some (mkfile (N.ldiff key_open_mode umask) []).
Proof.
  intros fs p umask nbytes Hp. unfold create_key.
  change key_noforce_unlinks with false. cbv iota. unfold sys_open. rewrite Hp.
  change key_open_creat with true. cbv iota. cbn [snd]. apply fs_set_same.
Qed.

(* ---- the key material ---- *)
Lemma key_fits_hkdf : (key_len_max_bytes <= 255 * digest_len key_hkdf_md)%N.
Proof. vm_compute. discriminate. Qed.

Lemma key_digest_positive : (0 < digest_len key_hkdf_md)%N.
Proof. vm_compute. reflexivity. Qed.

Lemma key_entropy_source : key_ikm_from_entropy_read = true /\ key_ikm_len = 256%N /\ key_salt_len = 4%N.
Proof. repeat split. Qed.

(* the info string of the model equals the one key.c built for the probed size *)
Lemma key_info_matches_code : key_info key_info_sample_bytes = map n2b key_info_sample.
Proof. vm_compute. reflexivity. Qed.

Section KeyFile.
  Variable hmac : bytes -> bytes -> bytes.
  Variable hash_len : nat.
  Hypothesis hmac_len : forall k d, length (hmac k d) = hash_len.
  Hypothesis hash_is_key_digest : hash_len = N.to_nat (digest_len key_hkdf_md).

  (* mungekey end to end: accepted size n; path free or --force; ikm from the
     kernel, salt from entropy_read_uint.  The file holds exactly n bytes, they
     are RFC 5869's HKDF output, the mode has no group/other bit for any umask,
     and no other file is touched. *)
  Theorem key_file_exact : forall fs p force umask bits n ikm salt,
    key_num_bytes bits = Some n ->
    fs p = None \/ force = true ->
    exists okm,
      key_secret hmac hash_len ikm salt (N.to_nat n) = Some okm /\
      rfc5869 hmac hash_len (Some salt) ikm (key_info n) (N.to_nat n) = Some okm /\
      length okm = N.to_nat n /\
      let r := create_key fs p force umask (N.to_nat n) (Some okm) in
      fst r = true /\
      snd r p = Some (mkfile (N.ldiff key_open_mode umask) okm) /\
      N.land (N.ldiff key_open_mode umask) 63 = 0%N /\
      forall q, q <> p -> snd r q = fs q.
  Proof.
    intros fs p force umask bits n ikm salt Hn Hp.
    pose proof (key_num_bytes_range bits n Hn) as Hr.
    pose proof key_fits_hkdf as Hfit. pose proof key_digest_positive as Hpos.
    rewrite max_bytes_1024 in Hfit.
    assert (Hh : 0 < hash_len) by lia.
    assert (HL : N.to_nat n <= 255 * hash_len) by lia.
    destruct (hkdf_is_rfc5869 hmac hash_len hmac_len Hh (Some salt) ikm
                (key_info (N.of_nat (N.to_nat n))) (N.to_nat n) HL) as [Heq [okm [Hk Hlen]]].
    rewrite N2Nat.id in Heq, Hk.
    exists okm. unfold key_secret. rewrite N2Nat.id.
    split; [exact Hk|]. split; [rewrite <- Heq; exact Hk|]. split; [exact Hlen|].
    destruct (create_key_fresh fs p force umask (N.to_nat n) okm Hp) as [A [B C]].
    cbv zeta. split; [exact A|]. split.
    - rewrite B. do 2 f_equal. apply firstn_all2. lia.
    - split; [apply mode_private_any_umask|exact C].
  Qed.
End KeyFile.

(* ====================================================================== *)
(* create_subkeys                                                          *)
(* ====================================================================== *)
Section SubkeyProofs.
  Variable st : Type.
  Variable hinit : st.
  Variable hupd : st -> bytes -> st.
  Variable hfin : st -> bytes.
  (* premise on the digest: updating in pieces = updating with the concatenation *)
  Hypothesis hupd_app : forall s a b, hupd (hupd s a) b = hupd s (a ++ b).

  Notation Hh := (H st hinit hupd hfin).

  Lemma fold_upd : forall cs s x,
    hupd (fold_left hupd cs s) x = hupd s (concat cs ++ x).
  Proof.
    induction cs as [|c r IH]; intros s x; cbn [fold_left concat app]; [reflexivity|].
    rewrite IH, hupd_app, app_assoc. reflexivity.
  Qed.

  Lemma fold_len : forall (cs : list bytes) a,
    fold_left (fun a c => a + length c) cs a = a + length (concat cs).
  Proof.
    induction cs as [|c r IH]; intros a; cbn [fold_left concat]; [cbn; lia|].
    rewrite IH, app_length. lia.
  Qed.

  (* for every way read() may split the file (short reads included) *)
  Theorem subkeys_any_chunking : forall cs : list bytes,
    subkeys_of_chunks st hinit hupd hfin cs = subkeys_spec st hinit hupd hfin (concat cs).
  Proof.
    intros cs. unfold subkeys_of_chunks, subkeys_spec, H.
    rewrite fold_len, min_bytes_32. cbn [plus].
    change (N.to_nat 32) with 32.
    destruct (Nat.ltb (length (concat cs)) 32); [reflexivity|].
    now rewrite !fold_upd.
  Qed.

  Lemma read_chunks_concat n : 0 < n -> forall fuel l, length l < fuel ->
    concat (read_chunks fuel n l) = l.
  Proof.
    intros Hn. induction fuel as [|f IH]; intros l Hl; [lia|].
    cbn [read_chunks]. destruct l as [|x r]; [reflexivity|].
    cbn [concat]. rewrite IH.
    - apply firstn_skipn.
    - rewrite skipn_length. cbn [length] in *. lia.
  Qed.

  Theorem create_subkeys_spec : forall content,
    create_subkeys st hinit hupd hfin content = subkeys_spec st hinit hupd hfin content.
  Proof.
    intros content. unfold create_subkeys. rewrite subkeys_any_chunking.
    rewrite read_chunks_concat; [reflexivity|unfold subkeys_buf; lia|lia].
  Qed.

  Theorem short_key_refused : forall content, length content < 32 ->
    create_subkeys st hinit hupd hfin content = None.
  Proof.
    intros content Hl. rewrite create_subkeys_spec. unfold subkeys_spec.
    replace (Nat.ltb (length content) 32) with true by (symmetry; apply Nat.ltb_lt; exact Hl).
    reflexivity.
  Qed.

  Theorem long_key_whole_file : forall content, 32 <= length content ->
    create_subkeys st hinit hupd hfin content
    = Some (Hh (content ++ ["1"%byte]), Hh (content ++ ["2"%byte])).
  Proof.
    intros content Hl. rewrite create_subkeys_spec. unfold subkeys_spec.
    replace (Nat.ltb (length content) 32) with false by (symmetry; apply Nat.ltb_ge; exact Hl).
    reflexivity.
  Qed.

  (* files that differ anywhere (any offset, any lengths) give different digest
     inputs; turning that into different subkeys is SHA-1's collision resistance *)
  Theorem different_files_different_inputs : forall (k1 k2 : bytes) (c d : byte),
    k1 <> k2 -> k1 ++ [c] <> k2 ++ [c] /\ (c <> d -> k1 ++ [c] <> k2 ++ [d]).
  Proof.
    intros k1 k2 c d Hne. split.
    - intros E. apply app_inv_tail in E. contradiction.
    - intros Hcd E. apply app_inj_tail in E. destruct E as [_ E]. contradiction.
  Qed.

  (* single-byte difference at offset i < length: the inputs differ at offset i *)
  Theorem differ_at_offset : forall (k1 k2 : bytes) (i : nat) (c : byte),
    i < length k1 -> i < length k2 -> nth_error k1 i <> nth_error k2 i ->
    nth_error (k1 ++ [c]) i <> nth_error (k2 ++ [c]) i.
  Proof.
    intros k1 k2 i c H1 H2 Hne.
    rewrite !nth_error_app1 by assumption. exact Hne.
  Qed.

  (* reduction: two acceptable key files that differ but produce the same subkeys
     exhibit a collision of the digest *)
  Theorem equal_subkeys_collision : forall k1 k2 : bytes,
    32 <= length k1 -> 32 <= length k2 -> k1 <> k2 ->
    create_subkeys st hinit hupd hfin k1 = create_subkeys st hinit hupd hfin k2 ->
    exists a b, a <> b /\ Hh a = Hh b.
  Proof.
    intros k1 k2 L1 L2 Hne E.
    rewrite !long_key_whole_file in E by assumption.
    inversion E as [[E1 E2]].
    exists (k1 ++ ["1"%byte]), (k2 ++ ["1"%byte]). split; [|exact E1].
    exact (proj1 (different_files_different_inputs k1 k2 "1"%byte "1"%byte Hne)).
  Qed.

  (* PARTIAL: what is proved of "two daemons honour each other's credentials exactly when
     their key files are byte-identical" — at the level of the subkeys that key the MAC
     and the cipher.  Missing for the full statement: the credential pipeline model
     (C01/C02: a credential is honoured iff its MAC verifies under the decoder's mac
     subkey) and the step from "different subkeys" to "refused", which is HMAC
     unforgeability, not a Coq statement; the two-live-daemon test is left to the rig. *)
  Theorem cross_acceptance_partial : forall k1 k2 : bytes,
    32 <= length k1 -> 32 <= length k2 ->
    (k1 = k2 -> create_subkeys st hinit hupd hfin k1 = create_subkeys st hinit hupd hfin k2) /\
    (create_subkeys st hinit hupd hfin k1 = create_subkeys st hinit hupd hfin k2 ->
     k1 = k2 \/ exists a b, a <> b /\ Hh a = Hh b).
  Proof.
    intros k1 k2 L1 L2. split.
    - intros ->. reflexivity.
    - intros E. destruct (list_eq_dec Byte.byte_eq_dec k1 k2) as [Heq|Hne]; [left; exact Heq|].
      right. exact (equal_subkeys_collision k1 k2 L1 L2 Hne E).
  Qed.
End SubkeyProofs.
