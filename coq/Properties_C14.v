(* Properties_C14.v — statements only (being built). *)
From Coq Require Import List NArith ZArith Bool.
From MV Require Import Bytes MsgModel.
From MV.gen Require Import GenMsg.

Theorem C14_symmetric_lists : forall lim, lists_agree lim = true.
Proof. intros lim. reflexivity. Qed.
Print Assumptions C14_symmetric_lists.
