(* Properties_C14.v — statements only.  The client<->daemon codec is lossless and never trusts a length
   (model: MsgModel; constants, type codes, member widths, sizeof (m->addr) and the measured bound on
   DEC_RSP addr_len are regenerated from src/libcommon/m_msg.[ch] on every run).

   lim = the largest addr_len that the DEC_RSP unpacker lets through to the copy into m->addr.  The
   positive theorems hold for every lim <= sizeof_addr (the repaired code); for every larger lim they are
   refuted (the code before the repair of defect D2 had no check: lim = 255).  C14_repo_guard ties the
   repository's measured value to the positive side. *)
From Coq Require Import List NArith ZArith Bool.
From Coq.Strings Require Import Byte.
From MV Require Import Bytes MsgModel MsgProofs.
From MV.gen Require Import GenMsg.
Import ListNotations.
Local Open Scope Z_scope.

(* ---- pack, then unpack: the same field values ------------------------------------------------------ *)
(* for each of the six types, every message in range (u8 < 256, u32 < 2^32, variable lengths < 2^31 with
   that many bytes behind the pointer, addr_len <= sizeof addr and <= lim), whatever the receiving
   object acc holds: the carried members come out as they went in, nothing else is touched *)
Theorem C14_pack_unpack : forall lim hp t m acc body q0,
  (forall z, hp z = true) -> in_range lim t m ->
  pack_list (pack_fields t) m 0 q0 = POk body ->
  fst (msg_unpack_g lim hp (code_of t) body (Z.of_nat (length body)) acc)
  = UOk (restrict t m acc) (Z.of_nat (length body)).
Proof. exact pack_unpack. Qed.
Print Assumptions C14_pack_unpack.

(* m_msg_send on one side, m_msg_recv on the other (daemon: maxlen' = MUNGE_MAXIMUM_REQ_LEN, exptype =
   UNDEF; client: maxlen' = 0, exptype = the response type) *)
Theorem C14_send_recv : forall lim hp t m maxlen exptype maxlen' acc,
  t <> T_HDR -> (forall z, hp z = true) -> u32_vals m -> in_range_list (unpack_fields_g lim t) m ->
  (nv m Nretry < 256)%N ->
  0 < sum_sizes (len_fields t) m < two31 ->
  (maxlen <= 0 \/ sum_sizes (len_fields t) m <= maxlen) ->
  (maxlen' <= 0 \/ sum_sizes (len_fields t) m <= maxlen') ->
  (exptype = mt_undef \/ exptype = code_of t) ->
  exists wire, send hp (code_of t) m maxlen = SOk wire
    /\ Z.of_nat (length wire) = Z.of_N msg_hdr_size + msg_length t m
    /\ fst (recv_g lim hp wire exptype maxlen' acc) = ROk (recv_expect t m acc (msg_length t m)).
Proof. exact send_recv. Qed.
Print Assumptions C14_send_recv.

(* ... where the received message has, member by member: *)
Theorem C14_received_members : forall t m acc n, t <> T_HDR ->
  nv (recv_expect t m acc n) Ntype = code_of t
  /\ nv (recv_expect t m acc n) Nretry = nv m Nretry
  /\ nv (recv_expect t m acc n) Npkt_len = 0%N
  /\ bv (recv_expect t m acc n) Bpkt = None
  /\ err_local (recv_expect t m acc n) = err_local acc
  /\ (forall f, carries_n (pack_fields t) f = true -> nv (recv_expect t m acc n) f = nv m f)
  /\ (forall f, carries_n (pack_fields t) f = false -> carries_n (pack_fields T_HDR) f = false ->
                nv (recv_expect t m acc n) f = nv acc f)
  /\ (forall b, carries_b (pack_fields t) b = false -> b <> Bpkt -> bv (recv_expect t m acc n) b = bv acc b)
  /\ (forall b lf, In (Var b lf Heap) (pack_fields t) ->
        bv (recv_expect t m acc n) b
        = if (nv m lf =? 0)%N then bv acc b else Some (firstn (N.to_nat (nv m lf)) (content m b)))
  /\ (forall b lf cap lim, In (Var b lf (Fixed cap lim)) (pack_fields t) ->
        bv (recv_expect t m acc n) b
        = if (nv m lf =? 0)%N then bv acc b
          else Some (firstn (N.to_nat (nv m lf)) (content m b) ++ skipn (N.to_nat (nv m lf)) (content acc b))).
Proof. exact recv_expect_members. Qed.
Print Assumptions C14_received_members.

(* ---- the computed length is the number of bytes produced ---------------------------------------- *)
Theorem C14_length_exact : forall t m q out, u32_vals m ->
  pack_list (pack_fields t) m 0 q = POk out -> Z.of_nat (length out) = sum_sizes (len_fields t) m.
Proof. exact length_exact. Qed.
Print Assumptions C14_length_exact.

(* and a buffer of exactly _msg_length bytes is enough and is filled completely *)
Theorem C14_length_suffices : forall lim t m, u32_vals m -> in_range_list (unpack_fields_g lim t) m ->
  0 < sum_sizes (len_fields t) m < two31 ->
  msg_length t m = sum_sizes (len_fields t) m
  /\ exists out, pack_list (pack_fields t) m 0 (msg_length t m) = POk out
                 /\ Z.of_nat (length out) = msg_length t m.
Proof. exact pack_total. Qed.
Print Assumptions C14_length_suffices.

(* ---- unpacking anything: total, reads inside the buffer, writes inside the destination ----------- *)
(* every type code (any N, so 0..255 in particular), every byte string, every state of the receiving
   object, every allocator: the result is a message or an error code, every read lies inside the
   received buffer, every write inside its destination (member or heap block of len + 1 bytes) *)
Theorem C14_unpack_total_and_bounded : forall lim hp code body m,
  (lim <= sizeof_addr)%N ->
  ures_final (fst (msg_unpack_g lim hp code body (Z.of_nat (length body)) m))
  /\ Forall ev_ok (snd (msg_unpack_g lim hp code body (Z.of_nat (length body)) m)).
Proof. intros. apply msg_unpack_total_bounded; [assumption|apply Z.le_refl]. Qed.
Print Assumptions C14_unpack_total_and_bounded.

(* the whole receive path (munged: exptype = UNDEF, maxlen = MUNGE_MAXIMUM_REQ_LEN; libmunge: the
   response type, maxlen = 0), for every byte stream that arrives before EOF *)
Theorem C14_recv_total_and_bounded : forall lim hp stream exptype maxlen m,
  (lim <= sizeof_addr)%N ->
  rres_final (fst (recv_g lim hp stream exptype maxlen m))
  /\ Forall ev_ok (snd (recv_g lim hp stream exptype maxlen m)).
Proof. exact recv_total_bounded. Qed.
Print Assumptions C14_recv_total_and_bounded.

(* ---- defect D2: without the bound the copy into m->addr leaves the member, and the object -------- *)
Theorem C14_addr_unguarded_refuted :
  exists body m' cap len,
    fst (msg_unpack_g 255 (fun _ => true) mt_dec_rsp body (Z.of_nat (length body)) msg0) = UFault m'
    /\ In (Wr cap 0 len) (snd (msg_unpack_g 255 (fun _ => true) mt_dec_rsp body (Z.of_nat (length body)) msg0))
    /\ cap = Z.of_N sizeof_addr /\ len = 255 /\ cap < len
    /\ Z.of_N sizeof_m_msg < Z.of_N off_addr + len.
Proof. exact addr_unguarded_refuted. Qed.
Print Assumptions C14_addr_unguarded_refuted.

(* any bound above the size of the member is refuted by addr_len = that bound *)
Theorem C14_any_larger_bound_refuted : forall lim, (sizeof_addr < lim)%N -> (lim < 256)%N ->
  d2_faults lim lim = true.
Proof. exact unguarded_faults. Qed.
Print Assumptions C14_any_larger_bound_refuted.

(* ---- the three tables (length, pack, unpack) agree; widths are the members' sizeof; every variable
        field follows its length field; no member twice ------------------------------------------------- *)
Theorem C14_symmetric_lists : forall lim, lists_agree lim = true.
Proof. exact lists_agree_all. Qed.
Print Assumptions C14_symmetric_lists.

Theorem C14_tables_widths_order : forall lim,
  forallb (fun t => widths_ok (pack_fields t) && widths_ok (unpack_fields_g lim t) && widths_ok (len_fields t)
                    && order_ok [] [] (pack_fields t) && order_ok [] [] (unpack_fields_g lim t)) all_types = true.
Proof. exact tables_widths_order. Qed.
Print Assumptions C14_tables_widths_order.

(* ---- the repository: the measured bound protects the member --------------------------------------- *)
(* measured on the current source: the DEC_RSP unpacker accepts addr_len up to exactly sizeof (m->addr) *)
Theorem C14_repo_guard :
  dec_rsp_probe_accepted = true /\ addr_len_accept_max = sizeof_addr /\ all_guarded addr_len_accept_max = true.
Proof. repeat split. Qed.
Print Assumptions C14_repo_guard.

Theorem C14_repo_recv_total_and_bounded : forall hp stream exptype maxlen m,
  rres_final (fst (recv hp stream exptype maxlen m)) /\ Forall ev_ok (snd (recv hp stream exptype maxlen m)).
Proof. intros. apply recv_total_bounded. rewrite (proj1 (proj2 C14_repo_guard)). apply N.le_refl. Qed.
Print Assumptions C14_repo_recv_total_and_bounded.

(* ---- the daemon's receive path (job.c): every byte stream ends in "no reply, close" or in a request
        that is handed to enc_process_msg / dec_process_msg in a consistent state: type ENC_REQ / DEC_REQ,
        pkt released, no error recorded, every variable member either (length 0, NULL) or a block of exactly
        its length (+ NUL) with 0 < length <= MUNGE_MAXIMUM_REQ_LEN.  This includes type code 1 as a body:
        the nested header overwrites type / retry / pkt_len and the dispatcher then sees an all-zero
        request.  The reply to such a request is a send of ENC_RSP / DEC_RSP (C14_send_recv with
        exptype = the response type and maxlen' = 0 is the client's side of it). ----------------------- *)
Theorem C14_recv_dispatch : forall lim hp stream, (lim <= sizeof_addr)%N -> job_ok (job_exec_g lim hp stream).
Proof. exact recv_dispatch. Qed.
Print Assumptions C14_recv_dispatch.

Theorem C14_repo_recv_dispatch : forall hp stream, job_ok (job_exec hp stream).
Proof. intros. apply recv_dispatch. rewrite (proj1 (proj2 C14_repo_guard)). apply N.le_refl. Qed.
Print Assumptions C14_repo_recv_dispatch.

(* type code 1 as a body, nested type ENC_REQ: dispatched as an encode request with no data *)
Example C14_nested_header_example :
  exists m, job_exec_g sizeof_addr (fun _ => true)
              (hdr_bytes mt_hdr 0 11 ++ hdr_bytes mt_enc_req 7 0) = JEnc m
            /\ nv m Nretry = 7%N /\ nv m Ndata_len = 0%N /\ bv m Bdata = None /\ nv m Npkt_len = 0%N.
Proof. eexists. split; [vm_compute; reflexivity|]. repeat split. Qed.

(* non-vacuity: an in-range DEC_RSP message with all variable members present survives the trip *)
Example C14_roundtrip_example :
  let m := setb (setb (setb (setb (setn (setn (setn (setn (setn msg0 Nerror_len 3) Nrealm_len 2) Naddr_len 4)
             Ndata_len 5) Nttl 300) Berror (Some ["o";"k";x00]%byte)) Brealm (Some ["r";x00]%byte))
             Baddr (Some [x7f;x00;x00;x01]%byte)) Bdata (Some ["h";"e";"l";"l";"o"]%byte) in
  in_range sizeof_addr T_DEC_RSP m
  /\ exists wire, send (fun _ => true) mt_dec_rsp m 0 = SOk wire
       /\ length wire = 64%nat
       /\ exists m', fst (recv_g sizeof_addr (fun _ => true) wire mt_dec_rsp 0 msg0) = ROk m'
            /\ bv m' Bdata = Some ["h";"e";"l";"l";"o"]%byte /\ bv m' Baddr = Some [x7f;x00;x00;x01]%byte
            /\ nv m' Nttl = 300%N.
Proof.
  cbv zeta. split.
  - split; [|discriminate]. cbn. repeat split; try (vm_compute; reflexivity);
      intros _; eexists; (split; [reflexivity|]); repeat split; vm_compute; congruence.
  - eexists. split; [vm_compute; reflexivity|]. split; [reflexivity|].
    eexists. split; [vm_compute; reflexivity|]. repeat split.
Qed.

(* ---- translator tie: the three field tables the theorems above speak of are the ones a translator reads off
        the current text of _msg_length / _msg_pack / _msg_unpack in m_msg.c (order, widths from m_msg.h,
        _alloc/_copy pairing, the addr_len bound) — regenerated on every run --------------------------------- *)
From MV Require Import MsgSource.
From MV.gen Require Import GenMsgTables.
Theorem C14_tables_are_the_source : forall t : mtype,
  src_len_fields t = len_fields t /\ src_pack_fields t = pack_fields t /\ src_unpack_fields t = unpack_fields t.
Proof. exact tables_match_source. Qed.
Print Assumptions C14_tables_are_the_source.

(* ======================================================================================================== *)
(*  "... in libmunge, whatever type its header and body claim ... ends in a well-formed message or an error" *)
(*  (model: MsgClientModel = m_msg_client_xfer + munge_decode / munge_encode on top of MsgModel; the peer is  *)
(*  any list of byte strings, one per connection the client opens)                                           *)
(* ======================================================================================================== *)
From MV Require Import MsgClientModel MsgClientProofs MsgClientSource.
From MV.gen Require Import GenMsgClient GenMsgClientCopy.

(* ---- unpack, then pack what it left: the bytes consumed (the converse of C14_pack_unpack) ------------------- *)
(* every type, every byte string, every state of the receiving object, every lim and allocator *)
Theorem C14_unpack_then_pack : forall lim hp t body m m' p',
  fst (msg_unpack_g lim hp (code_of t) body (Z.of_nat (length body)) m) = UOk m' p' ->
  0 <= p' <= Z.of_nat (length body)
  /\ pack_list (pack_fields t) m' 0 (Z.of_nat (length body)) = POk (firstn (Z.to_nat p') body).
Proof. exact unpack_then_pack. Qed.
Print Assumptions C14_unpack_then_pack.

(* ---- m_msg_recv with an expected type, into a fresh object: success means that the bytes on the connection
        are the magic, the version, THE EXPECTED TYPE, a retry count and the body length, followed by a body that
        begins with the packing of the members received; every other member is that of a fresh object; every
        heap member is NULL with length 0 or a block of exactly its length (carries_msg, unfolded here) -------- *)
Theorem C14_client_recv_carries : forall lim hp stream t maxlen m, t <> T_HDR ->
  fst (recv_g lim hp stream (code_of t) maxlen msg0) = ROk m ->
  exists retry body rest p,
    stream = hdr_bytes (code_of t) retry (Z.of_nat (length body)) ++ body ++ rest
    /\ (retry < 256)%N /\ 0 < Z.of_nat (length body) < two31 /\ 0 <= p <= Z.of_nat (length body)
    /\ pack_list (pack_fields t) m 0 (Z.of_nat (length body)) = POk (firstn (Z.to_nat p) body)
    /\ nv m Ntype = code_of t /\ nv m Nretry = retry /\ nv m Npkt_len = 0%N /\ bv m Bpkt = None
    /\ err_local m = false
    /\ (forall f, carries_n (pack_fields t) f = false -> carries_n (pack_fields T_HDR) f = false -> nv m f = nv msg0 f)
    /\ (forall b, carries_b (pack_fields t) b = false -> b <> Bpkt -> bv m b = bv msg0 b)
    /\ (forall b lf, In (Var b lf Heap) (pack_fields t) ->
          (nv m lf = 0%N /\ bv m b = None)
          \/ (exists l, bv m b = Some l /\ Z.of_nat (length l) = Z.of_N (nv m lf) /\ (0 < nv m lf)%N)).
Proof. exact recv_ok_carries. Qed.
Print Assumptions C14_client_recv_carries.

(* ---- munge_decode: for every credential string and EVERY list of byte strings the peer may answer with (one per
        attempt; a missing one is an immediate EOF), every allocator, every sanity check acc in _decode_rsp, and every
        choice ex of the expected type that is DEC_RSP for a decode request: the call ends in
          - an error (return value <> EMUNGE_SUCCESS) and every output keeps the value _decode_init gave it, or
          - exactly the members (dec_out) of a well-formed DEC_RSP carried by one of the first xfer_attempts answers.
        (send ... <> SFault: the request object is one m_msg_send can pack - C14_client_dec_req_sendable) --------- *)
Theorem C14_client_decode_wellformed : forall lim hp ex acc cred peer,
  (lim <= sizeof_addr)%N ->
  (forall x, ex mt_dec_req = Some x -> x = mt_dec_rsp) ->
  (forall r, send hp mt_dec_req (setn (dec_req cred) Nretry r) xfer_send_maxlen <> SFault) ->
  exists r, fst (client_decode_g lim hp ex acc cred peer) = Some r
    /\ ((d_err r <> 0%N /\ exists s, r = dec_fail (d_err r) s)
        \/ (exists k m, (k < N.to_nat xfer_attempts)%nat /\ carries_msg T_DEC_RSP (nth k peer []) m /\ r = dec_out m)).
Proof. exact client_decode_wf. Qed.
Print Assumptions C14_client_decode_wellformed.

Theorem C14_client_dec_req_sendable : forall hp cred r maxlen,
  send hp mt_dec_req (setn (dec_req cred) Nretry r) maxlen <> SFault.
Proof. exact dec_req_no_fault. Qed.
Print Assumptions C14_client_dec_req_sendable.

(* ---- munge_encode: the same, for any request object m_msg_send can pack; success additionally needs data_len > 0 *)
Theorem C14_client_encode_wellformed : forall lim hp ex acc mreq peer,
  (lim <= sizeof_addr)%N ->
  (forall x, ex mt_enc_req = Some x -> x = mt_enc_rsp) ->
  (forall r, send hp mt_enc_req (setn mreq Nretry r) xfer_send_maxlen <> SFault) ->
  exists r, fst (client_encode_g lim hp ex acc mreq peer) = Some r
    /\ ((e_err r <> 0%N /\ exists s, r = enc_fail (e_err r) s)
        \/ (exists k m, (k < N.to_nat xfer_attempts)%nat /\ carries_msg T_ENC_RSP (nth k peer []) m
                        /\ nv m Ndata_len <> 0%N /\ r = enc_out m)).
Proof. exact client_encode_wf. Qed.
Print Assumptions C14_client_encode_wellformed.

(* ---- refuted when the response is received without the expected type (m_msg_recv (mrsp, MUNGE_MSG_UNDEF, 0)),
        even with the sanity check of _decode_rsp in place: a header of type HDR whose body is a packed header
        naming DEC_RSP gives EMUNGE_SUCCESS, uid 0, gid 0, an all-zero context - and no answer of the peer carries a
        DEC_RSP ------------------------------------------------------------------------------------------------ *)
Theorem C14_client_unchecked_type_refuted :
  exists cred peer r,
    fst (client_decode_g sizeof_addr (fun _ => true) (fun _ => Some mt_undef) (fun t => (t =? mt_dec_rsp)%N)
           cred peer) = Some r
    /\ d_err r = 0%N /\ d_uid r = 0%N /\ d_gid r = 0%N /\ d_len r = 0 /\ d_ctx r <> dctx_init
    /\ forall s m, In s peer -> ~ carries_msg T_DEC_RSP s m.
Proof. exact client_unchecked_type_refuted. Qed.
Print Assumptions C14_client_unchecked_type_refuted.

(* ---- the repository: measured by running m_msg_client.c / decode.c / encode.c of the current source ----------- *)
(* the expected type handed to m_msg_recv is the response type of the request (the measurement saw one type per
   request code, the same on every attempt); the sanity
   checks of _decode_rsp / _encode_rsp let the response type through; the context's addr is as wide as the message's.
   (The two maxlen arguments, the number of attempts and what else the sanity checks accept do not matter for the
   theorems above - they hold for every value - and are not pinned here.) *)
Theorem C14_repo_client_parameters :
  xfer_exptype mt_enc_req = Some mt_enc_rsp /\ xfer_exptype mt_dec_req = Some mt_dec_rsp
  /\ xfer_measure_consistent = true /\ (1 <= xfer_attempts)%N
  /\ dec_rsp_accepts mt_dec_rsp = true /\ enc_rsp_accepts mt_enc_rsp = true
  /\ sizeof_ctx_addr = sizeof_addr.
Proof.
  repeat split; try reflexivity; try discriminate.
Qed.
Print Assumptions C14_repo_client_parameters.

Theorem C14_repo_client_decode : forall hp cred peer,
  exists r, fst (client_decode hp cred peer) = Some r
    /\ ((d_err r <> 0%N /\ exists s, r = dec_fail (d_err r) s)
        \/ (exists k m, (k < N.to_nat xfer_attempts)%nat /\ carries_msg T_DEC_RSP (nth k peer []) m /\ r = dec_out m)).
Proof.
  intros. unfold client_decode. apply client_decode_wf.
  - rewrite (proj1 (proj2 C14_repo_guard)). apply N.le_refl.
  - intros x H. rewrite (proj1 (proj2 C14_repo_client_parameters)) in H. inversion H. reflexivity.
  - intros. apply dec_req_no_fault.
Qed.
Print Assumptions C14_repo_client_decode.

Theorem C14_repo_client_encode : forall hp mreq peer,
  (forall r, send hp mt_enc_req (setn mreq Nretry r) xfer_send_maxlen <> SFault) ->
  exists r, fst (client_encode hp mreq peer) = Some r
    /\ ((e_err r <> 0%N /\ exists s, r = enc_fail (e_err r) s)
        \/ (exists k m, (k < N.to_nat xfer_attempts)%nat /\ carries_msg T_ENC_RSP (nth k peer []) m
                        /\ nv m Ndata_len <> 0%N /\ r = enc_out m)).
Proof.
  intros. unfold client_encode. apply client_encode_wf.
  - rewrite (proj1 (proj2 C14_repo_guard)). apply N.le_refl.
  - intros x E. rewrite (proj1 C14_repo_client_parameters) in E. inversion E. reflexivity.
  - assumption.
Qed.
Print Assumptions C14_repo_client_encode.

(* ---- translator tie: the member every output of munge_decode / munge_encode is copied from, measured on the current
        source with marker values, is the member dec_out / enc_out read - and they read nothing else ------------- *)
Theorem C14_client_copies_are_the_source :
  (forall o, measured_dec_src o = dec_src o) /\ (forall o, measured_enc_src o = enc_src o)
  /\ (forall m m', err_local m = err_local m' -> (forall o, same_at m m' (dec_src o)) -> dec_out m = dec_out m')
  /\ (forall m m', err_local m = err_local m' -> (forall o, same_at m m' (enc_src o)) -> enc_out m = enc_out m').
Proof.
  split; [exact (proj1 copies_match_source)|]. split; [exact (proj2 copies_match_source)|].
  split; [exact dec_out_reads_sources|exact enc_out_reads_sources].
Qed.
Print Assumptions C14_client_copies_are_the_source.

(* ---- translator tie: the expected type, the two maxlen arguments and the sanity-check types a translator reads off
        the current text of m_msg_client_xfer / _decode_rsp / _encode_rsp are the ones measured by running them -- *)
From MV.gen Require Import GenMsgClientSrc.
Theorem C14_client_text_is_measured :
  (forall c, (c < 256)%N -> src_xfer_exptype c = xfer_exptype c)
  /\ src_xfer_recv_maxlen = xfer_recv_maxlen /\ src_xfer_send_maxlen = xfer_send_maxlen
  /\ (forall t, (t < 256)%N -> sanity_accepts src_dec_sanity t = dec_rsp_accepts t)
  /\ (forall t, (t < 256)%N -> sanity_accepts src_enc_sanity t = enc_rsp_accepts t).
Proof. exact text_matches_measured. Qed.
Print Assumptions C14_client_text_is_measured.

(* non-vacuity: the repository's client, first answer = the nested header (rejected: wrong type), second answer = a
   well-formed DEC_RSP; the caller gets the members of the second, and two requests with retry 0 and 1 were sent *)
Example C14_client_example :
  exists r sent, client_decode (fun _ => true) ["M"; "U"]%byte [nested_attack; example_dec_rsp] = (Some r, sent)
    /\ d_err r = 0%N /\ d_uid r = 42%N /\ d_gid r = 43%N /\ d_len r = 5 /\ d_buf r = Some ["h"; "e"; "l"; "l"; "o"]%byte
    /\ x_ttl (d_ctx r) = 300 /\ x_addr (d_ctx r) = [x7f; x00; x00; x01]%byte /\ d_estr r = ENull
    /\ length sent = 2%nat.
Proof. eexists. eexists. split; [vm_compute; reflexivity|]. repeat split. Qed.
