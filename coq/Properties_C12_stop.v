(* Properties_C12_stop.v — statements only.  `munged --stop` and a request IN PROGRESS at the stop.
   One request holds a worker for at most one receive and one send, each bounded by the per-message I/O limit
   MUNGE_SOCKET_TIMEOUT_MSECS (Properties_FD.v: every timed read/write returns by its absolute deadline plus the poll
   rounding).  `munged --stop` (conf.c _conf_process_stop) waits MUNGE_SIGNAL_WAIT_MSECS after SIGTERM and then sends
   SIGKILL; for the request that is in progress when the stop arrives to be completed, that wait has to exceed two I/O
   limits plus the polling granularity.  This is a NECESSARY condition only: requests queued behind others wait for the
   workers ahead of them, so the drain is unbounded in the queue length while the wait is fixed — that gap is the open
   known finding F-C12-stop-kill (replayed in the thorough tier of C12); SIGTERM/SIGINT themselves drain completely
   (Properties_C12.v, Properties_C12_job.v).  The constants are regenerated from munge_defs.h on every run (gen/GenStop.v). *)
From Coq Require Import NArith.
From MV.gen Require Import GenStop.
Local Open Scope N_scope.

Theorem C12_stop_wait_covers_accepted_requests :
  2 * c_socket_timeout_msecs + c_signal_check_msecs < c_signal_wait_msecs.
Proof. vm_compute. reflexivity. Qed.
Print Assumptions C12_stop_wait_covers_accepted_requests.
