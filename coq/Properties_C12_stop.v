(* Properties_C12_stop.v — statements only.  `munged --stop` and the requests accepted before it.
   A request holds a worker for at most one receive and one send, each bounded by the per-message I/O limit
   MUNGE_SOCKET_TIMEOUT_MSECS (Properties_FD.v: every timed read/write returns by its absolute deadline plus the poll
   rounding); the acceptor stops accepting at the SIGTERM (Properties_C12_job.v: C12_job_stop) and work_fini(w,1) cancels
   nobody before everything accepted is done (Properties_C12.v).  So every request accepted before the stop has its reply
   written within two I/O limits of the SIGTERM, and `munged --stop` must not escalate to SIGKILL before that:
   the wait after SIGTERM (MUNGE_SIGNAL_WAIT_MSECS, conf.c _conf_process_stop) has to exceed two I/O limits plus the
   polling granularity.  The constants are regenerated from munge_defs.h on every run (gen/GenStop.v). *)
From Coq Require Import NArith.
From MV.gen Require Import GenStop.
Local Open Scope N_scope.

Theorem C12_stop_wait_covers_accepted_requests :
  2 * c_socket_timeout_msecs + c_signal_check_msecs < c_signal_wait_msecs.
Proof. vm_compute. reflexivity. Qed.
Print Assumptions C12_stop_wait_covers_accepted_requests.
