(* CredSource.v — pieces of CredModel are exactly what a translator reads off the current source text
   (gen/GenCredSrc.v): the reset, the set of error codes exempt from it, and the order of the stages. *)
From Coq Require Import List NArith Bool String.
From RecordUpdate Require Import RecordSet.
From MV Require Import Bytes CredModel.
From MV.gen Require Import GenCred GenCredSrc.
Import ListNotations RecordSetNotations.
Local Open Scope N_scope.

Lemma msg_reset_is_source m : src_msg_reset m = msg_reset m.
Proof. reflexivity. Qed.

Lemma soft_err_is_source e : src_soft_err e = soft_err e.
Proof. reflexivity. Qed.

(* the stage order the model follows (dec_process / dec_parse / dec_pre; enc_pre / enc_core), by name *)
Definition model_dec_stages : list string :=
  ["dec_validate_msg"; "cred_create"; "dec_timestamp"; "dec_authenticate"; "dec_check_retry"; "dec_unarmor";
   "dec_unpack_outer"; "dec_decrypt"; "dec_validate_mac"; "dec_decompress"; "dec_unpack_inner"; "dec_validate_auth";
   "dec_validate_time"; "dec_validate_replay"]%string.
Definition model_enc_stages : list string :=
  ["enc_validate_msg"; "cred_create"; "enc_init"; "enc_authenticate"; "enc_check_retry"; "enc_timestamp";
   "enc_pack_outer"; "enc_pack_inner"; "enc_compress"; "enc_mac"; "enc_encrypt"; "enc_armor"; "enc_fini"]%string.

Lemma stages_are_source : src_dec_stages = model_dec_stages /\ src_enc_stages = model_enc_stages.
Proof. split; reflexivity. Qed.
