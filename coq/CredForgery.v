(* CredForgery.v — C02: acceptance implies a valid MAC pair; an accepted body that no key holder emitted
   exhibits a fresh valid (message, tag) pair, i.e. an HMAC forgery.  No cryptographic assumption is made:
   the conclusion IS the forgery. *)
From Coq Require Import List NArith ZArith Bool Lia.
From Coq.Strings Require Import Byte.
From RecordUpdate Require Import RecordSet.
From MV Require Import Bytes Base64Model CredModel CredProofs CbcProofs CredRoundtrip.
From MV.gen Require Import GenCred.
Import ListNotations RecordSetNotations.
Local Open Scope N_scope.

Lemma forallb_eq_combine (a : bytes) : forall b, length a = length b ->
  forallb (fun q => b2n (fst q) =? b2n (snd q)) (combine a b) = true -> a = b.
Proof.
  induction a as [|x a IH]; intros [|y b] L H; cbn in L; try discriminate; [reflexivity|].
  cbn in H. apply andb_true_iff in H. destruct H as [H1 H2].
  apply N.eqb_eq in H1. apply b2n_inj in H1. subst y. f_equal. apply IH; [lia|exact H2].
Qed.

Lemma bytes_eqb_eq a b : bytes_eqb a b = true -> a = b.
Proof.
  unfold bytes_eqb. intros H. apply andb_true_iff in H. destruct H as [L H].
  apply Nat.eqb_eq in L. now apply forallb_eq_combine.
Qed.

Lemma dec_finish_err x : m_err (dec_finish x) = m_err x.
Proof. unfold dec_finish. destruct (_ && _); reflexivity. Qed.

Section Forgery2.
Variable hmac : N -> bytes -> bytes -> bytes.
Variable sha1 : bytes -> bytes.
Variable blk_enc blk_dec : N -> bytes -> bytes -> bytes.
Variable zdecomp : N -> bytes -> N -> option bytes.

Notation dec_decrypt_mac := (dec_decrypt_mac hmac sha1 blk_dec).
Notation dec_parse := (dec_parse hmac sha1 blk_dec zdecomp).
Notation dec_process := (dec_process hmac sha1 blk_dec zdecomp).

(* what passing the decrypt+MAC stage means *)
Lemma decrypt_mac_ok_inv cf o p : dec_decrypt_mac cf o = inr p ->
  hmac (m_mac (oo_msg o)) (mac_subkey sha1 (cf_key cf)) (oo_outer o ++ p) = oo_tag o.
Proof.
  unfold CredModel.dec_decrypt_mac. intros H.
  destruct (if m_cipher (oo_msg o) =? c_cipher_none then Some (oo_inner o)
            else cbc_decrypt blk_dec (m_cipher (oo_msg o))
                   (hmac (m_mac (oo_msg o)) (dek_subkey sha1 (cf_key cf)) (oo_tag o)) (oo_iv o) (oo_inner o)) as [q|] eqn:E;
    [|discriminate].
  destruct (bytes_eqb _ _) eqn:B; [|discriminate].
  inversion H; subst. now apply bytes_eqb_eq.
Qed.

(* a credential that gets past dec_parse carries a tag that IS the HMAC, under the MAC subkey, of its own
   outer header and authenticated interior *)
Lemma dec_parse_mac_valid cf m m' tag : dec_parse cf m = inr (m', tag) ->
  exists body o p,
    dec_unarmor (m_data m) = inl body /\
    dec_unpack_outer (m <| m_data := [] |> <| m_data_len := 0 |>) body = inr o /\
    dec_decrypt_mac cf o = inr p /\ tag = oo_tag o /\
    hmac (m_mac (oo_msg o)) (mac_subkey sha1 (cf_key cf)) (oo_outer o ++ p) = oo_tag o.
Proof.
  unfold CredModel.dec_parse. intros H.
  destruct (dec_unarmor (m_data m)) as [body|[e s]] eqn:U; [|discriminate].
  destruct (dec_unpack_outer _ body) as [e|o] eqn:O; [discriminate|].
  destruct (dec_decrypt_mac cf o) as [e|p] eqn:D; [discriminate|].
  destruct (CredModel.dec_decompress zdecomp (oo_msg o) p) as [e|inner]; [discriminate|].
  destruct (dec_unpack_inner (oo_msg o) inner) as [e|m2]; [discriminate|].
  inversion H; subst. exists body, o, p. repeat split; auto. now apply decrypt_mac_ok_inv.
Qed.

(* C02, first half: every reply that is not a hard error (success, expired, rewound, replayed) comes from a
   credential whose MAC verifies under this daemon's key *)
Theorem accept_implies_valid_mac cf mem rs m pu pg now r rs' k :
  m_err m = e_success ->
  dec_process cf mem rs m pu pg now = (r, rs', k) ->
  hard_code (m_err r) = false ->
  exists body o p,
    dec_unarmor (m_data m) = inl body /\
    dec_unpack_outer (m <| m_time0 := 0 |> <| m_time1 := u32 now |> <| m_client_uid := pu |> <| m_client_gid := pg |>
                        <| m_data := [] |> <| m_data_len := 0 |>) body = inr o /\
    dec_decrypt_mac cf o = inr p /\
    hmac (m_mac (oo_msg o)) (mac_subkey sha1 (cf_key cf)) (oo_outer o ++ p) = oo_tag o.
Proof.
  intros H0 H Hs. unfold CredModel.dec_process in H.
  destruct (m_data_len m =? 0) eqn:D0.
  { inversion H; subst. rewrite dec_finish_err, set_err_hard in Hs; auto. discriminate. }
  set (m1 := m <| m_time0 := 0 |> <| m_time1 := u32 now |> <| m_client_uid := pu |> <| m_client_gid := pg |>) in *.
  assert (E1 : m_err m1 = e_success) by exact H0.
  destruct (c_retry_attempts <? m_retry m1) eqn:R.
  { inversion H; subst. rewrite dec_finish_err, set_err_hard in Hs; auto. discriminate. }
  destruct (dec_parse cf m1) as [e|[m2 tag]] eqn:P.
  { inversion H; subst. pose proof (dec_parse_err hmac sha1 blk_dec zdecomp _ _ _ P E1) as He.
    rewrite dec_finish_err, He in Hs. discriminate. }
  destruct (dec_parse_mac_valid _ _ _ _ P) as (body & o & p & U & O & D & _ & V).
  exists body, o, p. repeat split; auto.
Qed.

(* C02, second half (with CredRoundtrip.mac_pair_determines_body): the body is a function of
   (outer, tag, authenticated interior).  Hence an accepted body that differs from every emitted body carries
   a (outer ++ interior, tag) pair that differs from every emitted pair — a valid MAC on a message the key
   holder never MAC'd. *)
Hypothesis blk_dec_len : forall c k b, cipher_valid c = true -> len b = cipher_blk_size c ->
  len (blk_dec c k b) = cipher_blk_size c.
Hypothesis blk_enc_dec : forall c k b, cipher_valid c = true -> len b = cipher_blk_size c ->
  blk_enc c k (blk_dec c k b) = b.

Theorem unemitted_body_means_fresh_mac_pair cf m1 m2 b1 b2 o1 o2 p1 p2 :
  dec_unpack_outer m1 b1 = inr o1 -> dec_unpack_outer m2 b2 = inr o2 ->
  dec_decrypt_mac cf o1 = inr p1 -> dec_decrypt_mac cf o2 = inr p2 ->
  b1 <> b2 ->
  (oo_outer o1, oo_tag o1, p1) <> (oo_outer o2, oo_tag o2, p2).
Proof.
  intros O1 O2 D1 D2 Hne Heq. inversion Heq as [[Eo Et Ep]]. subst p2.
  apply Hne. exact (mac_pair_determines_body hmac sha1 blk_enc blk_dec blk_dec_len blk_enc_dec
                      cf m1 m2 b1 b2 o1 o2 p1 O1 O2 Eo Et D1 D2).
Qed.

End Forgery2.
