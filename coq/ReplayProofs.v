(* ReplayProofs.v — proofs about ReplayModel (hash.c + replay.c). *)
From Coq Require Import List NArith Bool Arith Sorted Lia Permutation.
From Coq.Strings Require Import Byte.
From MV Require Import Bytes ReplayModel.
From MV.gen Require Import GenReplay.
Import ListNotations.
Local Open Scope N_scope.

(* ------------------------------------------------------------------ lists *)
Lemma upd_length {A} s (c : A) cs : length (upd s c cs) = length cs.
Proof. revert s; induction cs as [|x r IH]; intros [|s]; cbn; auto. Qed.

Lemma nth_upd_same {A} s (c d : A) cs : (s < length cs)%nat -> nth s (upd s c cs) d = c.
Proof.
  revert s; induction cs as [|x r IH]; intros [|s] H; cbn in *; try lia; auto.
  apply IH. lia.
Qed.

Lemma nth_upd_other {A} s s' (c d : A) cs : s <> s' -> nth s' (upd s c cs) d = nth s' cs d.
Proof.
  revert s s'; induction cs as [|x r IH]; intros [|s] [|s'] H; cbn; auto; try congruence.
Qed.

Lemma nth_error_upd_same {A} i (v : A) l : (i < length l)%nat -> nth_error (upd i v l) i = Some v.
Proof.
  revert i; induction l as [|x r IH]; intros [|i] H; cbn in *; try lia; auto.
  apply IH. lia.
Qed.

Lemma nth_error_upd_other {A} i j (v : A) l : i <> j -> nth_error (upd i v l) j = nth_error l j.
Proof.
  revert i j; induction l as [|x r IH]; intros [|i] [|j] H; cbn; auto; try congruence.
Qed.

Lemma in_concat_nth {A} (x : A) cs : In x (concat cs) <-> exists s, In x (nth s cs []).
Proof.
  rewrite in_concat. split.
  - intros (c & Hc & Hx). destruct (In_nth cs c [] Hc) as (s & _ & E). exists s. now rewrite E.
  - intros (s & Hx). destruct (Nat.lt_ge_cases s (length cs)) as [L|L].
    + exists (nth s cs []). split; [now apply nth_In|exact Hx].
    + rewrite nth_overflow in Hx by exact L. destruct Hx.
Qed.

Lemma concat_upd_length {A} s (c : list A) cs : (s < length cs)%nat ->
  (length (concat (upd s c cs)) + length (nth s cs []) = length (concat cs) + length c)%nat.
Proof.
  revert s; induction cs as [|x r IH]; intros [|s] H; cbn in *; try lia.
  - rewrite !app_length. lia.
  - rewrite !app_length. specialize (IH s). lia.
Qed.

Lemma nth_repeat_nil {A} s n : nth s (repeat (@nil A) n) [] = [].
Proof. revert s; induction n; intros [|s]; cbn; auto. Qed.

Lemma concat_repeat_nil {A} n : concat (repeat (@nil A) n) = [].
Proof. induction n; cbn; auto. Qed.

Lemma concat_map_filter {A} (f : A -> bool) cs : concat (map (filter f) cs) = filter f (concat cs).
Proof. induction cs as [|c r IH]; cbn; [reflexivity|]. now rewrite filter_app, IH. Qed.

Lemma filter_length_split {A} (f : A -> bool) l :
  (length (filter f l) + length (filter (fun x => negb (f x)) l) = length l)%nat.
Proof. induction l as [|x r IH]; cbn; [reflexivity|]. destruct (f x); cbn; lia. Qed.

Lemma nodup_app {A} (a b : list A) :
  NoDup a -> NoDup b -> (forall x, In x a -> ~ In x b) -> NoDup (a ++ b).
Proof.
  induction a as [|x a IH]; cbn; intros Ha Hb Hd; [exact Hb|].
  inversion Ha as [|? ? Hx Ha']; subst. constructor.
  - rewrite in_app_iff. intros [H|H]; [exact (Hx H)|]. exact (Hd x (or_introl eq_refl) H).
  - apply IH; auto.
Qed.

Lemma nth_error_firstn_lt {A} (l : list A) i j : (j < i)%nat -> nth_error (firstn i l) j = nth_error l j.
Proof.
  revert i j; induction l as [|x r IH]; intros [|i] [|j] H; cbn; auto; try lia.
  apply IH. lia.
Qed.

Lemma first_occurrence {A} (dec : forall a b : A, {a = b} + {a <> b}) (x : A) l :
  In x l -> exists i, nth_error l i = Some x /\ ~ In x (firstn i l).
Proof.
  induction l as [|a r IH]; intros H; [destruct H|].
  destruct (dec a x) as [->|Hne].
  - exists 0%nat. cbn. auto.
  - destruct H as [H|H]; [contradiction|]. destruct (IH H) as (i & Hi & Hn).
    exists (S i). cbn. split; [exact Hi|]. intros [E|E]; [contradiction|exact (Hn E)].
Qed.

(* ------------------------------------------------------------------ hash.c *)
Section HashProofs.
  Variable K : Type.
  Variable cmp : K -> K -> comparison.
  Variable slot_of : K -> nat.
  Variable nslots : nat.
  Hypothesis cmp_eq : forall a b, cmp a b = Eq <-> a = b.
  Hypothesis cmp_antisym : forall a b, cmp b a = CompOpp (cmp a b).
  Hypothesis cmp_trans : forall a b c, cmp a b = Lt -> cmp b c = Lt -> cmp a c = Lt.
  Hypothesis slots : forall k, (slot_of k < nslots)%nat.

  Notation lt := (fun a b => cmp a b = Lt).
  Notation sorted := (StronglySorted lt).
  Notation cfind := (chain_find K cmp).
  Notation cins := (chain_insert K cmp).
  Notation crem := (chain_remove K cmp).
  Notation cdel := (chain_delete_if K).
  Notation inv := (table_inv K cmp slot_of nslots).
  Notation cok := (chain_ok K cmp slot_of).

  Lemma cmp_refl a : cmp a a = Eq.
  Proof. now apply cmp_eq. Qed.

  Lemma lt_irrefl a : cmp a a = Lt -> False.
  Proof. rewrite cmp_refl. discriminate. Qed.

  Lemma gt_lt a b : cmp a b = Gt -> cmp b a = Lt.
  Proof. intros H. rewrite cmp_antisym, H. reflexivity. Qed.

  Lemma sorted_inv p r : sorted (p :: r) -> sorted r /\ forall x, In x r -> cmp p x = Lt.
  Proof.
    intros H. apply StronglySorted_inv in H. destruct H as [H1 H2]. split; [exact H1|].
    now apply Forall_forall.
  Qed.

  Lemma sorted_cons p r : sorted r -> (forall x, In x r -> cmp p x = Lt) -> sorted (p :: r).
  Proof. intros H1 H2. constructor; [exact H1|]. now apply Forall_forall. Qed.

  Lemma sorted_nodup c : sorted c -> NoDup c.
  Proof.
    induction c as [|p r IH]; intros H; [constructor|].
    apply sorted_inv in H. destruct H as [H1 H2]. constructor; [|auto].
    intros Hin. exact (lt_irrefl p (H2 p Hin)).
  Qed.

  Lemma sorted_filter f c : sorted c -> sorted (filter f c).
  Proof.
    induction c as [|p r IH]; intros H; [constructor|].
    apply sorted_inv in H. destruct H as [H1 H2]. cbn. destruct (f p); [|auto].
    apply sorted_cons; [auto|]. intros x Hx. apply filter_In in Hx. now apply H2.
  Qed.

  (* --- hash_find --- *)
  Lemma cfind_spec k c : sorted c -> (cfind k c = true <-> In k c).
  Proof.
    induction c as [|p r IH]; intros H; cbn; [split; [discriminate|tauto]|].
    apply sorted_inv in H. destruct H as [H1 H2].
    destruct (cmp p k) eqn:E.
    - apply cmp_eq in E. split; auto.
    - rewrite (IH H1). split; [auto|]. intros [->|Hin]; [|exact Hin]. now apply lt_irrefl in E.
    - split; [discriminate|]. intros [->|Hin].
      + rewrite cmp_refl in E. discriminate.
      + rewrite (H2 k Hin) in E. discriminate.
  Qed.

  (* --- hash_insert --- *)
  Lemma cins_res k c : sorted c -> (fst (cins k c) = AlreadyExists <-> In k c).
  Proof.
    induction c as [|p r IH]; intros H; cbn; [split; [discriminate|tauto]|].
    apply sorted_inv in H. destruct H as [H1 H2].
    destruct (cmp p k) eqn:E.
    - apply cmp_eq in E. cbn. split; auto.
    - specialize (IH H1). destruct (cins k r) as [res r']; cbn in *. rewrite IH.
      split; [auto|]. intros [->|Hin]; [|exact Hin]. now apply lt_irrefl in E.
    - cbn. split; [discriminate|]. intros [->|Hin].
      + rewrite cmp_refl in E. discriminate.
      + rewrite (H2 k Hin) in E. discriminate.
  Qed.

  Lemma cins_same k c : fst (cins k c) = AlreadyExists -> snd (cins k c) = c.
  Proof.
    induction c as [|p r IH]; cbn; [discriminate|].
    destruct (cmp p k); cbn; [reflexivity| |discriminate].
    destruct (cins k r) as [res r']; cbn in *. intros H. now rewrite (IH H).
  Qed.

  Lemma cins_in k c x : In x (snd (cins k c)) <-> x = k \/ In x c.
  Proof.
    induction c as [|p r IH]; cbn; [intuition auto|].
    destruct (cmp p k) eqn:E.
    - apply cmp_eq in E. subst p. cbn. intuition auto.
    - destruct (cins k r) as [res r']; cbn in *. rewrite IH. intuition auto.
    - cbn. intuition auto.
  Qed.

  Lemma cins_sorted k c : sorted c -> sorted (snd (cins k c)).
  Proof.
    induction c as [|p r IH]; intros H; cbn; [apply sorted_cons; [constructor|intros x []]|].
    pose proof H as H0. apply sorted_inv in H. destruct H as [H1 H2].
    destruct (cmp p k) eqn:E; cbn; [exact H0| |].
    - specialize (IH H1). pose proof (cins_in k r) as Hin.
      destruct (cins k r) as [res r']; cbn in *.
      apply sorted_cons; [exact IH|]. intros x Hx. apply Hin in Hx. destruct Hx as [->|Hx]; auto.
    - apply gt_lt in E. apply sorted_cons; [exact H0|].
      intros x [<-|Hx]; [exact E|]. apply (cmp_trans k p x E). now apply H2.
  Qed.

  Lemma cins_len k c : fst (cins k c) = Inserted -> length (snd (cins k c)) = S (length c).
  Proof.
    induction c as [|p r IH]; cbn; [reflexivity|].
    destruct (cmp p k); cbn; [discriminate| |reflexivity].
    destruct (cins k r) as [res r']; cbn in *. intros H. now rewrite (IH H).
  Qed.

  (* --- hash_remove --- *)
  Lemma crem_res k c : sorted c -> (fst (crem k c) = true <-> In k c).
  Proof.
    induction c as [|p r IH]; intros H; cbn; [split; [discriminate|tauto]|].
    apply sorted_inv in H. destruct H as [H1 H2].
    destruct (cmp p k) eqn:E.
    - apply cmp_eq in E. cbn. split; auto.
    - specialize (IH H1). destruct (crem k r) as [f r']; cbn in *. rewrite IH.
      split; [auto|]. intros [->|Hin]; [|exact Hin]. now apply lt_irrefl in E.
    - cbn. split; [discriminate|]. intros [->|Hin].
      + rewrite cmp_refl in E. discriminate.
      + rewrite (H2 k Hin) in E. discriminate.
  Qed.

  Lemma crem_same k c : fst (crem k c) = false -> snd (crem k c) = c.
  Proof.
    induction c as [|p r IH]; cbn; [reflexivity|].
    destruct (cmp p k); cbn; [discriminate| |reflexivity].
    destruct (crem k r) as [f r']; cbn in *. intros H. now rewrite (IH H).
  Qed.

  Lemma crem_in k c x : sorted c -> (In x (snd (crem k c)) <-> x <> k /\ In x c).
  Proof.
    induction c as [|p r IH]; intros H; cbn; [intuition auto|].
    apply sorted_inv in H. destruct H as [H1 H2].
    destruct (cmp p k) eqn:E.
    - apply cmp_eq in E. subst p. cbn. split.
      + intros Hx. split; [|auto]. intros ->. exact (lt_irrefl k (H2 k Hx)).
      + intros [Hne [->|Hx]]; [congruence|exact Hx].
    - specialize (IH H1). destruct (crem k r) as [f r']; cbn in *. rewrite IH. split.
      + intros [->|[Hne Hx]]; [|auto]. split; [|auto]. intros ->. now apply lt_irrefl in E.
      + intros [Hne [->|Hx]]; auto.
    - cbn. split; [|tauto]. intros Hx. split; [|exact Hx]. intros ->. destruct Hx as [->|Hx].
      + rewrite cmp_refl in E. discriminate.
      + rewrite (H2 k Hx) in E. discriminate.
  Qed.

  Lemma crem_sorted k c : sorted c -> sorted (snd (crem k c)).
  Proof.
    induction c as [|p r IH]; intros H; cbn; [constructor|].
    pose proof H as H0. apply sorted_inv in H. destruct H as [H1 H2].
    destruct (cmp p k) eqn:E; cbn; [exact H1| |exact H0].
    specialize (IH H1). pose proof (fun x => crem_in k r x H1) as Hin.
    destruct (crem k r) as [f r']; cbn in *.
    apply sorted_cons; [exact IH|]. intros x Hx. apply Hin in Hx. now apply H2.
  Qed.

  Lemma crem_len k c : fst (crem k c) = true -> S (length (snd (crem k c))) = length c.
  Proof.
    induction c as [|p r IH]; cbn; [discriminate|].
    destruct (cmp p k); cbn; [reflexivity| |discriminate].
    destruct (crem k r) as [f r']; cbn in *. intros H. now rewrite (IH H).
  Qed.

  (* --- hash_delete_if: the chain walk is a filter --- *)
  Lemma cdel_snd pred c : snd (cdel pred c) = filter (fun k => negb (pred k)) c.
  Proof.
    induction c as [|p r IH]; cbn; [reflexivity|].
    destruct (cdel pred r) as [n r']; cbn in *. destruct (pred p); cbn; now rewrite IH.
  Qed.

  Lemma cdel_fst pred c : fst (cdel pred c) = N.of_nat (length (filter pred c)).
  Proof.
    induction c as [|p r IH]; cbn; [reflexivity|].
    destruct (cdel pred r) as [n r']; cbn in *. destruct (pred p); cbn; rewrite IH; lia.
  Qed.

  Lemma csdel_snd pred cs :
    snd (chains_delete_if K pred cs) = map (filter (fun k => negb (pred k))) cs.
  Proof.
    induction cs as [|c r IH]; cbn; [reflexivity|].
    pose proof (cdel_snd pred c) as Hc. destruct (cdel pred c) as [n1 c'].
    destruct (chains_delete_if K pred r) as [n2 r']; cbn in *. now rewrite Hc, IH.
  Qed.

  Lemma csdel_fst pred cs :
    fst (chains_delete_if K pred cs) = N.of_nat (length (filter pred (concat cs))).
  Proof.
    induction cs as [|c r IH]; cbn; [reflexivity|].
    pose proof (cdel_fst pred c) as Hc. destruct (cdel pred c) as [n1 c'].
    destruct (chains_delete_if K pred r) as [n2 r']; cbn in *.
    rewrite filter_app, app_length, Hc, IH. lia.
  Qed.

  (* --- tables --- *)
  Lemma abs_in t x : inv t -> (In x (abs t) <-> In x (get (slot_of x) (chains t))).
  Proof.
    intros (_ & Hc & _). unfold abs, get. rewrite in_concat_nth. split.
    - intros (s & Hx). destruct (Hc s) as [_ Hs]. unfold get in Hs.
      rewrite Forall_forall in Hs. now rewrite (Hs x Hx).
    - intros Hx. now exists (slot_of x).
  Qed.

  Lemma inv_create : inv (create nslots).
  Proof.
    unfold table_inv. split; [apply repeat_length|]. split.
    - intros s. unfold get, create. cbn [chains]. rewrite nth_repeat_nil. split; constructor.
    - unfold abs, create. cbn [chains count]. now rewrite concat_repeat_nil.
  Qed.

  Lemma nodup_concat cs : forall o,
    (forall i, NoDup (nth i cs [])) ->
    (forall i x, In x (nth i cs []) -> slot_of x = (o + i)%nat) -> NoDup (concat cs).
  Proof.
    induction cs as [|c r IH]; intros o Hn Hs; cbn; [constructor|].
    apply nodup_app.
    - exact (Hn 0%nat).
    - apply (IH (S o)).
      + intros i. exact (Hn (S i)).
      + intros i x Hx. rewrite (Hs (S i) x Hx). lia.
    - intros x Hx Hx'. apply in_concat_nth in Hx'. destruct Hx' as (i & Hi).
      pose proof (Hs 0%nat x Hx) as E0. pose proof (Hs (S i) x Hi) as E1. lia.
  Qed.

  Lemma abs_nodup t : inv t -> NoDup (abs t).
  Proof.
    intros (_ & Hc & _). unfold abs. apply (nodup_concat (chains t) 0%nat).
    - intros i. destruct (Hc i) as [Hs _]. now apply sorted_nodup.
    - intros i x Hx. destruct (Hc i) as [_ Hs]. unfold get in Hs. rewrite Forall_forall in Hs.
      now apply Hs.
  Qed.

  Lemma inv_count t : inv t -> count t = N.of_nat (length (abs t)).
  Proof. now intros (_ & _ & H). Qed.

  Lemma find_spec t k : inv t -> (find K cmp slot_of k t = true <-> In k (abs t)).
  Proof.
    intros H. rewrite (abs_in t k H). unfold find. apply cfind_spec.
    destruct H as (_ & Hc & _). now destruct (Hc (slot_of k)).
  Qed.

  Lemma insert_spec t k : inv t ->
    let r := insert K cmp slot_of k t in
    inv (snd r) /\ (fst r = AlreadyExists <-> In k (abs t)) /\ (fst r = AlreadyExists -> snd r = t) /\
    (forall x, In x (abs (snd r)) <-> x = k \/ In x (abs t)) /\
    (fst r = Inserted -> count (snd r) = count t + 1).
  Proof.
    intros H. pose proof H as (Hl & Hc & Hn). cbv zeta.
    assert (Hinv : inv (snd (insert K cmp slot_of k t))).
    { unfold insert. destruct (Hc (slot_of k)) as [Hs Hf].
      pose proof (cins_sorted k _ Hs) as S1. pose proof (cins_in k (get (slot_of k) (chains t))) as I1.
      pose proof (cins_len k (get (slot_of k) (chains t))) as L1.
      destruct (cins k (get (slot_of k) (chains t))) as [res c']; cbn in *.
      destruct res; cbn; [|exact H].
      assert (Hlt : (slot_of k < length (chains t))%nat) by (rewrite Hl; apply slots).
      unfold table_inv; cbn [chains count]. split; [now rewrite upd_length|]. split.
      - intros s. unfold get. destruct (Nat.eq_dec (slot_of k) s) as [<-|Hne].
        + rewrite nth_upd_same by exact Hlt. split; [exact S1|].
          apply Forall_forall. intros x Hx. apply I1 in Hx. destruct Hx as [->|Hx]; [reflexivity|].
          rewrite Forall_forall in Hf. now apply Hf.
        + rewrite nth_upd_other by exact Hne. apply Hc.
      - unfold abs; cbn. pose proof (concat_upd_length (slot_of k) c' (chains t) Hlt) as E.
        specialize (L1 eq_refl). unfold abs in Hn. unfold get in L1. lia. }
    split; [exact Hinv|].
    assert (Hres : fst (insert K cmp slot_of k t) = AlreadyExists <-> In k (abs t)).
    { rewrite (abs_in t k H). destruct (Hc (slot_of k)) as [Hs _].
      rewrite <- (cins_res k _ Hs). unfold insert.
      destruct (cins k (get (slot_of k) (chains t))) as [res c']; cbn. destruct res; cbn; tauto. }
    split; [exact Hres|]. split; [|split].
    - unfold insert. destruct (cins k (get (slot_of k) (chains t))) as [res c']; cbn.
      destruct res; cbn; [discriminate|reflexivity].
    - intros x. rewrite (abs_in _ x Hinv), (abs_in t x H).
      unfold insert in *. pose proof (cins_in k (get (slot_of k) (chains t)) x) as I1.
      pose proof (cins_same k (get (slot_of k) (chains t))) as Sm.
      destruct (cins k (get (slot_of k) (chains t))) as [res c']; cbn in *.
      destruct res; cbn in *.
      + assert (Hlt : (slot_of k < length (chains t))%nat) by (rewrite Hl; apply slots).
        unfold get in *. destruct (Nat.eq_dec (slot_of k) (slot_of x)) as [E|Hne].
        * rewrite <- E. rewrite nth_upd_same by exact Hlt. rewrite I1. tauto.
        * rewrite nth_upd_other by exact Hne. split; [auto|]. intros [->|Hx]; [congruence|exact Hx].
      + specialize (Sm eq_refl). subst c'. split; [auto|]. intros [->|Hx]; [|exact Hx].
        apply I1. now left.
    - unfold insert. destruct (cins k (get (slot_of k) (chains t))) as [res c']; cbn.
      destruct res; cbn; [reflexivity|discriminate].
  Qed.

  Lemma remove_spec t k : inv t ->
    let r := remove K cmp slot_of k t in
    inv (snd r) /\ (fst r = true <-> In k (abs t)) /\ (fst r = false -> snd r = t) /\
    (forall x, In x (abs (snd r)) <-> x <> k /\ In x (abs t)) /\
    (fst r = true -> count (snd r) + 1 = count t).
  Proof.
    intros H. pose proof H as (Hl & Hc & Hn). cbv zeta.
    destruct (Hc (slot_of k)) as [Hs Hf].
    assert (Hlt : (slot_of k < length (chains t))%nat) by (rewrite Hl; apply slots).
    assert (Hinv : inv (snd (remove K cmp slot_of k t))).
    { unfold remove.
      pose proof (crem_sorted k _ Hs) as S1.
      pose proof (fun x => crem_in k (get (slot_of k) (chains t)) x Hs) as I1.
      pose proof (crem_len k (get (slot_of k) (chains t))) as L1.
      destruct (crem k (get (slot_of k) (chains t))) as [f c']; cbn in *.
      destruct f; cbn; [|exact H].
      unfold table_inv; cbn [chains count]. split; [now rewrite upd_length|]. split.
      - intros s. unfold get. destruct (Nat.eq_dec (slot_of k) s) as [<-|Hne].
        + rewrite nth_upd_same by exact Hlt. split; [exact S1|].
          apply Forall_forall. intros x Hx. apply I1 in Hx. destruct Hx as [_ Hx].
          rewrite Forall_forall in Hf. now apply Hf.
        + rewrite nth_upd_other by exact Hne. apply Hc.
      - unfold abs; cbn. pose proof (concat_upd_length (slot_of k) c' (chains t) Hlt) as E.
        specialize (L1 eq_refl). unfold abs in Hn. unfold get in L1.
        assert (0 < length (nth (slot_of k) (chains t) []))%nat by lia.
        assert (length (nth (slot_of k) (chains t) []) <= length (concat (chains t)))%nat.
        { clear - Hlt. revert Hlt. generalize (slot_of k). induction (chains t) as [|c r IH]; intros [|s] Hl; cbn in *; try lia.
          - rewrite app_length. lia.
          - rewrite app_length. specialize (IH s). lia. }
        lia. }
    split; [exact Hinv|].
    assert (Hres : fst (remove K cmp slot_of k t) = true <-> In k (abs t)).
    { rewrite (abs_in t k H). rewrite <- (crem_res k _ Hs). unfold remove.
      destruct (crem k (get (slot_of k) (chains t))) as [f c']; cbn. destruct f; cbn; tauto. }
    split; [exact Hres|]. split; [|split].
    - unfold remove. destruct (crem k (get (slot_of k) (chains t))) as [f c']; cbn.
      destruct f; cbn; [discriminate|reflexivity].
    - intros x. rewrite (abs_in _ x Hinv), (abs_in t x H).
      unfold remove in *. pose proof (crem_in k (get (slot_of k) (chains t)) x Hs) as I1.
      pose proof (crem_same k (get (slot_of k) (chains t))) as Sm.
      destruct (crem k (get (slot_of k) (chains t))) as [f c']; cbn in *.
      destruct f; cbn in *.
      + unfold get in *. destruct (Nat.eq_dec (slot_of k) (slot_of x)) as [E|Hne].
        * rewrite <- E. rewrite nth_upd_same by exact Hlt. exact I1.
        * rewrite nth_upd_other by exact Hne. split; [|tauto]. intros Hx. split; [|exact Hx].
          intros ->. congruence.
      + specialize (Sm eq_refl). subst c'. split; [|tauto]. intros Hx. split; [|exact Hx].
        intros ->. apply I1 in Hx. tauto.
    - unfold remove. pose proof (crem_len k (get (slot_of k) (chains t))) as L1.
      destruct (crem k (get (slot_of k) (chains t))) as [f c']; cbn in *.
      destruct f; cbn; [|discriminate]. intros _.
      pose proof (concat_upd_length (slot_of k) c' (chains t) Hlt) as E.
      specialize (L1 eq_refl). unfold abs in Hn. unfold get in L1. rewrite Hn.
      assert (length (nth (slot_of k) (chains t) []) <= length (concat (chains t)))%nat.
      { clear - Hlt. revert Hlt. generalize (slot_of k). induction (chains t) as [|c r IH]; intros [|s] Hl; cbn in *; try lia.
        - rewrite app_length. lia.
        - rewrite app_length. specialize (IH s). lia. }
      lia.
  Qed.

  Lemma delete_if_spec t pred : inv t ->
    let r := delete_if K pred t in
    inv (snd r) /\ abs (snd r) = filter (fun k => negb (pred k)) (abs t) /\
    fst r = N.of_nat (length (filter pred (abs t))) /\ count (snd r) + fst r = count t.
  Proof.
    intros (Hl & Hc & Hn). cbv zeta. unfold delete_if.
    pose proof (csdel_snd pred (chains t)) as E2. pose proof (csdel_fst pred (chains t)) as E1.
    destruct (chains_delete_if K pred (chains t)) as [n cs']; cbn in *. subst cs'.
    assert (Ha : concat (map (filter (fun k => negb (pred k))) (chains t))
                 = filter (fun k => negb (pred k)) (abs t)) by apply concat_map_filter.
    pose proof (filter_length_split pred (abs t)) as Hsplit. fold (abs t) in E1.
    split; [|split; [exact Ha|split; [exact E1|lia]]].
    unfold table_inv; cbn [chains count]. split; [now rewrite map_length|]. split.
    - intros s. unfold get.
      change (@nil K) with (filter (fun k => negb (pred k)) []) at 1. rewrite map_nth.
      destruct (Hc s) as [Hs Hf]. split; [now apply sorted_filter|].
      apply Forall_forall. intros x Hx. apply filter_In in Hx. rewrite Forall_forall in Hf.
      now apply Hf.
    - unfold abs at 1; cbn. rewrite Ha. lia.
  Qed.
End HashProofs.

(* ---------------------------------------------------------------- replay.c *)
Lemma cmp_bytes_eq a b : cmp_bytes a b = Eq <-> a = b.
Proof.
  revert b; induction a as [|x a IH]; intros [|y b]; cbn;
    try (split; [discriminate|discriminate]); [tauto|].
  destruct (N.compare_spec (b2n x) (b2n y)) as [E|E|E].
  - apply b2n_inj in E. subst y. rewrite IH. split; [now intros ->|now intros [= ->]].
  - split; [discriminate|]. intros [= -> _]. lia.
  - split; [discriminate|]. intros [= -> _]. lia.
Qed.

Lemma cmp_bytes_antisym a b : cmp_bytes b a = CompOpp (cmp_bytes a b).
Proof.
  revert b; induction a as [|x a IH]; intros [|y b]; cbn; auto.
  rewrite (N.compare_antisym (b2n x) (b2n y)). destruct (b2n x ?= b2n y); cbn; auto.
Qed.

Lemma cmp_bytes_trans a : forall b c, cmp_bytes a b = Lt -> cmp_bytes b c = Lt -> cmp_bytes a c = Lt.
Proof.
  induction a as [|x a IH]; intros [|y b] [|z c]; cbn; try discriminate; auto.
  destruct (b2n x ?= b2n y) eqn:E1; intros H1; try discriminate H1;
  destruct (b2n y ?= b2n z) eqn:E2; intros H2; try discriminate H2.
  - apply N.compare_eq_iff in E1. apply N.compare_eq_iff in E2. rewrite E1, E2, N.compare_refl. eauto.
  - apply N.compare_eq_iff in E1. now rewrite E1, E2.
  - apply N.compare_eq_iff in E2. now rewrite <- E2, E1.
  - change (b2n x < b2n y) in E1. change (b2n y < b2n z) in E2.
    assert (E : b2n x < b2n z) by lia. unfold N.lt in E. now rewrite E.
Qed.

Lemma tiebreak_true : replay_cmp_time_tiebreak = true.
Proof. reflexivity. Qed.

Lemma replay_cmp_eq a b : replay_cmp a b = Eq <-> a = b.
Proof.
  destruct a as [m1 t1], b as [m2 t2]. unfold replay_cmp; cbn [fst snd]. rewrite tiebreak_true.
  destruct (cmp_bytes m1 m2) eqn:E.
  - apply cmp_bytes_eq in E. subst m2. rewrite N.compare_eq_iff.
    split; [now intros ->|now intros [= ->]].
  - split; [discriminate|]. intros [= -> _]. assert (cmp_bytes m2 m2 = Eq) by now apply cmp_bytes_eq. congruence.
  - split; [discriminate|]. intros [= -> _]. assert (cmp_bytes m2 m2 = Eq) by now apply cmp_bytes_eq. congruence.
Qed.

Lemma replay_cmp_antisym a b : replay_cmp b a = CompOpp (replay_cmp a b).
Proof.
  destruct a as [m1 t1], b as [m2 t2]. unfold replay_cmp; cbn [fst snd]. rewrite tiebreak_true.
  rewrite (cmp_bytes_antisym m1 m2). destruct (cmp_bytes m1 m2); cbn; auto.
  apply N.compare_antisym.
Qed.

Lemma replay_cmp_trans a b c : replay_cmp a b = Lt -> replay_cmp b c = Lt -> replay_cmp a c = Lt.
Proof.
  destruct a as [m1 t1], b as [m2 t2], c as [m3 t3]. unfold replay_cmp; cbn [fst snd].
  rewrite tiebreak_true.
  destruct (cmp_bytes m1 m2) eqn:E1; intros H1; try discriminate H1;
  destruct (cmp_bytes m2 m3) eqn:E2; intros H2; try discriminate H2.
  - apply cmp_bytes_eq in E1, E2. subst m2 m3.
    assert (E : cmp_bytes m1 m1 = Eq) by now apply cmp_bytes_eq. rewrite E.
    change (t1 < t2) in H1. change (t2 < t3) in H2. change (t1 < t3). lia.
  - apply cmp_bytes_eq in E1. subst m2. now rewrite E2.
  - apply cmp_bytes_eq in E2. subst m3. now rewrite E1.
  - now rewrite (cmp_bytes_trans m1 m2 m3 E1 E2).
Qed.

Lemma is_expired_spec now k : is_expired now k = (snd k <? now).
Proof. unfold is_expired, N.ltb. destruct (snd k ?= now); reflexivity. Qed.

Lemma keep_spec now k : negb (is_expired now k) = (now <=? snd k).
Proof. rewrite is_expired_spec. symmetry. apply N.leb_antisym. Qed.

Lemma rkey_eq_dec (a b : rkey) : {a = b} + {a <> b}.
Proof. decide equality; [apply N.eq_dec|apply list_eq_dec, Byte.byte_eq_dec]. Qed.

Lemma event_eq_dec (a b : event) : {a = b} + {a <> b}.
Proof. decide equality; try apply rkey_eq_dec. apply N.eq_dec. Qed.

(* the facts sampled from the source are the ones the model was written against *)
Lemma source_facts :
  replay_keyf_linear = true /\ replay_cmp_unsigned = true /\ replay_cmp_time_tiebreak = true /\
  replay_cmp_mac_first = true /\ replay_cmp_len = replay_mac_len /\
  N.of_nat replay_mac_len = munge_minimum_md_len /\
  replay_expired_when_lt = true /\ replay_expired_when_eq = false /\ replay_expired_when_gt = false /\
  replay_texp_wraps32 = false /\ replay_texp_exact = true /\ 0 < replay_hash_size /\ 0 < replay_purge_secs.
Proof. repeat split. Qed.

Lemma c_slot_ok size : 0 < size -> slots_ok (c_slot size) (N.to_nat size).
Proof.
  intros H k. unfold c_slot. assert (replay_keyf k mod size < size) by (apply N.mod_lt; lia). lia.
Qed.

Section ReplayProofs.
  Variable slot_of : rkey -> nat.
  Variable nslots : nat.
  Hypothesis Hs : slots_ok slot_of nslots.

  Notation inv := (rinv slot_of nslots).
  Notation rins := (replay_insert slot_of).
  Notation rrem := (replay_remove slot_of).
  Notation rstep := (step slot_of).
  Notation rrun := (run slot_of).
  Notation rfinal := (final slot_of).

  Ltac hyps := first [exact replay_cmp_eq | exact replay_cmp_antisym | exact replay_cmp_trans
                      | exact Hs | assumption].

  Lemma rinv_create : inv (create nslots).
  Proof. apply (inv_create rkey replay_cmp slot_of nslots). Qed.

  Lemma rabs_nodup t : inv t -> NoDup (abs t).
  Proof. intros H. apply (abs_nodup rkey replay_cmp slot_of nslots); hyps. Qed.

  Lemma rfind_spec t k : inv t -> (replay_find slot_of k t = true <-> In k (abs t)).
  Proof. intros H. apply (find_spec rkey replay_cmp slot_of nslots); hyps. Qed.

  Lemma rins_spec t k : inv t ->
    inv (snd (rins k t)) /\ (fst (rins k t) = AlreadyExists <-> In k (abs t)) /\
    (fst (rins k t) = AlreadyExists -> snd (rins k t) = t) /\
    (forall x, In x (abs (snd (rins k t))) <-> x = k \/ In x (abs t)) /\
    (fst (rins k t) = Inserted -> count (snd (rins k t)) = count t + 1).
  Proof. intros H. apply (insert_spec rkey replay_cmp slot_of nslots); hyps. Qed.

  Lemma rins_new t k : inv t -> (fst (rins k t) = Inserted <-> ~ In k (abs t)).
  Proof.
    intros H. destruct (rins_spec t k H) as (_ & E & _). destruct (fst (rins k t)).
    - split; [|reflexivity]. intros _ Hin. apply E in Hin. discriminate.
    - split; [discriminate|]. intros Hn. exfalso. apply Hn, E. reflexivity.
  Qed.

  Lemma rrem_spec t k : inv t ->
    inv (snd (rrem k t)) /\ (fst (rrem k t) = true <-> In k (abs t)) /\
    (fst (rrem k t) = false -> snd (rrem k t) = t) /\
    (forall x, In x (abs (snd (rrem k t))) <-> x <> k /\ In x (abs t)) /\
    (fst (rrem k t) = true -> count (snd (rrem k t)) + 1 = count t).
  Proof. intros H. apply (remove_spec rkey replay_cmp slot_of nslots); hyps. Qed.

  Lemma rpurge_spec t now : inv t ->
    inv (snd (replay_purge now t)) /\
    abs (snd (replay_purge now t)) = filter (fun k => now <=? snd k) (abs t) /\
    fst (replay_purge now t) = N.of_nat (length (filter (fun k => snd k <? now) (abs t))) /\
    count (snd (replay_purge now t)) + fst (replay_purge now t) = count t.
  Proof.
    intros H.
    assert (D : let r := delete_if rkey (is_expired now) t in
                inv (snd r) /\ abs (snd r) = filter (fun k => negb (is_expired now k)) (abs t) /\
                fst r = N.of_nat (length (filter (is_expired now) (abs t))) /\ count (snd r) + fst r = count t)
      by (apply (delete_if_spec rkey replay_cmp slot_of nslots); hyps).
    cbv zeta in D. destruct D as (H1 & H2 & H3 & H4).
    split; [exact H1|]. split; [|split; [|exact H4]].
    - unfold replay_purge. rewrite H2. apply filter_ext. intros k. apply keep_spec.
    - unfold replay_purge. rewrite H3.
      now rewrite (filter_ext (is_expired now) (fun k => snd k <? now) (is_expired_spec now)).
  Qed.

  (* --- run / final / step --- *)
  Lemma run_cons st e h :
    rrun st (e :: h) =
    (fst (rrun (fst (rstep st e)) h), snd (rstep st e) :: snd (rrun (fst (rstep st e)) h)).
  Proof. cbn [run]. destruct (rstep st e) as [st1 o]. cbn [fst snd]. destruct (rrun st1 h) as [st2 os]. reflexivity. Qed.

  Lemma final_cons st e h : rfinal st (e :: h) = rfinal (fst (rstep st e)) h.
  Proof. unfold final. now rewrite run_cons. Qed.

  Lemma final_app st h1 h2 : rfinal st (h1 ++ h2) = rfinal (rfinal st h1) h2.
  Proof.
    revert st; induction h1 as [|e h IH]; intros st; [reflexivity|].
    cbn [app]. rewrite !final_cons. apply IH.
  Qed.

  Lemma step_present st k : rstep st (EPresent k) =
    (mkS (snd (rins k (tbl st))) (clock st),
     match fst (rins k (tbl st)) with Inserted => OInserted | AlreadyExists => OExists end).
  Proof. cbn [step]. destruct (rins k (tbl st)); reflexivity. Qed.

  Lemma step_fail st k : rstep st (EFail k) = (st, ONone).
  Proof. reflexivity. Qed.

  Lemma step_remove st k : rstep st (ERemove k) =
    (mkS (snd (rrem k (tbl st))) (clock st), ORemoved (fst (rrem k (tbl st)))).
  Proof. cbn [step]. destruct (rrem k (tbl st)); reflexivity. Qed.

  Lemma step_purge st : rstep st EPurge =
    (mkS (snd (replay_purge (clock st) (tbl st))) (clock st),
     OPurged (fst (replay_purge (clock st) (tbl st)))).
  Proof. cbn [step]. destruct (replay_purge (clock st) (tbl st)); reflexivity. Qed.

  Lemma step_tick st d : rstep st (ETick d) = (mkS (tbl st) (clock st + d), ONone).
  Proof. reflexivity. Qed.

  Lemma step_inv st e : inv (tbl st) -> inv (tbl (fst (rstep st e))).
  Proof.
    intros H. destruct e as [k|k|k| |d].
    - rewrite step_present. cbn [fst tbl]. exact (proj1 (rins_spec _ k H)).
    - exact H.
    - rewrite step_remove. cbn [fst tbl]. exact (proj1 (rrem_spec _ k H)).
    - rewrite step_purge. cbn [fst tbl]. exact (proj1 (rpurge_spec _ (clock st) H)).
    - exact H.
  Qed.

  Lemma step_clock st e : clock st <= clock (fst (rstep st e)).
  Proof.
    destruct e as [k|k|k| |d].
    - rewrite step_present. cbn [fst clock]. lia.
    - rewrite step_fail. cbn [fst]. lia.
    - rewrite step_remove. cbn [fst clock]. lia.
    - rewrite step_purge. cbn [fst clock]. lia.
    - rewrite step_tick. cbn [fst clock]. lia.
  Qed.

  Lemma final_inv st h : inv (tbl st) -> inv (tbl (rfinal st h)).
  Proof.
    revert st; induction h as [|e h IH]; intros st H; [exact H|].
    rewrite final_cons. apply IH. now apply step_inv.
  Qed.

  Lemma final_clock st h : clock st <= clock (rfinal st h).
  Proof.
    revert st; induction h as [|e h IH]; intros st; [cbn; lia|].
    rewrite final_cons. pose proof (step_clock st e). specialize (IH (fst (rstep st e))). lia.
  Qed.

  Lemma present_out st k : inv (tbl st) ->
    (snd (rstep st (EPresent k)) = OExists <-> In k (abs (tbl st))) /\
    (snd (rstep st (EPresent k)) = OInserted <-> ~ In k (abs (tbl st))).
  Proof.
    intros H. rewrite step_present. cbn [snd].
    destruct (rins_spec _ k H) as (_ & E & _). pose proof (rins_new _ k H) as E'.
    destruct (fst (rins k (tbl st))).
    - split.
      + split; [discriminate|]. intros Hin. apply E in Hin. discriminate.
      + split; [intros _; now apply E'|reflexivity].
    - split.
      + split; [intros _; now apply E|reflexivity].
      + split; [discriminate|]. intros Hn. exfalso. apply Hn. now apply E.
  Qed.

  Lemma present_abs st k : inv (tbl st) ->
    forall x, In x (abs (tbl (fst (rstep st (EPresent k))))) <-> x = k \/ In x (abs (tbl st)).
  Proof.
    intros H x. rewrite step_present. cbn [fst tbl].
    destruct (rins_spec _ k H) as (_ & _ & _ & E & _). apply E.
  Qed.

  Lemma present_same st k : inv (tbl st) -> snd (rstep st (EPresent k)) = OExists ->
    tbl (fst (rstep st (EPresent k))) = tbl st.
  Proof.
    intros H. rewrite step_present. cbn [fst snd tbl].
    destruct (rins_spec _ k H) as (_ & _ & E & _).
    destruct (fst (rins k (tbl st))); [discriminate|]. intros _. now apply E.
  Qed.

  Lemma present_out_eq st st' k : inv (tbl st) -> inv (tbl st') ->
    (In k (abs (tbl st')) <-> In k (abs (tbl st))) ->
    snd (rstep st' (EPresent k)) = snd (rstep st (EPresent k)).
  Proof.
    intros H H' Hiff. rewrite (step_present st k), (step_present st' k). cbn [snd].
    pose proof (rins_spec _ k H) as (_ & A & _). pose proof (rins_spec _ k H') as (_ & B & _).
    destruct (fst (rins k (tbl st))), (fst (rins k (tbl st'))); try reflexivity; exfalso.
    - assert (X : In k (abs (tbl st'))) by (now apply B). apply Hiff, A in X. discriminate.
    - assert (X : In k (abs (tbl st))) by (now apply A). apply Hiff, B in X. discriminate.
  Qed.

  (* --- C05: sequential --- *)
  Theorem at_most_once_seq st h : inv (tbl st) -> Forall decode_only h ->
    forall i k, nth_error h i = Some (EPresent k) ->
    (nth_error (snd (rrun st h)) i = Some OExists <->
       (In k (abs (tbl st)) \/ In (EPresent k) (firstn i h))) /\
    (nth_error (snd (rrun st h)) i = Some OInserted <->
       ~ (In k (abs (tbl st)) \/ In (EPresent k) (firstn i h))).
  Proof.
    revert st. induction h as [|e h IH]; intros st Hi Hd i k Hn; [destruct i; discriminate|].
    inversion Hd as [|? ? He Hd']; subst. rewrite run_cons. cbn [snd].
    destruct i as [|i].
    - cbn in Hn. injection Hn as ->. cbn [nth_error firstn].
      destruct (present_out st k Hi) as [P1 P2]. split.
      + split.
        * intros [= E]. left. now apply P1.
        * intros [Hin|[]]. f_equal. now apply P1.
      + split.
        * intros [= E] [Hin|[]]. now apply P2 in E.
        * intros Hnot. f_equal. apply P2. tauto.
    - cbn in Hn. cbn [nth_error firstn].
      specialize (IH (fst (rstep st e)) (step_inv st e Hi) Hd' i k Hn). destruct IH as [I1 I2].
      assert (Hiff : (In k (abs (tbl (fst (rstep st e)))) \/ In (EPresent k) (firstn i h)) <->
                     (In k (abs (tbl st)) \/ In (EPresent k) (e :: firstn i h))).
      { destruct e as [k'|k'|k'| |d]; try (now destruct He).
        - rewrite (present_abs st k' Hi k). cbn [In]. split.
          + intros [[->|H]|H]; auto.
          + intros [H|[[= ->]|H]]; auto.
        - rewrite step_fail. cbn [fst In]. split.
          + intros [H|H]; auto.
          + intros [H|[H|H]]; auto. discriminate. }
      tauto.
  Qed.

  Theorem exactly_one_seq st h k : inv (tbl st) -> Forall decode_only h ->
    ~ In k (abs (tbl st)) -> In (EPresent k) h ->
    exists i, nth_error h i = Some (EPresent k) /\ nth_error (snd (rrun st h)) i = Some OInserted /\
      forall j, j <> i -> nth_error h j = Some (EPresent k) ->
                nth_error (snd (rrun st h)) j = Some OExists.
  Proof.
    intros Hi Hd Hn Hin. destruct (first_occurrence event_eq_dec _ _ Hin) as (i & Hnth & Hfirst).
    exists i. split; [exact Hnth|]. split.
    - apply (at_most_once_seq st h Hi Hd i k Hnth). tauto.
    - intros j Hj Hnj. apply (at_most_once_seq st h Hi Hd j k Hnj). right.
      destruct (Nat.lt_ge_cases j i) as [L|L].
      + exfalso. apply Hfirst. apply (nth_error_In (firstn i h) j).
        rewrite nth_error_firstn_lt by exact L. exact Hnj.
      + assert (L' : (i < j)%nat) by lia. apply (nth_error_In (firstn j h) i).
        rewrite nth_error_firstn_lt by exact L'. exact Hnth.
  Qed.

  (* --- C05: other keys never change the verdict --- *)
  Lemma untouched_step st e k : inv (tbl st) -> ~ touches k e ->
    (In k (abs (tbl (fst (rstep st e)))) <-> In k (abs (tbl st))).
  Proof.
    intros Hi Ht. destruct e as [k'|k'|k'| |d]; cbn [touches] in Ht.
    - rewrite (present_abs st k' Hi k). split; [|auto]. intros [->|H]; [now contradiction Ht|exact H].
    - rewrite step_fail. reflexivity.
    - rewrite step_remove; cbn [fst tbl]. destruct (rrem_spec _ k' Hi) as (_ & _ & _ & E & _).
      rewrite E. split; [tauto|]. intros H. split; [|exact H]. intros ->. now apply Ht.
    - now contradiction Ht.
    - rewrite step_tick. reflexivity.
  Qed.

  Theorem distinct_keys st h k : inv (tbl st) -> Forall (fun e => ~ touches k e) h ->
    (In k (abs (tbl (rfinal st h))) <-> In k (abs (tbl st))) /\
    snd (rstep (rfinal st h) (EPresent k)) = snd (rstep st (EPresent k)).
  Proof.
    intros Hi Hf.
    assert (M : In k (abs (tbl (rfinal st h))) <-> In k (abs (tbl st))).
    { revert st Hi. induction h as [|e h IH]; intros st Hi; [reflexivity|].
      inversion Hf as [|? ? He Hf']; subst. rewrite final_cons.
      rewrite (IH Hf' _ (step_inv st e Hi)). now apply untouched_step. }
    split; [exact M|]. apply present_out_eq; auto. now apply final_inv.
  Qed.

  (* --- C05: failed attempts --- *)
  Theorem fails_invisible st h :
    rfinal st (filter (fun e => negb (is_fail e)) h) = rfinal st h /\
    snd (rrun st (filter (fun e => negb (is_fail e)) h)) =
      map snd (filter (fun p => negb (is_fail (fst p))) (combine h (snd (rrun st h)))).
  Proof.
    revert st; induction h as [|e h IH]; intros st; [split; reflexivity|].
    rewrite (run_cons st e h). cbn [snd combine filter fst].
    destruct (is_fail e) eqn:F; cbn [negb].
    - destruct e; try discriminate. rewrite final_cons, step_fail. cbn [fst]. apply IH.
    - rewrite !final_cons, run_cons. cbn [snd map].
      destruct (IH (fst (rstep st e))) as [I1 I2]. split; [exact I1|]. now rewrite I2.
  Qed.

  (* --- C05: concurrent --- *)
  Lemma nth_error_map_none {A B} (l : list A) j x :
    nth_error l j = Some x -> nth_error (map (fun _ => @None B) l) j = Some None.
  Proof. revert j; induction l as [|a r IH]; intros [|j]; cbn; try discriminate; auto. Qed.

  Notation pend_or_ex rs j := (nth_error rs j = Some None \/ nth_error rs j = Some (Some AlreadyExists)).

  Definition cinv (reqs : list rkey) (t0 : rtable) (st : cstate) : Prop :=
    inv (fst st) /\ length (snd st) = length reqs /\
    (forall k, In k (abs t0) ->
       In k (abs (fst st)) /\ forall j, nth_error reqs j = Some k -> pend_or_ex (snd st) j) /\
    (forall k, ~ In k (abs t0) ->
       (~ In k (abs (fst st)) /\ forall j, nth_error reqs j = Some k -> nth_error (snd st) j = Some None) \/
       (In k (abs (fst st)) /\
        exists i, nth_error reqs i = Some k /\ nth_error (snd st) i = Some (Some Inserted) /\
          forall j, j <> i -> nth_error reqs j = Some k -> pend_or_ex (snd st) j)).

  Lemma cinit_cinv reqs t0 : inv t0 -> cinv reqs t0 (cinit reqs t0).
  Proof.
    intros H. unfold cinit. split; [exact H|]. cbn [fst snd]. split; [apply map_length|]. split.
    - intros k Hk. split; [exact Hk|]. intros j Hj. left. now apply (nth_error_map_none reqs j k).
    - intros k Hk. left. split; [exact Hk|]. intros j Hj. now apply (nth_error_map_none reqs j k).
  Qed.

  Lemma cstep_cinv reqs t0 st i : cinv reqs t0 st -> cinv reqs t0 (cstep slot_of reqs st i).
  Proof.
    intros J. pose proof J as (J1 & J2 & J4 & J5). unfold cstep. destruct st as [t rs]; cbn [fst snd] in *.
    destruct (nth_error reqs i) as [k|] eqn:Ei; [|exact J].
    destruct (nth_error rs i) as [[r0|]|] eqn:Ri; try exact J.
    pose proof (rins_spec t k J1) as X. pose proof (rins_new t k J1) as I5.
    destruct (rins k t) as [r t'] eqn:Er. cbn [fst snd] in *.
    destruct X as (I1 & I2 & I3 & I4 & _).
    assert (Hil : (i < length rs)%nat) by (apply nth_error_Some; congruence).
    split; [exact I1|]. cbn [fst snd]. split; [now rewrite upd_length|]. split.
    - intros κ Hκ. destruct (J4 κ Hκ) as [A B]. split; [apply I4; auto|].
      intros j Hj. destruct (Nat.eq_dec i j) as [<-|Hne].
      + rewrite nth_error_upd_same by exact Hil. right.
        assert (k = κ) by congruence. subst κ.
        assert (r = AlreadyExists) by (now apply I2). now subst r.
      + rewrite nth_error_upd_other by exact Hne. now apply B.
    - intros κ Hκ. destruct (rkey_eq_dec κ k) as [->|Hne].
      + destruct (J5 k Hκ) as [[A B]|[A (w & W1 & W2 & W3)]].
        * right. split; [apply I4; now left|]. exists i.
          assert (r = Inserted) by (now apply I5). subst r.
          split; [exact Ei|]. split; [now apply nth_error_upd_same|].
          intros j Hj Hr. rewrite nth_error_upd_other by auto. left. now apply B.
        * right. split; [apply I4; now right|].
          assert (r = AlreadyExists) by (now apply I2). subst r.
          exists w. assert (Hw : i <> w) by (intros ->; congruence).
          split; [exact W1|]. split; [rewrite nth_error_upd_other by exact Hw; exact W2|].
          intros j Hj Hr. destruct (Nat.eq_dec i j) as [<-|Hne].
          -- rewrite nth_error_upd_same by exact Hil. now right.
          -- rewrite nth_error_upd_other by exact Hne. now apply W3.
      + assert (Hm : In κ (abs t') <-> In κ (abs t)).
        { rewrite I4. split; [|auto]. intros [E|E]; [contradiction|exact E]. }
        assert (Hj : forall j, nth_error reqs j = Some κ -> i <> j) by (intros j Hj ->; congruence).
        destruct (J5 κ Hκ) as [[A B]|[A (w & W1 & W2 & W3)]].
        * left. split; [now rewrite Hm|]. intros j Hr.
          rewrite nth_error_upd_other by (now apply Hj). now apply B.
        * right. split; [now apply Hm|]. exists w. split; [exact W1|].
          split; [rewrite nth_error_upd_other by (now apply Hj); exact W2|].
          intros j Hjw Hr. rewrite nth_error_upd_other by (now apply Hj). now apply W3.
  Qed.

  Lemma crun_cinv reqs t0 sched : forall st, cinv reqs t0 st -> cinv reqs t0 (crun slot_of reqs sched st).
  Proof.
    induction sched as [|i s IH]; intros st J; [exact J|].
    unfold crun. cbn [fold_left]. apply IH. now apply cstep_cinv.
  Qed.

  Lemma done_not_pending rs j : all_done rs -> nth_error rs j = Some None -> False.
  Proof.
    intros Hd Hn. apply nth_error_In in Hn. unfold all_done in Hd. rewrite Forall_forall in Hd.
    now apply (Hd None Hn).
  Qed.

  Theorem at_most_once_conc reqs sched t0 : inv t0 ->
    let st := crun slot_of reqs sched (cinit reqs t0) in
    all_done (snd st) ->
    forall k,
      (In k (abs t0) -> forall j, nth_error reqs j = Some k ->
                        nth_error (snd st) j = Some (Some AlreadyExists)) /\
      (~ In k (abs t0) -> In k reqs ->
         exists i, nth_error reqs i = Some k /\ nth_error (snd st) i = Some (Some Inserted) /\
           forall j, j <> i -> nth_error reqs j = Some k ->
                     nth_error (snd st) j = Some (Some AlreadyExists)).
  Proof.
    intros H st Hd k.
    pose proof (crun_cinv reqs t0 sched _ (cinit_cinv reqs t0 H)) as (J1 & J2 & J4 & J5). fold st in J1, J2, J4, J5.
    split.
    - intros Hk j Hj. destruct (J4 k Hk) as [_ B]. destruct (B j Hj) as [N|E]; [|exact E].
      exfalso. exact (done_not_pending _ j Hd N).
    - intros Hk Hin. apply In_nth_error in Hin. destruct Hin as (j0 & Hj0).
      destruct (J5 k Hk) as [[_ B]|[_ (w & W1 & W2 & W3)]].
      + exfalso. exact (done_not_pending _ j0 Hd (B j0 Hj0)).
      + exists w. split; [exact W1|]. split; [exact W2|]. intros j Hj Hr.
        destruct (W3 j Hj Hr) as [N|E]; [|exact E]. exfalso. exact (done_not_pending _ j Hd N).
  Qed.

  (* every schedule that gives each request its turn is complete (the premise all_done is satisfiable) *)
  Lemma cstep_keeps_done reqs st i j r :
    nth_error (snd st) j = Some (Some r) -> exists r', nth_error (snd (cstep slot_of reqs st i)) j = Some (Some r').
  Proof.
    intros Hj. unfold cstep. destruct (nth_error reqs i) as [k|]; [|eauto].
    destruct (nth_error (snd st) i) as [[r0|]|] eqn:Ri; eauto.
    destruct (rins k (fst st)) as [r1 t']. cbn [snd].
    destruct (Nat.eq_dec i j) as [<-|Hne]; [congruence|].
    rewrite nth_error_upd_other by exact Hne. eauto.
  Qed.

  Lemma cstep_len reqs st i : length (snd (cstep slot_of reqs st i)) = length (snd st).
  Proof.
    unfold cstep. destruct (nth_error reqs i) as [k|]; [|reflexivity].
    destruct (nth_error (snd st) i) as [[r0|]|]; try reflexivity.
    destruct (rins k (fst st)) as [r1 t']. cbn [snd]. apply upd_length.
  Qed.

  Lemma crun_keeps_done reqs sched : forall st j r,
    nth_error (snd st) j = Some (Some r) ->
    exists r', nth_error (snd (crun slot_of reqs sched st)) j = Some (Some r').
  Proof.
    induction sched as [|i s IH]; intros st j r Hj; [eauto|].
    unfold crun. cbn [fold_left]. destruct (cstep_keeps_done reqs st i j r Hj) as (r' & Hr').
    exact (IH _ j r' Hr').
  Qed.

  Lemma crun_len reqs sched : forall st, length (snd (crun slot_of reqs sched st)) = length (snd st).
  Proof.
    induction sched as [|i s IH]; intros st; [reflexivity|].
    unfold crun. cbn [fold_left]. fold (crun slot_of reqs s (cstep slot_of reqs st i)).
    now rewrite IH, cstep_len.
  Qed.

  Theorem fair_schedule_completes reqs sched t0 :
    (forall i, (i < length reqs)%nat -> In i sched) ->
    all_done (snd (crun slot_of reqs sched (cinit reqs t0))).
  Proof.
    intros Hfair. unfold all_done. apply Forall_forall. intros x Hx.
    apply In_nth_error in Hx. destruct Hx as (j & Hj).
    assert (Hlen : (j < length reqs)%nat).
    { assert (L : (j < length (snd (crun slot_of reqs sched (cinit reqs t0))))%nat)
        by (apply nth_error_Some; congruence).
      rewrite crun_len in L. unfold cinit in L. cbn [snd] in L. now rewrite map_length in L. }
    specialize (Hfair j Hlen). apply in_split in Hfair. destruct Hfair as (s1 & s2 & ->).
    unfold crun in *. rewrite fold_left_app in Hj. cbn [fold_left] in Hj.
    set (st1 := fold_left (cstep slot_of reqs) s1 (cinit reqs t0)) in *.
    assert (L1 : length (snd st1) = length reqs).
    { unfold st1. fold (crun slot_of reqs s1 (cinit reqs t0)). rewrite crun_len. unfold cinit. cbn [snd]. apply map_length. }
    assert (D : exists r, nth_error (snd (cstep slot_of reqs st1 j)) j = Some (Some r)).
    { unfold cstep. destruct (nth_error reqs j) as [k|] eqn:Ek; [|apply nth_error_None in Ek; lia].
      destruct (nth_error (snd st1) j) as [[r0|]|] eqn:Rj.
      - eauto.
      - destruct (rins k (fst st1)) as [r1 t']. cbn [snd]. exists r1. apply nth_error_upd_same. lia.
      - apply nth_error_None in Rj. lia. }
    destruct D as (r & Hr).
    destruct (crun_keeps_done reqs s2 _ j r Hr) as (r' & Hr'). unfold crun in Hr'. congruence.
  Qed.

  (* --- C07 --- *)
  Theorem purge_exact t now : inv t ->
    inv (snd (replay_purge now t)) /\
    abs (snd (replay_purge now t)) = filter (fun k => now <=? snd k) (abs t) /\
    (forall k, In k (abs (snd (replay_purge now t))) <-> In k (abs t) /\ now <= snd k) /\
    fst (replay_purge now t) = N.of_nat (length (filter (fun k => snd k <? now) (abs t))) /\
    count (snd (replay_purge now t)) + fst (replay_purge now t) = count t.
  Proof.
    intros H. destruct (rpurge_spec t now H) as (H1 & H2 & H3 & H4).
    split; [exact H1|]. split; [exact H2|]. split; [|split; [exact H3|exact H4]].
    intros k. rewrite H2, filter_In, N.leb_le. reflexivity.
  Qed.

  Lemma survives st h k : inv (tbl st) -> In k (abs (tbl st)) ->
    Forall (fun e => ~ removes k e) h -> clock (rfinal st h) <= snd k ->
    In k (abs (tbl (rfinal st h))).
  Proof.
    revert st; induction h as [|e h IH]; intros st Hi Hin Hr Hc; [exact Hin|].
    inversion Hr as [|? ? He Hr']; subst. rewrite final_cons in *.
    pose proof (final_clock (fst (rstep st e)) h) as Hm.
    apply IH; auto using step_inv.
    destruct e as [k'|k'|k'| |d].
    - apply (present_abs st k' Hi k). now right.
    - exact Hin.
    - rewrite step_remove; cbn [fst tbl]. apply (rrem_spec _ k' Hi). split; [|exact Hin].
      intros ->. now apply He.
    - rewrite step_purge in *; cbn [fst tbl clock] in *.
      apply (purge_exact (tbl st) (clock st) Hi). split; [exact Hin|lia].
    - exact Hin.
  Qed.

  Theorem replay_until_last_valid_second st0 h1 h2 k : inv (tbl st0) ->
    Forall (fun e => ~ removes k e) h2 ->
    let st1 := rfinal st0 (h1 ++ [EPresent k]) in
    let st2 := rfinal st1 h2 in
    clock st2 <= snd k ->
    snd (rstep st2 (EPresent k)) = OExists /\ tbl (fst (rstep st2 (EPresent k))) = tbl st2.
  Proof.
    intros Hi Hr st1 st2 Hc.
    assert (I1 : inv (tbl st1)) by (apply final_inv, Hi).
    assert (I2 : inv (tbl st2)) by (apply final_inv, I1).
    assert (M1 : In k (abs (tbl st1))).
    { unfold st1. rewrite final_app, final_cons. cbn [final run fst].
      apply (present_abs _ k (final_inv st0 h1 Hi)). now left. }
    assert (M2 : In k (abs (tbl st2))) by (apply survives; auto).
    assert (O : snd (rstep st2 (EPresent k)) = OExists) by (now apply (present_out st2 k I2)).
    split; [exact O|]. now apply present_same.
  Qed.

  Theorem discarded_then st : inv (tbl st) ->
    forall k, In k (abs (tbl (fst (rstep st EPurge)))) -> clock st <= snd k.
  Proof.
    intros H k. rewrite step_purge. cbn [fst tbl]. intros Hin.
    now apply (purge_exact (tbl st) (clock st) H) in Hin.
  Qed.

  (* --- C07: retention bound --- *)
  Notation gstp := (gstep slot_of).
  Notation grn := (grun slot_of).

  Definition ginv (w : N) (g : gstate) : Prop :=
    inv (tbl (gst g)) /\ glast g <= clock (gst g) /\
    (forall k td, In (k, td) (glog g) -> td <= clock (gst g) /\ snd k <= td + w) /\
    (forall k, In k (abs (tbl (gst g))) ->
       exists td, In (k, td) (glog g) /\ (glast g <= snd k \/ glast g <= td)).

  Lemma gst_gstep g e : gst (gstp g e) = fst (rstep (gst g) e).
  Proof. unfold gstep. destruct (rstep (gst g) e). reflexivity. Qed.

  Lemma ginit_ginv w c0 : ginv w (ginit nslots c0).
  Proof.
    unfold ginit, ginv; cbn [gst glog glast tbl clock]. split; [apply rinv_create|]. split; [lia|].
    split; [intros k td []|]. intros k Hk. exfalso.
    unfold abs, create in Hk. cbn [chains] in Hk. rewrite concat_repeat_nil in Hk. destruct Hk.
  Qed.

  Lemma gstep_ginv w g e : ginv w g ->
    match e return Prop with EPresent k => snd k <= clock (gst g) + w | _ => True end ->
    ginv w (gstp g e).
  Proof.
    intros (G1 & G2 & G3 & G4) Ha. destruct g as [st lg lp]; cbn [gst glog glast] in *.
    destruct e as [k|k|k| |d]; unfold gstep; cbn [gst glog glast].
    - rewrite step_present.
      destruct (rins_spec _ k G1) as (I1 & I2 & I3 & I4 & _). pose proof (rins_new _ k G1) as I5.
      destruct (fst (rins k (tbl st))) eqn:F; unfold ginv; cbn [gst glog glast tbl clock].
      + split; [exact I1|]. split; [exact G2|]. split.
        * intros x td [[= <- <-]|Hin]; [split; [lia|exact Ha]|]. now apply G3.
        * intros x Hx. apply I4 in Hx. destruct Hx as [->|Hx].
          -- exists (clock st). split; [now left|now right].
          -- destruct (G4 x Hx) as (td & T1 & T2). exists td. split; [now right|exact T2].
      + rewrite (I3 eq_refl). split; [exact G1|]. split; [exact G2|]. split; [exact G3|exact G4].
    - rewrite step_fail. unfold ginv; cbn [gst glog glast]. auto.
    - rewrite step_remove. unfold ginv; cbn [gst glog glast tbl clock].
      destruct (rrem_spec _ k G1) as (I1 & _ & _ & I4 & _).
      split; [exact I1|]. split; [exact G2|]. split; [exact G3|].
      intros x Hx. apply I4 in Hx. now apply G4.
    - rewrite step_purge. unfold ginv; cbn [gst glog glast tbl clock].
      destruct (purge_exact (tbl st) (clock st) G1) as (I1 & _ & I3 & _).
      split; [exact I1|]. split; [lia|]. split; [exact G3|].
      intros x Hx. apply I3 in Hx. destruct Hx as [Hx Hc].
      destruct (G4 x Hx) as (td & T1 & _). exists td. split; [exact T1|now left].
    - rewrite step_tick. unfold ginv; cbn [gst glog glast tbl clock].
      split; [exact G1|]. split; [lia|]. split; [|exact G4].
      intros x td Hin. destruct (G3 x td Hin). split; [lia|assumption].
  Qed.

  Lemma grun_ginv w h : forall g, ginv w g -> admissible slot_of w (gst g) h -> ginv w (grn g h).
  Proof.
    induction h as [|e h IH]; intros g G Ha; [exact G|].
    cbn [admissible] in Ha. destruct Ha as [A1 A2].
    unfold grun. cbn [fold_left]. apply IH.
    - now apply gstep_ginv.
    - now rewrite gst_gstep.
  Qed.

  Lemma count_le_log (l : list rkey) (L : list (rkey * N)) (f : rkey * N -> bool) :
    NoDup l -> (forall k, In k l -> exists td, In (k, td) L /\ f (k, td) = true) ->
    (length l <= length (filter f L))%nat.
  Proof.
    intros Hn Hw. rewrite <- (map_length fst (filter f L)). apply NoDup_incl_length; [exact Hn|].
    intros k Hk. destruct (Hw k Hk) as (td & T1 & T2). apply in_map_iff. exists (k, td).
    split; [reflexivity|]. apply filter_In. now split.
  Qed.

  Theorem cache_bound w c0 h : admissible slot_of w (mkS (create nslots) c0) h ->
    let g := grn (ginit nslots c0) h in
    let now := clock (gst g) in
    (* every record present was created by a presentation logged at td, inside its window, and either it
       has not yet seen a purge since, or it survived the last purge because it had not expired then *)
    (forall k, In k (abs (tbl (gst g))) ->
       exists td, In (k, td) (glog g) /\ td <= now /\ snd k <= td + w /\ (glast g <= snd k \/ glast g <= td)) /\
    (* hence: only records created during the last w seconds before the last purge, or later *)
    (forall k, In k (abs (tbl (gst g))) -> exists td, In (k, td) (glog g) /\ td <= now /\ glast g <= td + w) /\
    count (tbl (gst g)) <= N.of_nat (length (filter (fun p => glast g <=? snd p + w) (glog g))) /\
    (* with a purge at least every p seconds: only records created during the last w + p seconds *)
    (forall p, now <= glast g + p ->
       count (tbl (gst g)) <= N.of_nat (length (filter (fun q => now <=? snd q + w + p) (glog g)))).
  Proof.
    intros Ha g now.
    assert (G : ginv w g) by (apply grun_ginv; [apply ginit_ginv|exact Ha]).
    destruct G as (G1 & G2 & G3 & G4). fold now in G2, G3.
    assert (P1 : forall k, In k (abs (tbl (gst g))) ->
       exists td, In (k, td) (glog g) /\ td <= now /\ snd k <= td + w /\ (glast g <= snd k \/ glast g <= td)).
    { intros k Hk. destruct (G4 k Hk) as (td & T1 & T2). exists td. destruct (G3 k td T1). auto. }
    assert (P2 : forall k, In k (abs (tbl (gst g))) -> exists td, In (k, td) (glog g) /\ td <= now /\ glast g <= td + w).
    { intros k Hk. destruct (P1 k Hk) as (td & T1 & T2 & T3 & T4). exists td. split; [exact T1|]. split; [exact T2|]. lia. }
    split; [exact P1|]. split; [exact P2|].
    pose proof (rabs_nodup _ G1) as Hnd.
    assert (Hcnt : count (tbl (gst g)) = N.of_nat (length (abs (tbl (gst g))))) by (now destruct G1 as (_ & _ & E)).
    split.
    - rewrite Hcnt.
      assert (length (abs (tbl (gst g))) <= length (filter (fun p => (glast g <=? snd p + w)%N) (glog g)))%nat.
      { apply count_le_log; [exact Hnd|]. intros k Hk. destruct (P2 k Hk) as (td & T1 & _ & T3).
        exists td. split; [exact T1|]. cbn [snd]. apply N.leb_le. exact T3. }
      lia.
    - intros p Hp. rewrite Hcnt.
      assert (length (abs (tbl (gst g))) <= length (filter (fun q => (now <=? snd q + w + p)%N) (glog g)))%nat.
      { apply count_le_log; [exact Hnd|]. intros k Hk. destruct (P2 k Hk) as (td & T1 & _ & T3).
        exists td. split; [exact T1|]. cbn [snd]. apply N.leb_le. lia. }
      lia.
  Qed.
End ReplayProofs.

(* ------------------------------------------------ closed forms used by Properties_C05/C07 *)
Theorem hash_refines_set : forall (slot_of : rkey -> nat) (nslots : nat), slots_ok slot_of nslots ->
  rinv slot_of nslots (create nslots) /\ abs (create nslots : rtable) = [] /\
  forall t : rtable, rinv slot_of nslots t ->
    NoDup (abs t) /\ count t = N.of_nat (length (abs t)) /\
    (forall k, replay_find slot_of k t = true <-> In k (abs t)) /\
    (forall k, let r := replay_insert slot_of k t in
       rinv slot_of nslots (snd r) /\
       (fst r = AlreadyExists <-> In k (abs t)) /\ (fst r = Inserted <-> ~ In k (abs t)) /\
       (fst r = AlreadyExists -> snd r = t) /\
       (fst r = Inserted -> count (snd r) = count t + 1) /\
       (forall x, In x (abs (snd r)) <-> x = k \/ In x (abs t))) /\
    (forall k, let r := replay_remove slot_of k t in
       rinv slot_of nslots (snd r) /\
       (fst r = true <-> In k (abs t)) /\ (fst r = false -> snd r = t) /\
       (fst r = true -> count (snd r) + 1 = count t) /\
       (forall x, In x (abs (snd r)) <-> x <> k /\ In x (abs t))) /\
    (forall now, let r := replay_purge now t in
       rinv slot_of nslots (snd r) /\
       (forall x, In x (abs (snd r)) <-> In x (abs t) /\ now <= snd x)).
Proof.
  intros slot_of nslots Hs. split; [now apply rinv_create|]. split.
  { unfold abs, create. cbn [chains]. apply concat_repeat_nil. }
  intros t H. split; [eapply rabs_nodup; eauto|].
  split; [now destruct H as (_ & _ & E)|].
  split; [intros k; eapply rfind_spec; eauto|].
  split; [|split].
  - intros k. cbv zeta. destruct (rins_spec slot_of nslots Hs t k H) as (I1 & I2 & I3 & I4 & I5).
    pose proof (rins_new slot_of nslots Hs t k H). auto 10.
  - intros k. cbv zeta. destruct (rrem_spec slot_of nslots Hs t k H) as (I1 & I2 & I3 & I4 & I5). auto 10.
  - intros now. cbv zeta. destruct (purge_exact slot_of nslots Hs t now H) as (I1 & _ & I3 & _). auto.
Qed.

(* the expiry component of a key is exactly time0 + ttl (ttl as capped by the caller): no 32-bit wrap *)
Theorem key_expiry_exact : forall time0 ttl : N, t_expired_of time0 ttl = time0 + ttl.
Proof. reflexivity. Qed.

(* bridge to a list-of-keys view of the replay set (CredModel: member test, k :: rs on insert, filter on
   roll-back): any list l with the same members as abs t stays so under the corresponding operations *)
Theorem abs_list_bridge : forall (slot_of : rkey -> nat) (nslots : nat), slots_ok slot_of nslots ->
  forall (t : rtable) (l : list rkey), rinv slot_of nslots t -> (forall x, In x l <-> In x (abs t)) ->
  forall k,
    (fst (replay_insert slot_of k t) = AlreadyExists <-> In k l) /\
    (fst (replay_insert slot_of k t) = Inserted <-> ~ In k l) /\
    (fst (replay_insert slot_of k t) = AlreadyExists -> snd (replay_insert slot_of k t) = t) /\
    (fst (replay_insert slot_of k t) = Inserted ->
       Permutation (abs (snd (replay_insert slot_of k t))) (k :: abs t)) /\
    (forall x, In x (k :: l) <-> In x (abs (snd (replay_insert slot_of k t)))) /\
    (fst (replay_remove slot_of k t) = true <-> In k l) /\
    (fst (replay_remove slot_of k t) = true ->
       Permutation (k :: abs (snd (replay_remove slot_of k t))) (abs t)) /\
    (forall l', (forall x, In x l' <-> In x l /\ x <> k) ->
                forall x, In x l' <-> In x (abs (snd (replay_remove slot_of k t)))).
Proof.
  intros slot_of nslots Hs t l H Hl k.
  destruct (rins_spec slot_of nslots Hs t k H) as (I1 & I2 & I3 & I4 & _).
  pose proof (rins_new slot_of nslots Hs t k H) as I5.
  destruct (rrem_spec slot_of nslots Hs t k H) as (R1 & R2 & _ & R4 & _).
  assert (Nt : NoDup (abs t)) by (eapply rabs_nodup; eauto).
  split; [rewrite I2; symmetry; apply Hl|].
  split; [rewrite I5; split; intros A B; apply A, Hl, B|].
  split; [exact I3|]. split; [|split; [|split; [|split]]].
  - intros E. apply NoDup_Permutation.
    + eapply rabs_nodup; eauto.
    + constructor; [now apply I5|exact Nt].
    + intros x. rewrite I4. cbn [In]. split; intros [A|A]; auto.
  - intros x. rewrite I4. cbn [In]. rewrite Hl. split; intros [A|A]; auto.
  - rewrite R2. symmetry. apply Hl.
  - intros E. apply NoDup_Permutation.
    + constructor; [|eapply rabs_nodup; eauto]. rewrite R4. tauto.
    + exact Nt.
    + intros x. cbn [In]. rewrite R4. split.
      * intros [<-|[_ A]]; [now apply R2|exact A].
      * intros A. destruct (rkey_eq_dec k x) as [->|Hne]; [now left|right]. split; [congruence|exact A].
  - intros l' Hl' x. rewrite Hl', R4, Hl. tauto.
Qed.
