(* driver.ml (group "start") — one case per line:
     P                 -> the program, in the step alphabet shared with tools/props/c15.py
     F                 -> what the model assumes lock.c asks the kernel for
     R k tok tok ...   -> run a schedule over processes 0..k-1 from the empty file system;
                          tok = sN (step) | cN (SIGKILL) | tN (SIGTERM); prints the final observation
                          or "blocked i" when token i is not enabled
     N hexsock hexpid hexseed -> the byte-string program of a daemon configured with these names (StartPathModel.cprog):
                          every step with the name it uses; the bind step as bind:<refuse>:<name>
     L umask           -> mode of the log file a background munged creates when invoked under that umask (decimal), and
                          whether the next life accepts it (StartLogModel)
     S                 -> sizes: sun_path, strlcpy size, bound of the length test, longest lock name
     C k conf.. ; tok.. ; name..  -> byte-string model: k processes, conf = hexsock,hexpid,hexseed each; schedule as
                          for R; then for every queried name (hex): <name>=<-|reg|sock>:<listener>:<lock holder>:<written by>
     X k ; prog.. ; tok..  -> as R, but over the given program text (step alphabet of P, plus getlk): StartSearchModel.xrun;
                          appends bound=<processes alive and listening on a socket they hold>
     Y k ; prog.. ; tok..  -> as X, but labels that are not enabled are skipped; appends " ; <schedule taken>"
     B k limit maxpre avoid_known ; prog..  -> search the interleavings (Step, Term; no SIGKILL) of k copies of the given
                          program for a state with two bound processes, fewest preemptions first, at most maxpre; avoid_known=1:
                          never take the F-C15-unlink transition (known_overlap).  Prints
                          "B found preempt=<n> states=<m> ; tok.." | "B none states=<m>" | "B limit states=<m>" *)
open Model
open Conv

let name_s = function NLock -> "lock" | NSock -> "sock" | NPid -> "pid" | NSeed -> "seed"
let prim_s = function
  | ReadSeed -> "read_seed" | OpenPid -> "open_pid" | OpenSeed -> "open_seed"
  | OpenLock -> "open_lock" | FstatLock -> "fstat_lock" | SetLk -> "setlk"
  | Unlink n -> "unlink:" ^ name_s n | Bind -> "bind" | Listen -> "listen" | WritePid -> "write_pid"
  | Serve -> "serve" | CloseSock -> "close_sock" | CloseLock -> "close_lock" | WriteSeed -> "write_seed"
  | Exit -> "exit"
let b x = if x then 1 else 0
let opt = function Some n -> string_of_int (int_of_nat n) | None -> "-"
let status_s = function 0 -> "notstarted" | 1 -> "running" | 2 -> "failed" | 3 -> "exited" | _ -> "killed"

let label_of tok =
  let n = nat_of_int (int_of_string (String.sub tok 1 (String.length tok - 1))) in
  match tok.[0] with 's' -> Step n | 'c' -> Crash n | 't' -> Term n | _ -> failwith "token"

(* run token by token to report where a schedule blocks *)
let rec run_toks s i = function
  | [] -> Ok s
  | t :: r -> (match run s [label_of t] with Some s' -> run_toks s' (i + 1) r | None -> Error i)

let xprim_of tok =
  match tok with
  | "getlk" -> XGetLk
  | "read_seed" -> XP ReadSeed | "open_lock" -> XP OpenLock | "fstat_lock" -> XP FstatLock | "setlk" -> XP SetLk
  | "unlink:lock" -> XP (Unlink NLock) | "unlink:sock" -> XP (Unlink NSock) | "unlink:pid" -> XP (Unlink NPid)
  | "unlink:seed" -> XP (Unlink NSeed) | "bind" -> XP Bind | "listen" -> XP Listen | "open_pid" -> XP OpenPid
  | "write_pid" -> XP WritePid | "serve" -> XP Serve | "close_sock" -> XP CloseSock | "close_lock" -> XP CloseLock
  | "open_seed" -> XP OpenSeed | "write_seed" -> XP WriteSeed | "exit" -> XP Exit
  | _ -> failwith ("program token " ^ tok)

let obs_line tag k s =
  let procs = List.init k (fun p ->
    let ((st, pc), srv) = obs_proc s (nat_of_int p) in
    Printf.sprintf "%s/%d/%d" (status_s (int_of_nat st)) (int_of_nat pc) (b srv)) in
  let names = List.map2 (fun n o -> n ^ "=" ^ opt o) ["lock"; "sock"; "pid"; "seed"] (obs_names s) in
  Printf.sprintf "%s %s | %s | pidfile=%s listener=%s lockholder=%s seedby=%s" tag
    (String.concat " " procs) (String.concat " " names)
    (opt (pid_content s)) (opt (sock_listener s)) (opt (lock_holder s)) (opt (seed_content s))

let tok_of = function Step p -> "s" ^ string_of_int (int_of_nat p) | Term p -> "t" ^ string_of_int (int_of_nat p)
                    | Crash p -> "c" ^ string_of_int (int_of_nat p)

(* 0-1 breadth-first search, cost = number of preemptions (switching away from a process that could still step) *)
let search k limit maxpre avoid pg =
  let kn = nat_of_int k in
  let key s cur = String.concat "," (List.map (fun n -> string_of_int (int_of_nat n)) (state_key s kn)) ^ "|" ^ string_of_int cur in
  let seen : (string, int) Hashtbl.t = Hashtbl.create 100003 in
  let dq = ref ([] : (state * int * int * label list) list) and back = ref [] in   (* front list, back list *)
  let push_front x = dq := x :: !dq and push_back x = back := x :: !back in
  let pop () = match !dq with
    | x :: r -> dq := r; Some x
    | [] -> (match List.rev !back with [] -> None | x :: r -> dq := r; back := []; Some x) in
  let count = ref 0 in
  let result = ref None in
  push_front (init, -1, 0, []);
  (try
    let continue = ref true in
    while !continue do
      match pop () with
      | None -> continue := false
      | Some (s, cur, cost, path) ->
          let kk = key s cur in
          (match Hashtbl.find_opt seen kk with
           | Some c when c <= cost -> ()
           | _ ->
               Hashtbl.replace seen kk cost;
               incr count;
               if two_bound s kn then (result := Some (cost, List.rev path); raise Exit);
               if !count >= limit then raise Exit;
               let started p = let ((st, _), _) = obs_proc s (nat_of_int p) in int_of_nat st <> 0 in
               let can_step p = xstep pg s (Step (nat_of_int p)) <> None in
               let cur_enabled = cur >= 0 && can_step cur in
               for p = 0 to k - 1 do
                 let np = nat_of_int p in
                 if started p || p = 0 || started (p - 1) then begin
                   let c' = if p <> cur && cur_enabled then cost + 1 else cost in
                   let go l s' = if c' > maxpre then () else if c' = cost then push_front (s', p, c', l :: path) else push_back (s', p, c', l :: path) in
                   (if not (avoid && known_overlap pg s kn np) then
                      match xstep pg s (Step np) with Some s' -> go (Step np) s' | None -> ());
                   (match xstep pg s (Term np) with Some s' -> go (Term np) s' | None -> ())
                 end
               done)
    done
  with Exit -> ());
  (!result, !count)

let cprim_s = function
  | CReadSeed nm -> "read_seed:" ^ hex nm | COpenPid nm -> "open_pid:" ^ hex nm | COpenSeed nm -> "open_seed:" ^ hex nm
  | COpenLock nm -> "open_lock:" ^ hex nm | CFstatLock -> "fstat_lock" | CSetLk -> "setlk"
  | CUnlink nm -> "unlink:" ^ hex nm | CBind (r, nm) -> Printf.sprintf "bind:%d:%s" (if r then 1 else 0) (hex nm)
  | CListen -> "listen" | CWritePid nm -> "write_pid:" ^ hex nm | CServe -> "serve" | CCloseSock -> "close_sock"
  | CCloseLock -> "close_lock" | CWriteSeed nm -> "write_seed:" ^ hex nm | CExit -> "exit"

let conf_of s = match split_on ',' s with
  | [a; b; c] -> { c_sock = unhex a; c_pid = unhex b; c_seed = unhex c }
  | _ -> failwith "conf"

let rec split_semi acc cur = function
  | [] -> List.rev (List.rev cur :: acc)
  | ";" :: r -> split_semi (List.rev cur :: acc) [] r
  | x :: r -> split_semi acc (x :: cur) r

let rec crun_toks s i = function
  | [] -> Ok s
  | t :: r -> (match crun s [label_of t] with Some s' -> crun_toks s' (i + 1) r | None -> Error i)

let line l =
  match split_on ' ' l with
  | ["N"; a; b; c] ->
      Printf.printf "N %s\n" (String.concat " " (List.map cprim_s (cprog { c_sock = unhex a; c_pid = unhex b; c_seed = unhex c })))
  | ["L"; u] -> let m = log_created_mode (n_of_int (int_of_string u)) in
      Printf.printf "L created=%04o accepted=%d\n" (int_of_n m) (b (log_accepts m))
  | ["S"] -> Printf.printf "S sun_path=%d copy_size=%d len_bound=%d lock_name_max=%d\n"
               (int_of_n sun_path_cap) (int_of_n sock_copy_size) (int_of_n sock_len_bound) (int_of_n lock_name_max)
  | ("X" | "Y" as cmd) :: k :: rest ->
      let k = int_of_string k in
      (match split_semi [] [] rest with
       | [[]; ptoks; toks] ->
           let pg = List.map xprim_of ptoks in
           (* Y: labels that are not enabled are skipped; the schedule actually taken is printed first *)
           let rec go s i taken = function
             | [] -> Ok (s, List.rev taken)
             | t :: r -> (match xrun pg s [label_of t] with
                          | Some s' -> go s' (i + 1) (t :: taken) r
                          | None -> if cmd = "Y" then go s (i + 1) taken r else Error i) in
           (match go init 0 [] toks with
            | Error i -> Printf.printf "X blocked %d\n" i
            | Ok (s, taken) ->
                let bd = List.filter (fun p -> bound s (nat_of_int p)) (List.init k (fun p -> p)) in
                Printf.printf "%s bound=%s%s\n" (obs_line cmd k s) (String.concat "," (List.map string_of_int bd))
                  (if cmd = "Y" then " ; " ^ String.concat " " taken else ""))
       | _ -> Printf.printf "? %s\n" l)
  | "B" :: k :: limit :: maxpre :: avoid :: ";" :: ptoks ->
      let pg = List.map xprim_of ptoks in
      (match search (int_of_string k) (int_of_string limit) (int_of_string maxpre) (avoid = "1") pg with
       | (Some (cost, sched), n) ->
           Printf.printf "B found preempt=%d states=%d ; %s\n" cost n (String.concat " " (List.map tok_of sched))
       | (None, n) -> Printf.printf "B %s states=%d\n" (if n >= int_of_string limit then "limit" else "none") n)
  | "C" :: k :: rest ->
      let k = int_of_string k in
      (match split_semi [] [] rest with
       | [confs; toks; qs] when List.length confs = k ->
           let ca = Array.of_list (List.map conf_of confs) in
           let cf p = let i = int_of_nat p in if i < k then ca.(i) else ca.(0) in
           (match crun_toks (cinit cf) 0 toks with
            | Error i -> Printf.printf "C blocked %d\n" i
            | Ok s ->
                let procs = List.init k (fun p ->
                  let ((st, pc), srv) = cobs_proc s (nat_of_int p) in
                  Printf.sprintf "%s/%d/%d" (status_s (int_of_nat st)) (int_of_nat pc) (b srv)) in
                let q h = let nm = unhex h in
                  Printf.sprintf "%s=%s:%s:%s:%s" h
                    (match cnames s nm with None -> "-" | Some _ -> if is_sock s nm then "sock" else "reg")
                    (opt (name_listener s nm)) (opt (name_lock_holder s nm)) (opt (name_content s nm)) in
                Printf.printf "C %s | %s\n" (String.concat " " procs) (String.concat " " (List.map q qs)))
       | _ -> Printf.printf "? %s\n" l)
  | ["P"] -> Printf.printf "P %s\n" (String.concat " " (List.map prim_s prog))
  | ["F"] -> Printf.printf "F open_lock:creat=%d,excl=%d,trunc=%d,mode=%04o setlk:nonblock=%d,excl=%d,whole=%d,busy_exits=%d\n"
               (b lock_open_creat) (b lock_open_excl) (b lock_open_trunc) (int_of_n lock_create_mode)
               (b lock_cmd_nonblocking) (b lock_type_exclusive) (b lock_whole_file) (b lock_busy_exits)
  | "R" :: k :: toks ->
      let k = int_of_string k in
      (match run_toks init 0 toks with
       | Error i -> Printf.printf "R blocked %d\n" i
       | Ok s ->
           let procs = List.init k (fun p ->
             let ((st, pc), srv) = obs_proc s (nat_of_int p) in
             Printf.sprintf "%s/%d/%d" (status_s (int_of_nat st)) (int_of_nat pc) (b srv)) in
           let names = List.map2 (fun n o -> n ^ "=" ^ opt o) ["lock"; "sock"; "pid"; "seed"] (obs_names s) in
           Printf.printf "R %s | %s | pidfile=%s listener=%s lockholder=%s seedby=%s\n"
             (String.concat " " procs) (String.concat " " names)
             (opt (pid_content s)) (opt (sock_listener s)) (opt (lock_holder s)) (opt (seed_content s)))
  | _ -> Printf.printf "? %s\n" l

let () =
  try while true do line (input_line stdin) done with End_of_file -> ()
