(* Extract.v (group "start") — the start-up/shutdown model of C15 as an OCaml oracle. *)
(* deps: StartModel.vo StartPathModel.vo StartSearchModel.vo StartLogModel.vo Bytes.vo *)
Require Extraction.
Require Import ExtrOcamlBasic.
From MV Require Import Bytes StartModel StartPathModel StartSearchModel StartLogModel.
From MV.gen Require Import GenStart.
Extraction Language OCaml.
Extraction "model.ml"
  b2n n2b
  prog startup shutdown serve_pc init run life overlap_sched
  obs_proc obs_names pid_content seed_content sock_listener lock_holder at_serve serving
  lock_open_creat lock_open_excl lock_open_trunc lock_create_mode
  lock_cmd_nonblocking lock_type_exclusive lock_whole_file lock_busy_exits
  cprog cinit crun cstep cobs_proc cnames is_sock name_listener name_lock_holder name_content refuses bind_name lock_name_of
  sun_path_cap sock_copy_size sock_len_bound lock_name_max
  xstep xrun two_bound bound known_overlap state_key lock_getlk_first lock_getlk_held_exits
  log_created_mode log_accepts.
