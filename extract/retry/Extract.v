(* deps: RetryClientModel.vo gen/GenRetryLoop.vo *)
(* Extract.v — extraction of RetryClientModel (libmunge's transaction loop as translated from the source text) to OCaml;
   ExtrOcamlBasic directives only. *)
Require Extraction.
Require Import ExtrOcamlBasic.
From MV Require Import Bytes RetryClientModel.
From MV.gen Require Import GenRetryLoop.
Extraction Language OCaml.
Extraction "model.ml"
  b2n n2b
  xfer src_xfer src_xconst.
