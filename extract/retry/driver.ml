(* driver.ml — `oracle` of the retry group: the transaction loop of libmunge (m_msg_client_xfer as translated from the
   source text on this run) under a per-attempt fault list.
     X <faults>       faults = comma list of c (connect refused) | s (m_msg_send fails) | r (m_msg_recv fails), or -
   answers
     X <err> <pm> <bad> <live at return> <live end>/<open end> | <trace in the alphabet of harness/c13_shims.c>
   err: ok | socket | badlen     pm: id of the message handed to the caller (or null / wild)
   bad: - | usedead:<m> | null | socket:<c> | assert | diverge *)
open Model
open Conv

let i = int_of_nat
let ev = function
  | TNew m -> Printf.sprintf "N%d" (i m)
  | TDestroy m -> Printf.sprintf "D%d" (i m)
  | TConnect (c, ok) -> Printf.sprintf "C%d%c" (i c) (if ok then '+' else '-')
  | TSend (m, r, c, ok) -> Printf.sprintf "Q%dr%dc%d%c" (i m) (i r) (i c) (if ok then '+' else '-')
  | TBind (m, c) -> Printf.sprintf "B%dc%d" (i m) (i c)
  | TRecv (m, c, ok) -> Printf.sprintf "R%dc%d%c" (i m) (i c) (if ok then '+' else '-')
  | TClose c -> Printf.sprintf "X%d" (i c)
  | TSleep ms -> Printf.sprintf "S%d" (i ms)

let ids l = if l = [] then "-" else Stdlib.String.concat "," (List.map (fun x -> string_of_int (i x)) l)

let line l =
  match split_on ' ' l with
  | ["X"; fl] ->
      let faults = if fl = "-" then [] else
        List.map (function "c" -> FConnect | "s" -> FSend | "r" -> FRecv | _ -> failwith "fault") (split_on ',' fl) in
      let r = xfer src_xconst src_xfer faults in
      Printf.printf "X %s %s %s %s %s/%s | %s\n"
        (match r.r_err with EOk -> "ok" | ESocket -> "socket" | EBadLen -> "badlen")
        (match r.r_pm with PMsg m -> string_of_int (i m) | PNull -> "null" | PWild -> "wild")
        (match r.r_bad with
         | None -> "-" | Some (BUseDead m) -> Printf.sprintf "usedead:%d" (i m) | Some BNullDeref -> "null"
         | Some (BSocket c) -> Printf.sprintf "socket:%d" (i c) | Some BAssert -> "assert" | Some BDiverge -> "diverge")
        (ids r.r_live_at_return) (ids r.r_live_end) (ids r.r_open_end)
        (Stdlib.String.concat " " (List.map ev r.r_trace))
  | _ -> Printf.printf "? %s\n" l

let () =
  try while true do line (input_line stdin); flush stdout done with End_of_file -> ()
