(* Extract.v (group "gids") — extraction of GidsModel to OCaml for the C17 oracle.
   Only ExtrOcamlBasic's directives are used; numbers and bytes stay inductive. *)
(* deps: GidsModel.vo GidsTimerModel.vo *)
Require Extraction.
Require Import ExtrOcamlBasic.
From MV Require Import Bytes GidsModel GidsTimerModel.
From MV.gen Require Import GenGids.
Extraction Language OCaml.
Extraction "model.ml"
  b2n n2b
  pw_of_list build map_create is_member entry_need scan_buf grbuf_init uid_sentinel
  gids_create sighup begin_decide refresh_begin refresh_commit refresh
  step exec sys_init
  gt_create gt_destroy gt_step gt_exec drive1 do_act no_hook.
