(* driver.ml (group "gids") — reads one case per line (format: harness/gids_harness.c), runs the
   extracted LTS of GidsModel, prints the same tokens as the harness. *)
open Model
open Conv

let z_of_int i = if i = 0 then Z0 else if i > 0 then Zpos (pos_of_int i) else Zneg (pos_of_int (-i))
let int_of_z = function Z0 -> 0 | Zpos p -> int_of_pos p | Zneg p -> - (int_of_pos p)

let parse_name s = if s = "~" then [] else of_string s

let parse_db s =
  if s = "-" then [] else
  List.map (fun e ->
      match String.index_opt e ':' with
      | Some i ->
          let g = int_of_string (String.sub e 0 i) in
          let ms = String.sub e (i + 1) (String.length e - i - 1) in
          (n_of_int g, List.map parse_name (split_on ',' ms))
      | None -> (n_of_int (int_of_string e), []))
    (split_on ';' s)

let parse_pw s =
  if s = "-" then [] else
  List.map (fun e ->
      let i = String.index e '=' in
      let n = String.sub e 0 i and u = String.sub e (i + 1) (String.length e - i - 1) in
      (parse_name n, if u = "!" then None else Some (n_of_int (int_of_string u))))
    (split_on ',' s)

let parse_sched s =
  List.map (fun it ->
      let k = nat_of_int (int_of_string (String.sub it 1 (String.length it - 1))) in
      if it.[0] = 'e' then FErange k else FFail k)
    (split_on '.' s)

let rec firstn n l = if n <= 0 then [] else match l with [] -> [] | x :: r -> x :: firstn (n - 1) r

let tail s = String.sub s 1 (String.length s - 1)
let nums s = List.map int_of_string (split_on ',' s)

let run_case line =
  match split_on ' ' line with
  | v :: i :: u :: ops ->
      let variant = v.[1] in
      let (interval, dostat) = Scanf.sscanf i "I%d,%d" (fun a b -> (a, b)) in
      let (us, gs) =
        match split_on '|' (tail u) with
        | [a; b] -> (nums a, nums b)
        | [a] -> (nums a, [])
        | _ -> ([], []) in
      let db = ref [] and pwl = ref [] and mtime = ref (Some Z0) in
      let world () = { w_db = !db; w_pw = pw_of_list !pwl; w_mtime = !mtime } in
      let st = ref (sys_init (z_of_int interval) (z_of_int dostat) (world ())) in
      let grlen = ref grbuf_init in
      let out = Buffer.create 256 in
      let emit s = if Buffer.length out > 0 then Buffer.add_char out ' '; Buffer.add_string out s in
      let do_step l =
        match step !st l with
        | Some (s', o) -> st := s'; o
        | None -> failwith "step not enabled" in
      let edit () = ignore (do_step (LEdit (world ()))) in
      let timer_str () =
        match (!st).s_g.g_timer with None -> "-" | Some n -> string_of_int (int_of_n n) in
      let lookup uu gg =
        match do_step (LLookup (n_of_int uu, n_of_int gg)) with Some true -> '1' | _ -> '0' in
      let sweep () =
        let b = Buffer.create 64 in
        List.iter (fun uu -> List.iter (fun gg -> Buffer.add_char b (lookup uu gg)) gs) us;
        Buffer.contents b in
      (* now[/sched] -> (begin; f (); commit), returns the r-token *)
      let update arg between =
        let (now, sched) =
          match split_on '/' arg with
          | [a; b] -> (int_of_string a, parse_sched b)
          | [a] -> (int_of_string a, [])
          | _ -> failwith "R" in
        match (!st).s_g.g_timer with
        | None -> None
        | Some _ ->
            let g = (!st).s_g in
            let (_, doup) = begin_decide g (!st).s_w.w_mtime in
            let stat_called = int_of_z g.g_dostat > 0 in
            ignore (do_step (LBegin (z_of_int now, sched)));
            let ok = match (!st).s_pend with Some p -> p.p_map <> None | None -> false in
            between ();
            ignore (do_step LCommit);
            let bl =
              if variant <> 'g' || not doup then "-" else begin
                let delivered =
                  match sched with
                  | FFail k :: _ when int_of_nat k <= List.length !db -> firstn (int_of_nat k) !db
                  | _ -> !db in
                match scan_buf !grlen (List.map entry_need delivered) with
                | None -> "ovf"
                | Some l -> if ok then grlen := l; string_of_int (int_of_n l)
              end in
            Some (Printf.sprintf "r%d%d/%s/%s" (if stat_called then 1 else 0) (if doup then 1 else 0)
                    (timer_str ()) bl) in
      List.iter (fun op ->
          if op <> "" then
          match op.[0] with
          | 'G' -> db := parse_db (tail op); edit ()
          | 'P' -> pwl := parse_pw (tail op); edit ()
          | 'M' -> mtime := (if op = "M!" then None else Some (z_of_int (int_of_string (tail op)))); edit ()
          | 'S' -> ignore (do_step LSighup); emit ("s/" ^ timer_str ())
          | 'Q' -> (match nums (tail op) with
                    | [a; b] -> emit (Printf.sprintf "q%c" (lookup a b))
                    | _ -> emit "?")
          | 'A' -> emit ("a" ^ sweep ())
          | 'R' -> (match update (tail op) (fun () -> ()) with None -> emit "r--" | Some t -> emit t)
          | 'X' -> (* lookups between the two halves see the old map in full *)
                   let before = sweep () in
                   let same = ref true in
                   (match update (tail op) (fun () -> same := (sweep () = before)) with
                    | None -> emit "x0no-timer"; emit "r--"
                    | Some t -> emit (if !same then "x1" else "x0model"); emit t)
          | _ -> emit ("?" ^ op))
        ops;
      print_endline (Buffer.contents out)
  | _ -> print_endline ("? " ^ line)

(* ------------------------------------------------------------------------------------------------
   T lines: the pair gids.c + timer.c (GidsTimerModel), format of harness/gids_timer_harness.c *)
let parse_act universe a =
  match a.[0] with
  | 'G' -> ADb (parse_db (tail a))
  | 'P' -> APw (pw_of_list (parse_pw (tail a)))
  | 'M' -> AMtime (if a = "M!" then None else Some (z_of_int (int_of_string (tail a))))
  | 'Y' -> ALookups []          (* the group file is / is not a symbolic link: no event of the model (stat follows it) *)
  | 'S' -> ASighup
  | 't' -> AClock (z_of_int (int_of_string (tail a)))
  | 'c' -> AAdvance (z_of_int (int_of_string (tail a)))
  | 'A' -> ALookups universe
  | _ -> failwith ("act " ^ a)

let run_pair line =
  match split_on ' ' line with
  | _ :: i :: u :: ops ->
      let (interval, dostat) = Scanf.sscanf i "I%d,%d" (fun a b -> (a, b)) in
      let (us, gs) =
        match split_on '|' (tail u) with
        | [a; b] -> (nums a, nums b)
        | [a] -> (nums a, [])
        | _ -> ([], []) in
      let universe = List.concat_map (fun uu -> List.map (fun gg -> (n_of_int uu, n_of_int gg)) gs) us in
      let nuni = List.length universe in
      let out = Buffer.create 256 in
      let emit s = if Buffer.length out > 0 then Buffer.add_char out ' '; Buffer.add_string out s in
      let bits = Buffer.create 64 in
      let flush_bits () =
        if Buffer.length bits > 0 then (emit ("a" ^ Buffer.contents bits); Buffer.clear bits) in
      let emit_ev = function
        | EAns (_, _, b) ->
            Buffer.add_char bits (if b then '1' else '0');
            if Buffer.length bits = nuni then flush_bits ()
        | ev ->
            flush_bits ();
            (match ev with
             | ESet (id, now, ms) -> emit (Printf.sprintf "s%d@%d+%d" (int_of_z id) (int_of_z now) (int_of_z ms))
             | ECancel (id, ok) -> emit (Printf.sprintf "c%d=%d" (int_of_z id) (if ok then 1 else 0))
             | EFire (id, now) -> emit (Printf.sprintf "f%d@%d" (int_of_z id) (int_of_z now))
             | EReturn (sc, at) -> emit (Printf.sprintf "r%d%d" (if sc then 1 else 0) (if at then 1 else 0))
             | EMark c -> emit (match int_of_nat c with 0 -> "hT" | 1 -> "hG" | _ -> "hE")
             | EUpdated -> emit "u"
             | EOpen -> emit "o"
             | EClose -> emit "e"
             | EStuck -> emit "!stuck"
             | EAns _ -> ()) in
      let hooks : (int * hook) list ref = ref [] in
      let hookf n = match List.assoc_opt (int_of_nat n) !hooks with Some h -> h | None -> no_hook in
      let w0 = { w_db = []; w_pw = pw_of_list []; w_mtime = Some Z0 } in
      let (s0, ev0) = gt_create (z_of_int interval) (z_of_int dostat) w0 in
      let st = ref s0 and nref = ref O in
      List.iter emit_ev ev0;
      let passive a = let (s1, _) = do_act VRepo !st a in st := s1 in
      let active a =
        let ((s1, n1), evs) = drive1 VRepo hookf (nat_of_int 1000) !st !nref a in
        st := s1; nref := n1; List.iter emit_ev evs; flush_bits (); emit "|" in
      List.iter (fun op ->
          if op <> "" then
          match op.[0] with
          | 'G' | 'P' | 'M' | 'Y' -> passive (parse_act universe op)
          | 'H' ->
              (match String.split_on_char '/' (tail op) with
               | [j; t; g; e; f] ->
                   let acts x = List.map (parse_act universe) (split_on '+' x) in
                   let h = { h_t = acts t; h_g = acts g; h_e = acts e;
                             h_sched = (if f = "" then [] else parse_sched f) } in
                   hooks := (int_of_nat !nref + int_of_string j, h) :: !hooks
               | _ -> emit ("?" ^ op))
          | 't' | 'c' | 'S' | 'A' -> active (parse_act universe op)
          | _ -> emit ("?" ^ op))
        ops;
      (match gt_destroy !st with
       | None -> emit "d-"
       | Some (id, ok) -> emit (Printf.sprintf "d%d=%d" (int_of_z id) (if ok then 1 else 0)));
      emit ".";
      print_endline (Buffer.contents out)
  | _ -> print_endline ("? " ^ line)

let run_any line = if String.length line > 1 && line.[0] = 'T' && line.[1] = ' ' then run_pair line else run_case line

let () =
  try while true do run_any (input_line stdin) done with End_of_file -> ()
