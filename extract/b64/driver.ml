(* driver.ml — `oracle <model>`: reads one case per line, prints one canonical result per line. *)
open Model
open Conv

let b64_line line =
  match split_on ' ' line with
  | ["E"; h] -> Printf.printf "E %s\n" (hex (encode_block (unhex h)))
  | ["D"; h] -> let (err, out) = decode_block (unhex h) in
                Printf.printf "D %d %s\n" (if err then 1 else 0) (if err then "*" else hex out)
  | ["S"; hs] -> let chunks = List.map unhex (split_on ',' hs) in
                 Printf.printf "S %s\n" (hex (encode_stream [] chunks))
  | ["T"; hs] -> let chunks = List.map unhex (split_on ',' hs) in
                 let (err, out) = decode_stream dctx0 chunks in
                 Printf.printf "T %d %s\n" (if err then 1 else 0) (if err then "*" else hex out)
  | ["L"; n] -> let n = int_of_string n in
                Printf.printf "L %d %d\n" (int_of_n (encode_length (n_of_int n))) (int_of_n (decode_length (n_of_int n)))
  | _ -> Printf.printf "? %s\n" line

let () =
  try while true do b64_line (input_line stdin) done with End_of_file -> ()
