(* Extract.v — extraction of the executable models to OCaml.
   Only ExtrOcamlBasic's directives are used (bool, option, unit, list, prod,
   sumbool, sumor -> OCaml natives).  Numbers and bytes stay inductive. *)
(* deps: Base64Model.vo *)
Require Extraction.
Require Import ExtrOcamlBasic.
From MV Require Import Bytes Base64Model.
Extraction Language OCaml.
Extraction "model.ml"
  b2n n2b
  encode_block decode_block encode_stream decode_stream encode_length decode_length
  encode_update encode_final decode_update decode_final dctx0.
