(* driver.ml — C18 oracle: same case lines as harness/timer_harness.c, same result lines.
   Mode S and Z run the repaired model (id taken under the mutex), mode U the unrepaired one
   (timer.c's `return (t->id)` after the unlock); P (parallel, nondeterministic) is not simulated. *)
open Model
open Conv

let z_of_int i = if i = 0 then Z0 else if i > 0 then Zpos (pos_of_int i) else Zneg (pos_of_int (-i))
let int_of_z = function Z0 -> 0 | Zpos p -> int_of_pos p | Zneg p -> - (int_of_pos p)

let parse_ts s = match String.split_on_char '.' s with
  | [a; b] -> (z_of_int (int_of_string a), z_of_int (int_of_string b))
  | _ -> failwith "ts"

(* R<ms>:<cb> | A<sec>.<nsec>:<cb> | K<k> | X<id> *)
let parse_hop s =
  let body = String.sub s 1 (String.length s - 1) in
  match s.[0] with
  | 'R' -> (match String.split_on_char ':' body with
            | [ms; cb] -> HSetRel (z_of_int (int_of_string ms), nat_of_int (int_of_string cb))
            | _ -> failwith "hop")
  | 'A' -> (match String.split_on_char ':' body with
            | [t; cb] -> HSetAbs (parse_ts t, nat_of_int (int_of_string cb))
            | _ -> failwith "hop")
  | 'K' -> HCancelRel (z_of_int (int_of_string body))
  | 'X' -> HCancelAbs (z_of_int (int_of_string body))
  | _ -> failwith "hop"

let parse_prog p = if p = "-" then [] else List.map parse_hop (String.split_on_char ',' p)

let parse_op tok =
  match tok.[0] with
  | 't' -> DClock (parse_ts (String.sub tok 2 (String.length tok - 2)))
  | 's' | 'c' -> let i = String.index tok ':' in DOp (parse_hop (String.sub tok (i + 1) (String.length tok - i - 1)))
  | 'h' -> let i = String.index tok ':' in DHold (parse_hop (String.sub tok (i + 1) (String.length tok - i - 1)))
  | 'x' -> (match String.split_on_char ':' tok with
            | [_; t; h] -> DClockThen (parse_ts t, parse_hop h)
            | _ -> failwith "op x")
  | 'r' -> DRelease
  | _ -> failwith "op"

let case_line line =
  match split_on ' ' line with
  | mode :: _nth :: progs :: ops when mode = "S" || mode = "Z" || mode = "U" ->
      let pl = Array.of_list (List.map parse_prog (String.split_on_char ';' progs)) in
      let hp cb = let i = int_of_nat cb in if i < Array.length pl then pl.(i) else [] in
      let ds = List.map parse_op ops in
      let evs = drive hp (mode <> "U") (nat_of_int 20000) ((init, (Z0, Z0)), []) ds in
      let b = Buffer.create 256 in
      Buffer.add_string b (if mode = "U" then "Z " else mode ^ " ");
      let seq = ref 0 and stuck = ref false in
      (* a held set takes its sequence number when it is issued, and reports it when released *)
      let heldq = Queue.create () in
      List.iter2 (fun d ev ->
        (match d with DHold _ -> incr seq; Queue.add !seq heldq | _ -> ());
        let first = ref true in
        List.iter (fun e ->
          (match e with
           | ESet (inner, id) ->
               let n =
                 if (not inner) && !first && (match d with DRelease -> true | _ -> false)
                 then Queue.pop heldq
                 else if (not inner) && !first && (match d with DHold _ -> true | _ -> false)
                 then Queue.pop heldq   (* hold that did not park: plain set *)
                 else (incr seq; !seq) in
               Buffer.add_string b (Printf.sprintf "%s%d=%d " (if inner then "s" else "S") n (int_of_z id))
           | ECancel (inner, id, r) ->
               Buffer.add_string b (Printf.sprintf "%s%d=%d " (if inner then "c" else "C") (int_of_z id) (int_of_z r))
           | EFire (t, (s, ns)) ->
               Buffer.add_string b (Printf.sprintf "F%d@%d.%d " (int_of_z t.t_id) (int_of_z s) (int_of_z ns))
           | EHeld -> Buffer.add_string b "H "
           | EStuck -> stuck := true; Buffer.add_string b "!stuck ");
          first := false) ev;
        Buffer.add_string b "| ") ds evs;
      if not !stuck then Buffer.add_string b ".";
      print_string (Buffer.contents b); print_newline ()
  | "P" :: _ -> print_endline "P skip"
  | _ -> Printf.printf "? bad case\n"

let () =
  try while true do case_line (input_line stdin) done with End_of_file -> ()
