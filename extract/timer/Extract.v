(* deps: TimerModel.vo *)
(* Extract.v — the timer LTS and its deterministic scheduler, for the C18 oracle.
   Only ExtrOcamlBasic's directives; numbers stay inductive. *)
Require Extraction.
Require Import ExtrOcamlBasic.
From MV Require Import Bytes TimerModel.
Extraction Language OCaml.
Extraction "model.ml" b2n n2b drive init ts_add_ms ts_le.
