(* Extract.v — extraction of ReplayModel (hash.c + replay.c) to OCaml; ExtrOcamlBasic directives only. *)
(* deps: ReplayModel.vo *)
Require Extraction.
Require Import ExtrOcamlBasic.
From MV Require Import Bytes ReplayModel.
From MV.gen Require Import GenReplay.
Extraction Language OCaml.
Extraction "model.ml"
  b2n n2b
  create abs count mk_key t_expired_of c_slot replay_hash_size replay_purge_secs
  replay_insert replay_remove replay_find replay_purge step run crun cinit.
