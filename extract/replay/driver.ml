(* driver.ml — oracle for the replay group: same case lines as harness/replay_harness.c.
   Q <size> <keys> <ops>                 sequential history through the model's `step`
   T <size> <nthreads> <keys> <pre> <reqs>   concurrent requests through the model's `crun`
   keys = mac:time0:ttl,...   size 0 = the size replay.c uses (replay_hash_size) *)
open Model
open Conv

let parse_key s = match split_on ':' s with
  | [m; t0; ttl] -> mk_key (unhex m) (t_expired_of (n_of_int (int_of_string t0)) (n_of_int (int_of_string ttl)))
  | _ -> failwith "key"

let table_of size =
  let sz = if size = 0 then replay_hash_size else n_of_int size in
  (c_slot sz, nat_of_int (int_of_n sz))

let dump t =
  match abs t with
  | [] -> "-"
  | l -> String.concat "." (List.map (fun (m, e) -> hex m ^ ":" ^ string_of_int (int_of_n e)) l)

let tail t = Printf.sprintf "/%d/%s" (int_of_n t.count) (dump t)

let q_line size keys ops =
  let (slot, nslots) = table_of size in
  let keys = Array.of_list (List.map parse_key (split_on ',' keys)) in
  let st = ref { tbl = create nslots; clock = N0 } in
  let do_op op =
    let arg = int_of_string (String.sub op 1 (String.length op - 1)) in
    let res = match op.[0] with
      | 'i' -> let (s, o) = step slot !st (EPresent keys.(arg)) in st := s;
               (match o with OInserted -> "0" | OExists -> "1" | _ -> "?")
      | 'r' -> let (s, o) = step slot !st (ERemove keys.(arg)) in st := s;
               (match o with ORemoved true -> "0" | ORemoved false -> "-1" | _ -> "?")
      | 'f' -> if replay_find slot keys.(arg) !st.tbl then "1" else "0"
      | 'x' -> let (s, _) = step slot !st (EFail keys.(arg)) in st := s; "-"
      | 't' | 'p' ->
          let d = arg - int_of_n !st.clock in
          let (s, _) = step slot !st (ETick (n_of_int (if d > 0 then d else 0))) in st := s;
          if op.[0] = 't' then "-" else begin
            let (s, o) = step slot !st EPurge in st := s;
            match o with OPurged n -> Printf.sprintf "n%da%d" (int_of_n n) (1000 * int_of_n replay_purge_secs)
                       | _ -> "?" end
      | _ -> "?" in
    res ^ tail !st.tbl in
  Printf.printf "Q %s\n" (String.concat "|" (List.map do_op (split_on ',' ops)))

let idxs s = if s = "-" then [] else List.map int_of_string (split_on ',' s)

let t_line size keys pre reqs =
  let (slot, nslots) = table_of size in
  let keys = Array.of_list (List.map parse_key (split_on ',' keys)) in
  let t0 = List.fold_left (fun t i -> snd (replay_insert slot keys.(i) t)) (create nslots) (idxs pre) in
  let ridx = idxs reqs in
  let rk = List.map (fun i -> keys.(i)) ridx in
  let sched = List.mapi (fun j _ -> nat_of_int j) rk in
  let (t, rs) = crun slot rk sched (cinit rk t0) in
  let n = Array.length keys in
  let ins = Array.make n 0 and ex = Array.make n 0 and er = Array.make n 0 in
  List.iter2 (fun i r -> match r with
      | Some Inserted -> ins.(i) <- ins.(i) + 1
      | Some AlreadyExists -> ex.(i) <- ex.(i) + 1
      | None -> er.(i) <- er.(i) + 1) ridx rs;
  let per = String.concat "," (List.init n (fun i -> Printf.sprintf "%d:%d:%d" ins.(i) ex.(i) er.(i))) in
  Printf.printf "T %s%s\n" per (tail t)

let line l =
  match split_on ' ' l with
  | ["Q"; size; keys; ops] -> q_line (int_of_string size) keys ops
  | ["T"; size; _; keys; pre; reqs] -> t_line (int_of_string size) keys pre reqs
  | _ -> Printf.printf "? %s\n" l

let () =
  try while true do line (input_line stdin) done with End_of_file -> ()
