#include <caml/mlvalues.h>
#include <caml/memory.h>
#include <caml/alloc.h>
#include <caml/fail.h>
#include <string.h>
#include <gcrypt.h>
static int md_algo(int m) { switch (m) { case 2: return GCRY_MD_MD5; case 3: return GCRY_MD_SHA1; case 4: return GCRY_MD_RMD160; case 5: return GCRY_MD_SHA256; case 6: return GCRY_MD_SHA512; } return 0; }
static int ci_algo(int c) { switch (c) { case 2: return GCRY_CIPHER_BLOWFISH; case 3: return GCRY_CIPHER_CAST5; case 4: return GCRY_CIPHER_AES128; case 5: return GCRY_CIPHER_AES256; } return 0; }
CAMLprim value ml_hmac(value valg, value vkey, value vdata) {
  CAMLparam3(valg, vkey, vdata); CAMLlocal1(res);
  int algo = md_algo(Int_val(valg)); gcry_md_hd_t h;
  if (!algo || gcry_md_open(&h, algo, GCRY_MD_FLAG_HMAC)) caml_failwith("hmac");
  gcry_md_setkey(h, String_val(vkey), caml_string_length(vkey));
  gcry_md_write(h, String_val(vdata), caml_string_length(vdata));
  unsigned n = gcry_md_get_algo_dlen(algo); res = caml_alloc_string(n);
  memcpy(Bytes_val(res), gcry_md_read(h, 0), n); gcry_md_close(h); CAMLreturn(res);
}
CAMLprim value ml_hash(value valg, value vdata) {
  CAMLparam2(valg, vdata); CAMLlocal1(res);
  int algo = md_algo(Int_val(valg)); unsigned n = gcry_md_get_algo_dlen(algo);
  res = caml_alloc_string(n); gcry_md_hash_buffer(algo, Bytes_val(res), String_val(vdata), caml_string_length(vdata));
  CAMLreturn(res);
}
CAMLprim value ml_blk(value vdec, value vci, value vkey, value vblk) {
  CAMLparam4(vdec, vci, vkey, vblk); CAMLlocal1(res);
  gcry_cipher_hd_t h; int algo = ci_algo(Int_val(vci)); size_t n = caml_string_length(vblk);
  if (!algo || gcry_cipher_open(&h, algo, GCRY_CIPHER_MODE_ECB, 0)) caml_failwith("cipher");
  if (gcry_cipher_setkey(h, String_val(vkey), caml_string_length(vkey))) caml_failwith("setkey");
  res = caml_alloc_string(n);
  gcry_error_t e = Bool_val(vdec) ? gcry_cipher_decrypt(h, Bytes_val(res), n, String_val(vblk), n)
                                  : gcry_cipher_encrypt(h, Bytes_val(res), n, String_val(vblk), n);
  gcry_cipher_close(h); if (e) caml_failwith("crypt"); CAMLreturn(res);
}

/* ---- compression: zlib (type 3) and bzlib (type 2), raw streams as zip.c calls them ---- */
#include <zlib.h>
#include <bzlib.h>
#include <stdlib.h>
static value some_string(const char *p, size_t n) {
  CAMLparam0(); CAMLlocal2(s, o);
  s = caml_alloc_string(n); memcpy(Bytes_val(s), p, n);
  o = caml_alloc(1, 0); Store_field(o, 0, s); CAMLreturn(o);
}
/* zip_compress_block with the buffer zip_compress_length() provides (minus the 8-byte header) */
CAMLprim value ml_zcomp(value vtype, value vsrc) {
  CAMLparam2(vtype, vsrc); CAMLlocal1(res);
  int type = Int_val(vtype); size_t len = caml_string_length(vsrc);
  int buf_len = (type == 2) ? (int)((len * 1.01) + 600 + 1 + 8) : (int)((len * 1.001) + 12 + 1 + 8);
  unsigned int xdstlen = buf_len - 8; char *dst = malloc(xdstlen ? xdstlen : 1); int ok = 0;
  if (len == 0) { free(dst); CAMLreturn(Val_int(0)); }
  if (type == 2) {
    ok = BZ2_bzBuffToBuffCompress(dst, &xdstlen, (char *) String_val(vsrc), len, 9, 0, 0) == BZ_OK;
  } else if (type == 3) {
    unsigned long ul = xdstlen;
    ok = compress((Bytef *) dst, &ul, (const Bytef *) String_val(vsrc), len) == Z_OK; xdstlen = ul;
  }
  if (!ok) { free(dst); CAMLreturn(Val_int(0)); }
  res = some_string(dst, xdstlen); free(dst); CAMLreturn(res);
}
/* zip_decompress_block: succeeds iff the stream is valid and its output fits in maxlen bytes */
CAMLprim value ml_zdecomp(value vtype, value vsrc, value vmax) {
  CAMLparam3(vtype, vsrc, vmax); CAMLlocal1(res);
  int type = Int_val(vtype); size_t len = caml_string_length(vsrc); long maxlen = Long_val(vmax);
  long cap = maxlen > (256L << 20) ? (256L << 20) : maxlen;
  unsigned int xdstlen = cap; char *dst = malloc(cap ? cap : 1); int ok = 0;
  if (type == 2) {
    ok = BZ2_bzBuffToBuffDecompress(dst, &xdstlen, (char *) String_val(vsrc), len, 0, 0) == BZ_OK;
  } else if (type == 3) {
    unsigned long ul = xdstlen;
    ok = uncompress((Bytef *) dst, &ul, (const Bytef *) String_val(vsrc), len) == Z_OK; xdstlen = ul;
  }
  if (!ok) { free(dst); CAMLreturn(Val_int(0)); }
  res = some_string(dst, xdstlen); free(dst); CAMLreturn(res);
}
