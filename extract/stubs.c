#include <caml/mlvalues.h>
#include <caml/memory.h>
#include <caml/alloc.h>
#include <caml/fail.h>
#include <string.h>
#include <gcrypt.h>
static int md_algo(int m) { switch (m) { case 2: return GCRY_MD_MD5; case 3: return GCRY_MD_SHA1; case 4: return GCRY_MD_RMD160; case 5: return GCRY_MD_SHA256; case 6: return GCRY_MD_SHA512; } return 0; }
static int ci_algo(int c) { switch (c) { case 2: return GCRY_CIPHER_BLOWFISH; case 3: return GCRY_CIPHER_CAST5; case 4: return GCRY_CIPHER_AES128; case 5: return GCRY_CIPHER_AES256; } return 0; }
CAMLprim value ml_hmac(value valg, value vkey, value vdata) {
  CAMLparam3(valg, vkey, vdata); CAMLlocal1(res);
  int algo = md_algo(Int_val(valg)); gcry_md_hd_t h;
  if (!algo || gcry_md_open(&h, algo, GCRY_MD_FLAG_HMAC)) caml_failwith("hmac");
  gcry_md_setkey(h, String_val(vkey), caml_string_length(vkey));
  gcry_md_write(h, String_val(vdata), caml_string_length(vdata));
  unsigned n = gcry_md_get_algo_dlen(algo); res = caml_alloc_string(n);
  memcpy(Bytes_val(res), gcry_md_read(h, 0), n); gcry_md_close(h); CAMLreturn(res);
}
CAMLprim value ml_hash(value valg, value vdata) {
  CAMLparam2(valg, vdata); CAMLlocal1(res);
  int algo = md_algo(Int_val(valg)); unsigned n = gcry_md_get_algo_dlen(algo);
  res = caml_alloc_string(n); gcry_md_hash_buffer(algo, Bytes_val(res), String_val(vdata), caml_string_length(vdata));
  CAMLreturn(res);
}
CAMLprim value ml_blk(value vdec, value vci, value vkey, value vblk) {
  CAMLparam4(vdec, vci, vkey, vblk); CAMLlocal1(res);
  gcry_cipher_hd_t h; int algo = ci_algo(Int_val(vci)); size_t n = caml_string_length(vblk);
  if (!algo || gcry_cipher_open(&h, algo, GCRY_CIPHER_MODE_ECB, 0)) caml_failwith("cipher");
  if (gcry_cipher_setkey(h, String_val(vkey), caml_string_length(vkey))) caml_failwith("setkey");
  res = caml_alloc_string(n);
  gcry_error_t e = Bool_val(vdec) ? gcry_cipher_decrypt(h, Bytes_val(res), n, String_val(vblk), n)
                                  : gcry_cipher_encrypt(h, Bytes_val(res), n, String_val(vblk), n);
  gcry_cipher_close(h); if (e) caml_failwith("crypt"); CAMLreturn(res);
}
