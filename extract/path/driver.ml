(* driver.ml — oracle for group "path": one case per line on stdin, one canonical result line per case.
   P <euid> <tg> <flags> <leaf_is_dir> <chain>         path_is_secure on the visited part of the chain
   I <ids> <tg> <flags> <leaf_is_dir> <chain>          the same as a process with identity <ids> runs it
   A <chain>                                            path_is_accessible
   M <fg> <umask-octal>                                 modes of the five files created on a clean slate
   U <fg> <force> <ids> <tg> <umask-octal> key=<fobs> keydir=<chain> seed=<fobs> seeddir=<chain>
     log=<fobs> logdir=<chain> sock=<fobs> sockdir=<chain> lock=<fobs> pid=<fobs> piddir=<chain>
                                                        the whole start-up (pidw / wrote: the pid was written at
                                                        start-up / a new seed was written at exit)
   ids = ruid:euid:suid:rgid:egid:sgid
   chain = uid:gid:mode,...  (leaf first, octal modes; "-" = empty);  fstat = type:uid:gid:mode with type in
   r d l f s c b;  fobs = <symlink 0|1>/<fstat|-> : what lstat/stat report at a name = state of the entry *)
open Model
open Conv

let oct s = int_of_string ("0o" ^ s)
let n s = n_of_int (int_of_string s)
let no s = n_of_int (oct s)
let dstat s = match split_on ':' s with
  | [u; g; m] -> { d_uid = n u; d_gid = n g; d_mode = no m }
  | _ -> failwith ("dstat " ^ s)
let chain s = if s = "-" then [] else List.map dstat (split_on ',' s)
let ftype = function "r" -> TReg | "d" -> TDir | "l" -> TLnk | "f" -> TFifo | "s" -> TSock | "c" -> TChr
                   | "b" -> TBlk | s -> failwith ("ftype " ^ s)
let fstat s = if s = "-" then None else match split_on ':' s with
  | [t; u; g; m] -> Some { f_type = ftype t; f_uid = n u; f_gid = n g; f_mode = no m }
  | _ -> failwith ("fstat " ^ s)
let fobs s = match split_on '/' s with
  | [l; st] -> { o_symlink = (l = "1"); o_stat = fstat st }
  | _ -> failwith ("fobs " ^ s)
let ident s = match split_on ':' s with
  | [r; e; sv; rg; eg; sg] -> { i_ruid = n r; i_euid = n e; i_suid = n sv; i_rgid = n rg; i_egid = n eg; i_sgid = n sg }
  | _ -> failwith ("ident " ^ s)
let reason = function ROwner -> "O" | RGroupW -> "G" | RWorldW -> "W"
let site = function SLog -> "log" | SSeed -> "seed" | SKey -> "key" | SSock -> "sock" | SLock -> "lock"
                  | SBind -> "bind" | SPid -> "pid"
let why = function
  | WMissing -> "missing" | WType -> "type" | WSymlink -> "symlink" | WOwner -> "owner" | WGroup -> "group"
  | WOther -> "other" | WDir (i, r) -> Printf.sprintf "dir:%d:%s" (int_of_nat i) (reason r)
  | WAccess i -> Printf.sprintf "access:%d" (int_of_nat i) | WLock -> "lockfile" | WHang -> "hang"
  | WCreate -> "create" | WExists -> "exists"
let kv key tok =
  let p = key ^ "=" in
  let lp = String.length p in
  if String.length tok >= lp && String.sub tok 0 lp = p then String.sub tok lp (String.length tok - lp)
  else failwith ("expected " ^ p ^ " in " ^ tok)
let o3 x = Printf.sprintf "%03o" (int_of_n x)
let tletter = function TReg -> "r" | TDir -> "d" | TLnk -> "l" | TFifo -> "f" | TSock -> "s" | TChr -> "c" | TBlk -> "b"
let show_fstat s = Printf.sprintf "%s:%d:%d:%04o" (tletter s.f_type) (int_of_n s.f_uid) (int_of_n s.f_gid) (int_of_n s.f_mode)
let show_fobs e = Printf.sprintf "%d/%s" (if e.o_symlink then 1 else 0)
    (match e.o_stat with None -> "-" | Some s -> show_fstat s)
let verdict = function
  | Secure -> print_string "P 1\n"
  | Insecure (i, r) -> Printf.printf "P 0 %d %s\n" (int_of_nat i) (reason r)

let line l =
  match split_on ' ' l with
  | ["P"; e; tg; fl; ld; ch] -> verdict (path_is_secure (n e) (n tg) (n fl) (visited (ld = "1") (chain ch)))
  | ["I"; ids; tg; fl; ld; ch] -> verdict (path_secure_as (ident ids) (n tg) (n fl) (visited (ld = "1") (chain ch)))
  | ["A"; ch] ->
    (match path_is_accessible (chain ch) with
     | None -> print_string "A 1\n" | Some i -> Printf.printf "A 0 %d\n" (int_of_nat i))
  | ["M"; fg; um] ->
    let fg = (fg = "1") and u = no um in
    Printf.printf "M sock=%s lock=%s pid=%s log=%s seed=%s\n" (o3 (created (sock_recipe fg) u))
      (o3 (created (lock_recipe fg) u)) (o3 (created (pid_recipe fg) u))
      (if fg then "-" else o3 (created log_recipe u)) (o3 (created (seed_recipe fg) u))
  | ["U"; fg; force; ids; tg; um; k; kd; s; sd; lg; ld; so; rd; lk; pi; pd] ->
    let c = { c_fg = (fg = "1"); c_force = (force = "1"); c_id = ident ids; c_tg = n tg; c_umask = no um;
              c_key = fobs (kv "key" k); c_keydir = chain (kv "keydir" kd);
              c_seed = fobs (kv "seed" s); c_seeddir = chain (kv "seeddir" sd);
              c_log = fobs (kv "log" lg); c_logdir = chain (kv "logdir" ld);
              c_sock = fobs (kv "sock" so); c_sockdir = chain (kv "sockdir" rd); c_lock = fobs (kv "lock" lk);
              c_pid = fobs (kv "pid" pi); c_piddir = chain (kv "piddir" pd) } in
    (match startup c with
     | Some (s, WHang) -> Printf.printf "U hung %s\n" (site s)
     | Some (s, w) -> Printf.printf "U refuse %s:%s\n" (site s) (why w)
     | None ->
       let a = after_start c and sr = seed_of c in
       Printf.printf "U start sock=%s lock=%s pid=%s log=%s seed=%s used=%d removed=%d pidw=%d wrote=%d\n"
         (show_fobs a.a_sock) (show_fobs a.a_lock) (show_fobs a.a_pid)
         (match a.a_log with None -> "-" | Some x -> show_fobs x)
         (show_fobs (seed_after c))
         (if sr.sr_used then 1 else 0) (if sr.sr_removed then 1 else 0)
         (match (pid_of c).w_file with Some _ -> 1 | None -> 0)
         (match (seed_written c).w_file with Some _ -> 1 | None -> 0))
  | _ -> Printf.printf "? %s\n" l

let () =
  try while true do
      let l = input_line stdin in
      (try line l with Failure m -> Printf.printf "! %s\n" m)
    done with End_of_file -> ()
