(* Extract.v — extraction of PathModel to OCaml (group "path", property C16).
   Only ExtrOcamlBasic's directives are used; numbers stay inductive. *)
(* deps: PathModel.vo *)
Require Extraction.
Require Import ExtrOcamlBasic.
From MV Require Import Bytes GenPath PathModel.
Extraction Language OCaml.
Extraction "model.ml"
  b2n n2b
  path_is_secure path_secure_as dir_verdict path_is_accessible visited startup after_start seed_of seed_after seed_written pid_of perm_at
  keyfile_check logfile_check seed_step created sock_recipe lock_recipe pid_recipe seed_recipe log_recipe
  pid_write seed_write sock_bind lock_step log_open.
