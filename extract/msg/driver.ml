(* driver.ml — oracle for group "msg": same case lines and answers as harness/msg_harness.c.
     S <code> <maxlen> <heaplimit> <msgstate>                   -> S <rc|F> <wirehex|*>
     R <exptype> <maxlen> <heaplimit> <streamhex> <msgstate>    -> R <rc|F> <members> <7 buffers> nul=1 ec=_
   A message whose error fields were set by m_msg_set_err prints error_len and error_str as L (the
   wording of the local diagnostic is not modelled). *)
open Model
open Conv

let z_of_int i = if i = 0 then Z0 else if i > 0 then Zpos (pos_of_int i) else Zneg (pos_of_int (- i))
let int_of_z = function Z0 -> 0 | Zpos p -> int_of_pos p | Zneg p -> - (int_of_pos p)

let nflds = [Ntype; Nretry; Npkt_len; Ncipher; Nmac; Nzip; Nrealm_len; Nttl; Naddr_len; Ntime0; Ntime1;
             Nclient_uid; Nclient_gid; Ncred_uid; Ncred_gid; Nauth_uid; Nauth_gid; Ndata_len; Nauth_s_len;
             Nauth_c_len; Nerror_num; Nerror_len]
let bflds = [Bpkt; Brealm; Baddr; Bdata; Bauth_s; Bauth_c; Berror]

let parse_state toks =
  match toks with
  | nums :: bufs when List.length bufs = 7 ->
    let vs = List.map int_of_string (split_on ',' nums) in
    let m = List.fold_left2 (fun m f v -> setn m f (n_of_int v)) msg0 nflds vs in
    List.fold_left2 (fun m b t ->
        if t = "-" then (if b = Baddr then m else setb m b None)
        else setb m b (Some (unhex (let h = String.sub t 1 (String.length t - 1) in if h = "" then "-" else h))))
      m bflds bufs
  | _ -> failwith "msgstate"

let xhex l = "x" ^ (match l with [] -> "" | _ -> hex l)

let print_state ok m =
  let nums = List.map (fun f ->
      if f = Nerror_len && m.err_local then "L" else string_of_int (int_of_n (m.nv f))) nflds in
  let bufs = List.map (fun b ->
      match m.bv b with
      | None -> "-"
      | Some l ->
        if b = Baddr then xhex l
        else if b = Berror && m.err_local then "L"
        else if b = Bpkt then "*"
        else if ok then xhex l else "*") bflds in
  Printf.printf "%s %s nul=1 ec=_\n" (String.concat "," nums) (String.concat " " bufs)

let hp_of limit = let l = z_of_int limit in fun z -> Z.leb z l

let do_line line =
  match split_on ' ' line with
  | "S" :: code :: maxlen :: limit :: st ->
    let m = parse_state st in
    (match send (hp_of (int_of_string limit)) (n_of_int (int_of_string code)) m (z_of_int (int_of_string maxlen)) with
     | SOk w -> Printf.printf "S 0 %s\n" (hex w)
     | SErr e -> Printf.printf "S %d *\n" (int_of_n e)
     | SFault -> Printf.printf "S F *\n")
  | "R" :: exp :: maxlen :: limit :: stream :: st ->
    let m0 = parse_state st in
    let (r, _) = recv (hp_of (int_of_string limit)) (unhex stream) (n_of_int (int_of_string exp))
        (z_of_int (int_of_string maxlen)) m0 in
    (match r with
     | ROk m -> Printf.printf "R 0 "; print_state true m
     | RErr (e, m) -> Printf.printf "R %d " (int_of_n e); print_state false m
     | RFault _ -> Printf.printf "R F\n")
  | _ -> Printf.printf "? %s\n" line

let () =
  try while true do do_line (input_line stdin) done with End_of_file -> ()
