(* driver.ml — oracle for group "msg": same case lines and answers as harness/msg_harness.c.
     S <code> <maxlen> <heaplimit> <msgstate>                   -> S <rc|F> <wirehex|*>
     R <exptype> <maxlen> <heaplimit> <streamhex> <msgstate>    -> R <rc|F> <members> <7 buffers> nul=1 ec=_
   A message whose error fields were set by m_msg_set_err prints error_len and error_str as L (the
   wording of the local diagnostic is not modelled).
   Client side (same case lines and answers as harness/msgclient_harness.c):
     D <credhex> <n> <stream_1> ... <stream_n>
     E <cipher> <mac> <zip> <ttl> <auth_uid> <auth_gid> <payloadhex|-> <n> <stream_1> ... <stream_n> *)
open Model
open Conv

let z_of_int i = if i = 0 then Z0 else if i > 0 then Zpos (pos_of_int i) else Zneg (pos_of_int (- i))
let int_of_z = function Z0 -> 0 | Zpos p -> int_of_pos p | Zneg p -> - (int_of_pos p)

let nflds = [Ntype; Nretry; Npkt_len; Ncipher; Nmac; Nzip; Nrealm_len; Nttl; Naddr_len; Ntime0; Ntime1;
             Nclient_uid; Nclient_gid; Ncred_uid; Ncred_gid; Nauth_uid; Nauth_gid; Ndata_len; Nauth_s_len;
             Nauth_c_len; Nerror_num; Nerror_len]
let bflds = [Bpkt; Brealm; Baddr; Bdata; Bauth_s; Bauth_c; Berror]

let parse_state toks =
  match toks with
  | nums :: bufs when List.length bufs = 7 ->
    let vs = List.map int_of_string (split_on ',' nums) in
    let m = List.fold_left2 (fun m f v -> setn m f (n_of_int v)) msg0 nflds vs in
    List.fold_left2 (fun m b t ->
        if t = "-" then (if b = Baddr then m else setb m b None)
        else setb m b (Some (unhex (let h = String.sub t 1 (String.length t - 1) in if h = "" then "-" else h))))
      m bflds bufs
  | _ -> failwith "msgstate"

let xhex l = "x" ^ (match l with [] -> "" | _ -> hex l)

let print_state ok m =
  let nums = List.map (fun f ->
      if f = Nerror_len && m.err_local then "L" else string_of_int (int_of_n (m.nv f))) nflds in
  let bufs = List.map (fun b ->
      match m.bv b with
      | None -> "-"
      | Some l ->
        if b = Baddr then xhex l
        else if b = Berror && m.err_local then "L"
        else if b = Bpkt then "*"
        else if ok then xhex l else "*") bflds in
  Printf.printf "%s %s nul=1 ec=_\n" (String.concat "," nums) (String.concat " " bufs)

let hp_of limit = let l = z_of_int limit in fun z -> Z.leb z l

(* client side *)
let big_heap = let l = z_of_int (64 lsl 20) in fun z -> Z.leb z l
let cstr l = let rec go = function [] -> [] | b :: r -> if int_of_byte b = 0 then [] else b :: go r in go l
let cstr_opt = function None -> "-" | Some l -> xhex (cstr l)
let estr_s = function ENull -> "-" | ELocal -> "L" | EWire l -> xhex (cstr l)
let conns sent = Printf.sprintf " conns=%d%s" (List.length sent) (String.concat "" (List.map (fun w -> " " ^ hex w) sent))

let do_line line =
  match split_on ' ' line with
  | "S" :: code :: maxlen :: limit :: st ->
    let m = parse_state st in
    (match send (hp_of (int_of_string limit)) (n_of_int (int_of_string code)) m (z_of_int (int_of_string maxlen)) with
     | SOk w -> Printf.printf "S 0 %s\n" (hex w)
     | SErr e -> Printf.printf "S %d *\n" (int_of_n e)
     | SFault -> Printf.printf "S F *\n")
  | "R" :: exp :: maxlen :: limit :: stream :: st ->
    let m0 = parse_state st in
    let (r, _) = recv (hp_of (int_of_string limit)) (unhex stream) (n_of_int (int_of_string exp))
        (z_of_int (int_of_string maxlen)) m0 in
    (match r with
     | ROk m -> Printf.printf "R 0 "; print_state true m
     | RErr (e, m) -> Printf.printf "R %d " (int_of_n e); print_state false m
     | RFault _ -> Printf.printf "R F\n")
  | "D" :: cred :: _n :: streams ->
    let (r, sent) = client_decode big_heap (unhex cred) (List.map unhex streams) in
    (match r with
     | None -> Printf.printf "D F\n"
     | Some r ->
       let c = r.d_ctx in
       Printf.printf "D %d %d %d %d %s %d %s %d %d %d %d %d %s %d %d %d %s%s\n" (int_of_n r.d_err)
         (int_of_z c.x_cipher) (int_of_z c.x_mac) (int_of_z c.x_zip) (cstr_opt c.x_realm) (int_of_z c.x_ttl)
         (hex c.x_addr) (int_of_z c.x_time0) (int_of_z c.x_time1) (int_of_n c.x_auth_uid) (int_of_n c.x_auth_gid)
         (int_of_z r.d_len) (match r.d_buf with None -> "-" | Some l -> xhex l) (int_of_n r.d_uid) (int_of_n r.d_gid)
         (int_of_n r.d_err) (estr_s r.d_estr) (conns sent))
  | "E" :: ci :: ma :: zi :: ttl :: au :: ag :: payload :: _n :: streams ->
    let n s = n_of_int (int_of_string s) in
    let (r, sent) = client_encode big_heap (enc_req (n ci) (n ma) (n zi) (n ttl) (n au) (n ag) (unhex payload))
        (List.map unhex streams) in
    (match r with
     | None -> Printf.printf "E F\n"
     | Some r ->
       Printf.printf "E %d %s %s %s %s - %s %s %s %d %s%s\n" (int_of_n r.e_err) (cstr_opt r.e_cred) ci ma zi ttl au ag
         (int_of_n r.e_err) (estr_s r.e_estr) (conns sent))
  | _ -> Printf.printf "? %s\n" line

let () =
  try while true do do_line (input_line stdin) done with End_of_file -> ()
