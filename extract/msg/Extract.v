(* Extract.v — extraction of the message codec model (group "msg") to OCaml.
   Only ExtrOcamlBasic's directives are used.  Numbers and bytes stay inductive. *)
(* deps: MsgModel.vo MsgClientModel.vo *)
Require Extraction.
Require Import ExtrOcamlBasic.
From MV Require Import Bytes MsgModel MsgClientModel.
Extraction Language OCaml.
Extraction "model.ml"
  b2n n2b
  msg0 setn setb send recv msg_unpack job_exec to_int msg_length type_of_code
  client_decode client_encode enc_req.
