(* driver.ml (cred) — the credential pipeline model instantiated with libgcrypt/zlib/bzlib primitives.
   usage: oracle <keyfile>.  One case per line, one canonical result per line. *)
open Model
open Conv

external hmac_raw : int -> Stdlib.String.t -> Stdlib.String.t -> Stdlib.String.t = "ml_hmac"
external hash_raw : int -> Stdlib.String.t -> Stdlib.String.t = "ml_hash"
external blk_raw : bool -> int -> Stdlib.String.t -> Stdlib.String.t -> Stdlib.String.t = "ml_blk"
external zcomp_raw : int -> Stdlib.String.t -> Stdlib.String.t option = "ml_zcomp"
external zdecomp_raw : int -> Stdlib.String.t -> int -> Stdlib.String.t option = "ml_zdecomp"

let hmac a k d = of_string (hmac_raw (int_of_n a) (to_string k) (to_string d))
let sha1 d = of_string (hash_raw 3 (to_string d))
let blk_enc c k b = of_string (blk_raw false (int_of_n c) (to_string k) (to_string b))
let blk_dec c k b = of_string (blk_raw true (int_of_n c) (to_string k) (to_string b))
let zcomp z s = match zcomp_raw (int_of_n z) (to_string s) with Some r -> Some (of_string r) | None -> None
let zdecomp z s mx = match zdecomp_raw (int_of_n z) (to_string s) (int_of_n mx) with Some r -> Some (of_string r) | None -> None

let read_file f = let ic = open_in_bin f in let n = in_channel_length ic in let s = really_input_string ic n in close_in ic; s
let n = n_of_int
let i = int_of_n

let conf = ref { cf_def_cipher = n 4; cf_def_mac = n 5; cf_def_zip = n 0; cf_def_ttl = n 300; cf_max_ttl = n 3600;
                 cf_root_auth = false; cf_clock_skew = true; cf_socket_retry = true;
                 cf_addr = of_string "\x7f\x00\x00\x01"; cf_key = [] }
let rs : (byte list * n) list ref = ref []
let last_key : (byte list * n) option ref = ref None

let kv s = match Stdlib.String.index_opt s '=' with
  | Some p -> (Stdlib.String.sub s 0 p, Stdlib.String.sub s (p + 1) (Stdlib.String.length s - p - 1)) | None -> (s, "")

let set_conf args =
  List.iter (fun a -> let (k, v) = kv a in
    let c = !conf in
    conf := (match k with
      | "def_cipher" -> { c with cf_def_cipher = n (int_of_string v) }
      | "def_mac" -> { c with cf_def_mac = n (int_of_string v) }
      | "def_zip" -> { c with cf_def_zip = n (int_of_string v) }
      | "def_ttl" -> { c with cf_def_ttl = n (int_of_string v) }
      | "max_ttl" -> { c with cf_max_ttl = n (int_of_string v) }
      | "root_auth" -> { c with cf_root_auth = (v = "1") }
      | "clock_skew" -> { c with cf_clock_skew = (v = "1") }
      | "socket_retry" -> { c with cf_socket_retry = (v = "1") }
      | "addr" -> { c with cf_addr = unhex v }
      | "key" -> { c with cf_key = unhex v }
      | _ -> c)) args

let members_of s =
  if s = "-" then [] else
  List.map (fun p -> match Stdlib.String.split_on_char ':' p with
    | [u; g] -> (int_of_string u, int_of_string g) | _ -> (-1, -1)) (Stdlib.String.split_on_char ',' s)

let print_msg tag (m : msg) =
  Printf.printf "%s %d %s %d %d %d %d %s %d %d %s %d %d %d %d %d %d %d %s\n" tag
    (i m.m_err) (hex m.m_errstr) (i m.m_cipher) (i m.m_mac) (i m.m_zip) (i m.m_realm_len) (hex m.m_realm)
    (i m.m_ttl) (i m.m_addr_len) (hex (if i m.m_addr_len = 0 then [] else m.m_addr)) (i m.m_time0) (i m.m_time1)
    (i m.m_cred_uid) (i m.m_cred_gid) (i m.m_auth_uid) (i m.m_auth_gid) (i m.m_data_len) (hex m.m_data)

let line l =
  match split_on ' ' l with
  | "CONF" :: args -> set_conf args; print_endline "CONF ok"
  | ["RESET"] -> rs := []; last_key := None; print_endline "RESET ok"
  | ["BUILD"; ci; ma; zi; realm; salt; addr; t0; ttl; uid; gid; au; ag; data; iv] ->
      (* the SPEC-side builder (V3Accept.v3_build): any IV, any salt, any origin address, compression kept as is *)
      let f = { f_cipher = n (int_of_string ci); f_mac = n (int_of_string ma); f_zip = n (int_of_string zi);
                f_realm = unhex realm; f_salt = unhex salt; f_addr = unhex addr; f_time = n (int_of_string t0);
                f_ttl = n (int_of_string ttl); f_uid = n (int_of_string uid); f_gid = n (int_of_string gid);
                f_auth_uid = n (int_of_string au); f_auth_gid = n (int_of_string ag); f_data = unhex data } in
      (match v3_build hmac sha1 blk_enc zcomp !conf.cf_key f (unhex iv) with
       | Some c -> Printf.printf "BUILD %s\n" (hex c)
       | None -> print_endline "BUILD none")
  | ["PURGE"; now] -> rs := r_purge (n (int_of_string now)) !rs; Printf.printf "PURGE %d\n" (List.length !rs)
  | ["ROLLBACK"] -> rs := dec_rollback !rs !last_key; last_key := None; print_endline "ROLLBACK ok"
  | ["ENC"; ci; ma; zi; realm; ttl; au; ag; data; retry; pu; pg; now; salt; iv] ->
      let r = unhex realm and d = unhex data in
      let m = { msg0 with m_cipher = n (int_of_string ci); m_mac = n (int_of_string ma); m_zip = n (int_of_string zi);
                m_realm_len = n (List.length r); m_realm = r; m_ttl = n (int_of_string ttl);
                m_auth_uid = n (int_of_string au); m_auth_gid = n (int_of_string ag);
                m_data_len = n (List.length d); m_data = d; m_retry = n (int_of_string retry) } in
      let rsp = enc_process hmac sha1 blk_enc zcomp !conf m (n (int_of_string pu)) (n (int_of_string pg))
                  (n (int_of_string now)) (unhex salt) (unhex iv) in
      Printf.printf "ENC %d %s %s\n" (i rsp.er_err) (hex rsp.er_errstr) (hex rsp.er_data)
  | "DEC" :: cred :: retry :: pu :: pg :: now :: mem :: rest when List.length rest <= 1 ->
      (* DEC cred retry uid gid now members [now2]: now = the clock when the request is received, now2 = the clock at its
         replay step (after replay_insert); without now2 the clock has not moved (the atomic dec_process) *)
      let c = unhex cred in
      let members = members_of mem in
      let is_member u g = List.mem (i u, i g) members in
      let m = { msg0 with m_data = c; m_data_len = n (List.length c); m_retry = n (int_of_string retry) } in
      let ((rsp, rs'), k) =
        match rest with
        | [now2] -> dec_process2 hmac sha1 blk_dec zdecomp !conf is_member !rs m
                      (n (int_of_string pu)) (n (int_of_string pg)) (n (int_of_string now)) (n (int_of_string now2))
        | _ -> dec_process hmac sha1 blk_dec zdecomp !conf is_member !rs m
                 (n (int_of_string pu)) (n (int_of_string pg)) (n (int_of_string now)) in
      rs := rs'; last_key := k;
      print_msg "DEC" rsp
  | ["DECF"; cred; pu; pg; now; mem; fl] ->
      (* libmunge's retry loop under a fault plan: Q = request cut, L = reply lost, S = reply send failed *)
      let c = unhex cred in
      let members = members_of mem in
      let is_member u g = List.mem (i u, i g) members in
      let faults = if fl = "-" then [] else
        List.map (function "Q" -> ReqCut | "L" -> RspLost | _ -> RspSendFailed) (Stdlib.String.split_on_char ',' fl) in
      let (rs', r) = munge_decode_under_faults hmac sha1 blk_dec zdecomp !conf is_member c
                       (n (int_of_string pu)) (n (int_of_string pg)) (n (int_of_string now)) !rs faults in
      rs := rs'; last_key := None;
      (match r with Some m -> print_msg "DECF" m | None -> print_endline "DECF SOCKERR")
  | ["PARSE"; cred] ->
      (* structure only: armor, outer, decrypt+MAC, decompress, inner; recovers salt and IV *)
      let c = unhex cred in
      (match dec_unarmor c with
       | Inr _ -> print_endline "PARSE err armor"
       | Inl body ->
         match dec_unpack_outer msg0 body with
         | Inl _ -> print_endline "PARSE err outer"
         | Inr o ->
           match dec_decrypt_mac hmac sha1 blk_dec !conf o with
           | Inl _ -> print_endline "PARSE err mac"
           | Inr plain ->
             match dec_decompress zdecomp o.oo_msg plain with
             | Inl _ -> print_endline "PARSE err zip"
             | Inr inner ->
               match dec_unpack_inner o.oo_msg inner with
               | Inl _ -> print_endline "PARSE err inner"
               | Inr m ->
                 let salt = List.filteri (fun j _ -> j < 8) inner in
                 Printf.printf "PARSE ok %s %s " (hex salt) (hex o.oo_iv); print_msg "M" m)
  | _ -> Printf.printf "? %s\n" l

let () =
  if Array.length Sys.argv > 1 then conf := { !conf with cf_key = of_string (read_file Sys.argv.(1)) };
  try while true do line (input_line stdin); flush stdout done with End_of_file -> ()
