(* deps: CredModel.vo RetryModel.vo CredHistory.vo V3Accept.vo *)
(* Extraction of the credential pipeline model.  ExtrOcamlBasic directives only. *)
Require Extraction.
Require Import ExtrOcamlBasic.
From MV Require Import Bytes Base64Model CredModel RetryModel CredHistory V3Spec V3Accept.
Extraction Language OCaml.
Extraction "model.ml"
  b2n n2b msg0 msg_reset set_err enc_process enc_pre enc_core dec_process dec_process2 dec_rollback
  dec_unarmor dec_unpack_outer dec_decrypt_mac dec_decompress dec_unpack_inner dec_parse
  dec_time dec_authorized cred_rkey r_mem armor pack_outer pack_inner
  cbc_encrypt cbc_decrypt pkcs_pad pkcs_unpad zip_compress zip_decompress_length
  dek_subkey mac_subkey mac_size cipher_key_size cipher_blk_size cipher_iv_size
  munge_decode_under_faults dec_attempt r_purge v3_build.
