(* driver.ml — oracle for the acceptor (job_accept).  Usage: oracle <src|ref|check>
   (check: stdin  C <out> <log>  ->  C clauses=....  = JobModel.clauses on the given log)
   stdin : J <sigs|-> <ret>[/<sigs>] ...        (same lines as harness/job_harness.c)
   stdout: R out=<return|fatal|stuck|spin> log=<event>,... clauses=<handoff><backlog><stop><sighup><progress>  (1 = holds) *)
open Model
open Conv

let z_of_int i = if i = 0 then Z0 else if i > 0 then Zpos (pos_of_int i) else Zneg (pos_of_int (- i))
let int_of_z = function Z0 -> 0 | Zpos p -> int_of_pos p | Zneg p -> - (int_of_pos p)

let sigs_of s =
  List.concat_map (fun c -> match c with 'h' -> [SIGHUP] | 'i' -> [SIGINT] | 't' -> [SIGTERM] | _ -> [])
    (List.init (String.length s) (String.get s))

let errname e = match e with
  | E0 -> "E0" | EINTR -> "EINTR" | ECONNABORTED -> "ECONNABORTED" | EMFILE -> "EMFILE" | ENFILE -> "ENFILE"
  | ENOBUFS -> "ENOBUFS" | ENOMEM -> "ENOMEM" | EAGAIN -> "EAGAIN" | EBADF -> "EBADF" | EINVAL -> "EINVAL"
  | EPERM -> "EPERM" | ENOTSOCK -> "ENOTSOCK" | EPROTO -> "EPROTO"
let errname_of_code z =
  let all = [E0; EINTR; ECONNABORTED; EMFILE; ENFILE; ENOBUFS; ENOMEM; EAGAIN; EBADF; EINVAL; EPERM; ENOTSOCK; EPROTO] in
  match List.filter (fun e -> int_of_z (errno_code e) = int_of_z z) all with e :: _ -> errname e | [] -> "?"

let okf b = if b then "ok" else "fail"
let prio = function PErr -> "err" | PWarning -> "warning" | PNotice -> "notice" | PInfo -> "info" | PDebug -> "debug"
let tag = function
  | TCreated -> "created" | TReconfig -> "reconfig" | TAcceptFail -> "acceptfail" | TNonblock -> "nonblock"
  | TCreate -> "create" | TBind -> "bind" | TQueue -> "queue" | TExiting -> "exiting" | TOther -> "other"

let show = function
  | EInit ok -> "I:" ^ okf ok
  | EAcceptConn fd -> Printf.sprintf "A:c%d" (int_of_z fd)
  | EAcceptErr e -> "A:e" ^ errname e
  | ETime t -> Printf.sprintf "T:%d" (int_of_z t)
  | ELog (p, t, a) -> Printf.sprintf "L:%s:%s:%s" (prio p) (tag t)
                        (match t with TAcceptFail -> errname_of_code a | _ -> string_of_int (int_of_z a))
  | EWait -> "W"
  | EQueue (fd, ok) -> Printf.sprintf "Q:%d:%s" (int_of_z fd) (okf ok)
  | EClose fd -> Printf.sprintf "C:%d" (int_of_z fd)
  | ENonblock (fd, ok) -> Printf.sprintf "N:%d:%s" (int_of_z fd) (okf ok)
  | ECreate ok -> "M:" ^ okf ok
  | EBind (fd, ok) -> Printf.sprintf "B:%d:%s" (int_of_z fd) (okf ok)
  | EDestroy fd -> Printf.sprintf "D:%d" (int_of_z fd)
  | EGids -> "G"
  | EFatal t -> "X:" ^ (match t with FInit -> "init" | FTime -> "time" | FAccept -> "accept" | FOther -> "other")
  | EFini d -> if d then "F:1" else "F:0"
  | ESig s -> Printf.sprintf "S:%d" (int_of_z (signo s))

let outname = function
  | KReturn | KNormal -> "return" | KFatal -> "fatal" | KStuck -> "stuck" | KSpin -> "spin"
  | KBreak -> "break" | KContinue -> "continue"

let entry tok =
  match split_on '/' tok with
  | [r] -> { a_ret = z_of_int (int_of_string r); a_sigs = [] }
  | [r; s] -> { a_ret = z_of_int (int_of_string r); a_sigs = sigs_of s }
  | _ -> failwith "entry"

let line prog l =
  match List.filter (fun t -> t <> "") (split_on ' ' l) with
  | "J" :: isigs :: entries ->
      (match (try Some (List.map entry entries) with _ -> None) with
       | None -> print_string "? bad script\n"
       | Some cs ->
           let (k, evs) = run prog (if isigs = "-" then [] else sigs_of isigs) cs no_reads in
           let ((((a, b), c), d), e) = clauses evs k in
           let bit x = if x then "1" else "0" in
           Printf.printf "R out=%s log=%s clauses=%s%s%s%s%s\n" (outname k)
             (if evs = [] then "-" else String.concat "," (List.map show evs)) (bit a) (bit b) (bit c) (bit d) (bit e))
  | _ -> print_string "? bad script\n"

(* ---- the monitors on a log that is given (the implementation's) -------------------------- *)
let all_errnos = [E0; EINTR; ECONNABORTED; EMFILE; ENFILE; ENOBUFS; ENOMEM; EAGAIN; EBADF; EINVAL; EPERM; ENOTSOCK; EPROTO]
let err_of_name n = match List.filter (fun e -> errname e = n) all_errnos with e :: _ -> e | [] -> E0
let zs s = z_of_int (int_of_string s)
let isok r = (r = "ok")
let parse_ev s : event =
  match split_on ':' s with
  | ["I"; r] -> EInit (isok r)
  | ["A"; x] when String.length x > 1 && x.[0] = 'c' -> EAcceptConn (zs (String.sub x 1 (String.length x - 1)))
  | ["A"; x] when String.length x > 1 && x.[0] = 'e' -> EAcceptErr (err_of_name (String.sub x 1 (String.length x - 1)))
  | ["T"; t] -> ETime (zs t)
  | ["L"; p; t; a] ->
      let pr = (match p with "err" -> PErr | "warning" -> PWarning | "notice" -> PNotice | "info" -> PInfo | _ -> PDebug) in
      let tg = (match t with "created" -> TCreated | "reconfig" -> TReconfig | "acceptfail" -> TAcceptFail
                | "nonblock" -> TNonblock | "create" -> TCreate | "bind" -> TBind | "queue" -> TQueue
                | "exiting" -> TExiting | _ -> TOther) in
      ELog (pr, tg, (match tg with TAcceptFail -> errno_code (err_of_name a) | _ -> zs a))
  | ["W"] -> EWait
  | ["Q"; fd; r] -> EQueue (zs fd, isok r)
  | ["C"; fd] -> EClose (zs fd)
  | ["N"; fd; r] -> ENonblock (zs fd, isok r)
  | ["M"; r] -> ECreate (isok r)
  | ["B"; fd; r] -> EBind (zs fd, isok r)
  | ["D"; fd] -> EDestroy (zs fd)
  | ["G"] -> EGids
  | ["X"; t] -> EFatal (match t with "init" -> FInit | "time" -> FTime | "accept" -> FAccept | _ -> FOther)
  | ["F"; d] -> EFini (d = "1")
  | ["S"; n] -> ESig (match n with "1" -> SIGHUP | "2" -> SIGINT | _ -> SIGTERM)
  | _ -> failwith ("event " ^ s)

let check_line l =
  match List.filter (fun t -> t <> "") (split_on ' ' l) with
  | ["C"; out; log] ->
      (try
        let evs = if log = "-" then [] else List.map parse_ev (split_on ',' log) in
        let k = (match out with "return" -> KReturn | "fatal" -> KFatal | "stuck" -> KStuck | _ -> KSpin) in
        let ((((a, b), c), d), e) = clauses evs k in
        let bit x = if x then "1" else "0" in
        Printf.printf "C clauses=%s%s%s%s%s\n" (bit a) (bit b) (bit c) (bit d) (bit e)
      with _ -> print_string "? bad log\n")
  | _ -> print_string "? bad log\n"

let () =
  if Array.length Sys.argv > 1 && Sys.argv.(1) = "check" then
    (try while true do check_line (input_line stdin) done with End_of_file -> ())
  else
  let prog = if Array.length Sys.argv > 1 && Sys.argv.(1) = "ref" then job_ref else src_job in
  try while true do line prog (input_line stdin) done with End_of_file -> ()
