(* driver.ml — oracle for the acceptor (job_accept).  Usage: oracle <src|ref>
   stdin : J <sigs|-> <ret>[/<sigs>] ...        (same lines as harness/job_harness.c)
   stdout: R out=<return|fatal|stuck|spin> log=<event>,... clauses=<handoff><backlog><stop><sighup>  (1 = holds) *)
open Model
open Conv

let z_of_int i = if i = 0 then Z0 else if i > 0 then Zpos (pos_of_int i) else Zneg (pos_of_int (- i))
let int_of_z = function Z0 -> 0 | Zpos p -> int_of_pos p | Zneg p -> - (int_of_pos p)

let sigs_of s =
  List.concat_map (fun c -> match c with 'h' -> [SIGHUP] | 'i' -> [SIGINT] | 't' -> [SIGTERM] | _ -> [])
    (List.init (String.length s) (String.get s))

let errname e = match e with
  | E0 -> "E0" | EINTR -> "EINTR" | ECONNABORTED -> "ECONNABORTED" | EMFILE -> "EMFILE" | ENFILE -> "ENFILE"
  | ENOBUFS -> "ENOBUFS" | ENOMEM -> "ENOMEM" | EAGAIN -> "EAGAIN" | EBADF -> "EBADF" | EINVAL -> "EINVAL"
  | EPERM -> "EPERM" | ENOTSOCK -> "ENOTSOCK" | EPROTO -> "EPROTO"
let errname_of_code z =
  let all = [E0; EINTR; ECONNABORTED; EMFILE; ENFILE; ENOBUFS; ENOMEM; EAGAIN; EBADF; EINVAL; EPERM; ENOTSOCK; EPROTO] in
  match List.filter (fun e -> int_of_z (errno_code e) = int_of_z z) all with e :: _ -> errname e | [] -> "?"

let okf b = if b then "ok" else "fail"
let prio = function PErr -> "err" | PWarning -> "warning" | PNotice -> "notice" | PInfo -> "info" | PDebug -> "debug"
let tag = function
  | TCreated -> "created" | TReconfig -> "reconfig" | TAcceptFail -> "acceptfail" | TNonblock -> "nonblock"
  | TCreate -> "create" | TBind -> "bind" | TQueue -> "queue" | TExiting -> "exiting" | TOther -> "other"

let show = function
  | EInit ok -> "I:" ^ okf ok
  | EAcceptConn fd -> Printf.sprintf "A:c%d" (int_of_z fd)
  | EAcceptErr e -> "A:e" ^ errname e
  | ETime t -> Printf.sprintf "T:%d" (int_of_z t)
  | ELog (p, t, a) -> Printf.sprintf "L:%s:%s:%s" (prio p) (tag t)
                        (match t with TAcceptFail -> errname_of_code a | _ -> string_of_int (int_of_z a))
  | EWait -> "W"
  | EQueue (fd, ok) -> Printf.sprintf "Q:%d:%s" (int_of_z fd) (okf ok)
  | EClose fd -> Printf.sprintf "C:%d" (int_of_z fd)
  | ENonblock (fd, ok) -> Printf.sprintf "N:%d:%s" (int_of_z fd) (okf ok)
  | ECreate ok -> "M:" ^ okf ok
  | EBind (fd, ok) -> Printf.sprintf "B:%d:%s" (int_of_z fd) (okf ok)
  | EDestroy fd -> Printf.sprintf "D:%d" (int_of_z fd)
  | EGids -> "G"
  | EFatal t -> "X:" ^ (match t with FInit -> "init" | FTime -> "time" | FAccept -> "accept" | FOther -> "other")
  | EFini d -> if d then "F:1" else "F:0"
  | ESig s -> Printf.sprintf "S:%d" (int_of_z (signo s))

let outname = function
  | KReturn | KNormal -> "return" | KFatal -> "fatal" | KStuck -> "stuck" | KSpin -> "spin"
  | KBreak -> "break" | KContinue -> "continue"

let entry tok =
  match split_on '/' tok with
  | [r] -> { a_ret = z_of_int (int_of_string r); a_sigs = [] }
  | [r; s] -> { a_ret = z_of_int (int_of_string r); a_sigs = sigs_of s }
  | _ -> failwith "entry"

let line prog l =
  match List.filter (fun t -> t <> "") (split_on ' ' l) with
  | "J" :: isigs :: entries ->
      (match (try Some (List.map entry entries) with _ -> None) with
       | None -> print_string "? bad script\n"
       | Some cs ->
           let (k, evs) = run prog (if isigs = "-" then [] else sigs_of isigs) cs no_reads in
           let (((a, b), c), d) = clauses evs k in
           let bit x = if x then "1" else "0" in
           Printf.printf "R out=%s log=%s clauses=%s%s%s%s\n" (outname k)
             (if evs = [] then "-" else String.concat "," (List.map show evs)) (bit a) (bit b) (bit c) (bit d))
  | _ -> print_string "? bad script\n"

let () =
  let prog = if Array.length Sys.argv > 1 && Sys.argv.(1) = "ref" then job_ref else src_job in
  try while true do line prog (input_line stdin) done with End_of_file -> ()
