(* deps: JobModel.vo gen/GenJob.vo *)
(* Extraction of the interpreter of the acceptor program (JobModel), the program translated from job.c
   (GenJob.src_job), the reference program the theorems are about, and the clause monitors.
   Only ExtrOcamlBasic's directives; numbers stay inductive. *)
Require Extraction.
Require Import ExtrOcamlBasic.
From MV Require Import Bytes JobModel GenJob.
Extraction Language OCaml.
Extraction "model.ml"
  b2n n2b
  run job_ref src_job no_reads clauses errno_code signo.
