(* driver.ml — oracle for group "keys": one case per line on stdin, one canonical result line per case.
   hmac and the digest are libgcrypt's (stubs.c); munged/mungekey use OpenSSL. *)
open Model
open Conv

external ml_hmac : int -> string -> string -> string = "ml_hmac"
external ml_hash : int -> string -> string = "ml_hash"

let hmac alg k d = of_string (ml_hmac alg (to_string k) (to_string d))
let rec z_of_int i = if i = 0 then Z0 else if i > 0 then Zpos (pos_of_int i) else Zneg (pos_of_int (- i))
let opt_bytes tok = if tok = "*" then None else Some (unhex tok)
let hash_len md = nat_of_int (int_of_n (digest_len (n_of_int md)))
let pr_opt tag = function
  | None -> Printf.printf "%s 1 0 *\n" tag
  | Some o -> Printf.printf "%s 0 %d %s\n" tag (List.length o) (hex o)

(* the streaming digest: state = bytes fed so far, final = SHA-1 (munge_mac_t 3) by libgcrypt *)
let hupd s c = s @ c
let hfin s = of_string (ml_hash 3 (to_string s))
let the_path = n_of_int 1

let line l =
  match split_on ' ' l with
  | ["H"; md; ikm; salt; info; len] ->
      let md = int_of_string md in
      let info = if info = "*" then [] else unhex info in
      pr_opt "H" (hkdf (hmac md) (hash_len md) (opt_bytes salt) (opt_bytes ikm) info (nat_of_int (int_of_string len)))
  | ["R"; md; ikm; salt; info; len] ->
      let md = int_of_string md in
      let info = if info = "*" then [] else unhex info in
      pr_opt "R" (rfc5869 (hmac md) (hash_len md) (opt_bytes salt) (unhex ikm) info (nat_of_int (int_of_string len)))
  | ["B"; bits] ->
      let b = if bits = "default" then None else Some (z_of_int (int_of_string bits)) in
      (match key_num_bytes b with
       | None -> Printf.printf "B 1 0\n"
       | Some n -> Printf.printf "B 0 %d\n" (int_of_n n))
  | ["I"; nbytes] -> Printf.printf "I %s\n" (hex (key_info (n_of_int (int_of_string nbytes))))
  | ["M"; ikm; salt; nbytes] ->
      let md = int_of_n key_hkdf_md in
      pr_opt "M" (key_secret (hmac md) (hash_len md) (unhex ikm) (unhex salt) (nat_of_int (int_of_string nbytes)))
  | ["C"; oldmode; olddata; force; umask; secret] ->
      (* one path (1); old file present unless oldmode = "*" *)
      let old = if oldmode = "*" then None
                else Some { f_mode = n_of_int (int_of_string oldmode); f_data = unhex olddata } in
      let fs = fs_set (fun _ -> None) the_path old in
      let sec = if secret = "*" then None else Some (unhex secret) in
      let n = match sec with None -> 0 | Some s -> List.length s in
      let (ok, fs') = create_key fs the_path (force = "1") (n_of_int (int_of_string umask)) (nat_of_int n) sec in
      (match fs' the_path with
       | None -> Printf.printf "C %d * *\n" (if ok then 0 else 1)
       | Some f -> Printf.printf "C %d %d %s\n" (if ok then 0 else 1) (int_of_n f.f_mode) (hex f.f_data))
  | ["K"; key] ->
      (match create_subkeys [] hupd hfin (unhex key) with
       | None -> Printf.printf "K 1 * *\n"
       | Some (d, m) -> Printf.printf "K 0 %s %s\n" (hex d) (hex m))
  | _ -> Printf.printf "? %s\n" l

let () =
  try while true do line (input_line stdin) done with End_of_file -> ()
