(* deps: HkdfModel.vo KeyModel.vo *)
(* Extract.v — extraction of the HKDF / key models (group "keys") to OCaml.
   Only ExtrOcamlBasic's directives; numbers and bytes stay inductive.  The
   hmac / digest primitives are function arguments of the extracted code; the
   driver instantiates them with libgcrypt (extract/stubs.c). *)
Require Extraction.
Require Import ExtrOcamlBasic.
From MV Require Import Bytes HkdfModel KeyModel.
From MV.gen Require Import GenKeys.
Extraction Language OCaml.
Extraction "model.ml"
  b2n n2b
  hkdf rfc5869 key_num_bytes key_info key_secret digest_len key_hkdf_md
  create_key fs_set mkfile create_subkeys subkeys_of_chunks.
