(* conv.ml — conversions between OCaml values and the extracted inductives.
   Goes through the model's own b2n/n2b, no Obj.magic. *)
open Model
let rec int_of_pos = function XH -> 1 | XO p -> 2 * int_of_pos p | XI p -> 2 * int_of_pos p + 1
let int_of_n = function N0 -> 0 | Npos p -> int_of_pos p
let rec pos_of_int i =
  if i = 1 then XH else if i land 1 = 0 then XO (pos_of_int (i lsr 1)) else XI (pos_of_int (i lsr 1))
let n_of_int i = if i = 0 then N0 else Npos (pos_of_int i)
let rec nat_of_int i = if i = 0 then O else S (nat_of_int (i - 1))
let rec int_of_nat = function O -> 0 | S n -> 1 + int_of_nat n
let btab = Array.init 256 (fun i -> n2b (n_of_int i))
let itab : (byte, int) Hashtbl.t = Hashtbl.create 512
let () = Array.iteri (fun i b -> Hashtbl.replace itab b i) btab
let int_of_byte (b : byte) = Hashtbl.find itab b
let to_string (l : byte list) =
  let b = Buffer.create 64 in
  List.iter (fun x -> Buffer.add_char b (Char.chr (int_of_byte x))) l; Buffer.contents b
let of_string (s : Stdlib.String.t) = List.init (Stdlib.String.length s) (fun i -> btab.(Char.code s.[i]))
let hex_of_string s =
  let b = Buffer.create (2 * Stdlib.String.length s) in
  Stdlib.String.iter (fun c -> Buffer.add_string b (Printf.sprintf "%02x" (Char.code c))) s; Buffer.contents b
let string_of_hex h =
  let n = Stdlib.String.length h / 2 in
  Stdlib.String.init n (fun i -> Char.chr (int_of_string ("0x" ^ Stdlib.String.sub h (2 * i) 2)))
let hex l = let s = hex_of_string (to_string l) in if s = "" then "-" else s
let unhex h = if h = "-" then [] else of_string (string_of_hex h)
let split_on c s = if s = "" then [] else Stdlib.String.split_on_char c s
