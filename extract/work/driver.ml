(* driver.ml — oracle for the work-crew LTS.
   stdin : T <code|or|and> <n> <token> ...      (tokens: see tools/props/c12.py, to_tokens)
   stdout: T ok acc=<class> queue=<ids> inprog=<ids> done=<ids>
         | T reject <k> <token> acc=<class> queue=<ids> inprog=<ids> done=<ids>   (state before event k) *)
open Model
open Conv

let nat s = nat_of_int (int_of_string s)
let bool_of s = (s = "1")
let ids l = if l = [] then "-" else String.concat "." (List.map (fun x -> string_of_int (int_of_nat x)) l)

let parse tok : tev =
  let f = split_on ':' tok in
  let hd = List.hd f in
  let tag = hd.[0] and rest = String.sub hd 1 (String.length hd - 1) in
  let wexp i c = Some (nat i, nat c) in
  match tag, f with
  | 'E', [_] -> TStep (LEnqueue (nat rest), None, None, None)
  | 'G', [_] -> if rest = "-" then TStep (LSignal None, None, None, None)
                else TStep (LSignal (Some (nat rest)), wexp rest "1", None, None)
  | 'S', [_; c] -> TStep (LStart (nat rest), wexp rest c, None, None)
  | 'R', [_; c] -> TStep (LRetest (nat rest), wexp rest c, None, None)
  | 'P', [_] -> TStep (LSpurious (nat rest), None, None, None)
  | 'D', [_] -> TStep (LDie (nat rest), wexp rest "4", None, None)
  | 'F', [_; c; g] -> TStep (LFinish (nat rest), wexp rest c, None, Some (bool_of g))
  | 'J', [_; x] -> TJob (nat rest, nat x)
  | 'W', [_; a] -> TStep (LWaitEnter, None, Some (nat a), None)
  | 'Z', [_; a] -> TStep (LFiniEnter (bool_of rest), None, Some (nat a), None)
  | 'K', [_; a] -> TStep (LWaitWake, None, Some (nat a), None)
  | 'A', [_] -> TStep (LAccSpurious, None, None, None)
  | 'C', [_; a] -> TStep (LCancel, None, Some (nat a), None)
  | 'N', [_; a] -> TStep (LJoin, None, Some (nat a), None)
  | _ -> failwith ("bad token " ^ tok)

let summary s =
  Printf.sprintf "acc=%d queue=%s inprog=%s done=%s"
    (int_of_nat (aclass s.acc)) (ids s.queue) (ids (in_progress s)) (ids s.done0)

let line l =
  match split_on ' ' l with
  | "T" :: g :: n :: toks ->
      let (wc, fc) = match g with
        | "or" -> (guard_or, guard_or) | "and" -> (guard_and, guard_and)
        | _ -> (code_wait_cond, code_fini_cond) in
      let toks = List.filter (fun t -> t <> "") toks in
      (match (try Some (List.map parse toks) with _ -> None) with
       | None -> Printf.printf "T badinput\n"
       | Some evs ->
         (match check_trace wc fc (init (nat n)) O evs with
          | (None, s) -> Printf.printf "T ok %s\n" (summary s)
          | (Some k, s) -> let k = int_of_nat k in
                           Printf.printf "T reject %d %s %s\n" k (List.nth toks k) (summary s)))
  | _ -> Printf.printf "? %s\n" l

let () =
  try while true do line (input_line stdin) done with End_of_file -> ()
