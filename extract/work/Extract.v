(* deps: WorkModel.vo gen/GenWork.vo *)
(* Extraction of the work-crew LTS (trace checker) with the guard tables probed from work.c.
   Only ExtrOcamlBasic's directives; numbers stay inductive. *)
Require Extraction.
Require Import ExtrOcamlBasic.
From MV Require Import Bytes WorkModel GenWork.
Extraction Language OCaml.
Extraction "model.ml"
  b2n n2b
  check_trace run step init guard_or guard_and code_wait_cond code_fini_cond
  aclass wclass in_progress finish_signals.
