(* deps: FdModel.vo *)
(* Extract.v — extraction of FdModel (timed I/O loops of fd.c) to OCaml; ExtrOcamlBasic directives only. *)
Require Extraction.
Require Import ExtrOcamlBasic.
From MV Require Import Bytes FdModel.
Extraction Language OCaml.
Extraction "model.ml"
  b2n n2b
  fd_timed_read_n fd_timed_write_n fd_timed_write_iov
  r_rc r_x r_w w_clock w_errno w_trace w_np w_nio w_exh
  rd_buf rd_peer wn_out wv_out.
