(* driver.ml — `oracle`: one case line of harness/fd_harness.c per line on stdin, one answer line in the same
   format, computed by the extracted FdModel. *)
open Model
open Conv

let rec z_of_int i = if i = 0 then Z0 else if i > 0 then Zpos (pos_of_int i) else Zneg (pos_of_int (- i))
let int_of_z = function Z0 -> 0 | Zpos p -> int_of_pos p | Zneg p -> - (int_of_pos p)

let data t =
  if t = "" || t = "-" then []
  else match t.[0] with
  | 'x' -> if Stdlib.String.length t = 1 then [] else unhex (Stdlib.String.sub t 1 (Stdlib.String.length t - 1))
  | 'g' ->
    (match split_on ':' (Stdlib.String.sub t 1 (Stdlib.String.length t - 1)) with
     | [n; seed] ->
       let n = int_of_string n and x = ref (int_of_string seed) in
       let b = Bytes.create n in
       for i = 0 to n - 1 do
         x := (!x * 1103515245 + 12345) land 0x7fffffff;
         Bytes.set b i (Char.chr ((!x lsr 16) land 255))
       done;
       of_string (Bytes.to_string b)
     | _ -> failwith "data")
  | _ -> failwith "data"

let list_of t f = if t = "-" then [] else List.map f (split_on ',' t)

let num s = int_of_string s
let pev t =
  let rest = Stdlib.String.sub t 1 (Stdlib.String.length t - 1) in
  match t.[0] with
  | 'v' -> (match split_on ':' rest with
            | [dt; fl] -> let fl = num fl in PRev (z_of_int (num dt), fl land 1 <> 0, fl land 2 <> 0, fl land 4 <> 0)
            | [dt] -> PRev (z_of_int (num dt), false, false, false)
            | _ -> failwith "pev")
  | 'i' -> PEintr (z_of_int (num rest))
  | 'a' -> PEagain (z_of_int (num rest))
  | 'f' -> PFail (z_of_int (num rest))
  | 't' -> PTimeout (z_of_int (num rest))
  | _ -> failwith "pev"
let iev t =
  match t.[0] with
  | 'k' -> Xfer (nat_of_int (num (Stdlib.String.sub t 1 (Stdlib.String.length t - 1))))
  | 'z' -> Zero | 'i' -> Eintr | 'a' -> Eagain | 'e' -> Err
  | _ -> failwith "iev"

let whenv t = if t = "-" then None else
  match split_on ':' t with
  | [s; u] -> Some (z_of_int (num s), z_of_int (num u))
  | _ -> failwith "when"

let ename = function
  | E0 -> "0" | EINTR -> "EINTR" | EAGAIN -> "EAGAIN" | ETIMEDOUT -> "ETIMEDOUT" | EBADF -> "EBADF"
  | EIO -> "EIO" | EINVAL -> "EINVAL" | ENOMEM -> "ENOMEM" | EOTHER -> "EOTHER"

let rcs = function Ret n -> string_of_int (int_of_nat n) | Fail -> "-1" | Blocked -> "B" | NoFuel -> "NOFUEL"

let outs l =
  let s = to_string l in
  let n = Stdlib.String.length s in
  let h = Digest.to_hex (Digest.string s) in
  if n > 0 && n <= 64 then Printf.sprintf "%d:%s:%s" n h (hex l) else Printf.sprintf "%d:%s" n h

let answer fn rc w out extra =
  let tr = List.rev_map (fun (c, ms) -> Printf.sprintf "%d:%d" (int_of_z c) (int_of_z ms)) (w_trace w) in
  Printf.printf "%s rc=%s errno=%s clk=%d np=%d nio=%d exh=%d tr=%s out=%s%s\n" fn (rcs rc) (ename (w_errno w))
    (int_of_z (w_clock w)) (int_of_nat (w_np w)) (int_of_nat (w_nio w)) (if w_exh w then 1 else 0)
    (if tr = [] then "-" else Stdlib.String.concat ";" tr) (outs out) extra

let line l =
  match split_on ' ' l with
  | ["V"; skip; oom; wh; t0; bufs; ps; ios] ->
    let r = fd_timed_write_iov (list_of bufs data) (oom <> "0") (whenv wh) (skip <> "0") (z_of_int (num t0))
              (list_of ps pev) (list_of ios iev) in
    answer "V" (r_rc r) (r_w r) (wv_out (r_x r)) ""
  | ["N"; skip; wh; t0; buf; ps; ios] ->
    let r = fd_timed_write_n (data buf) (whenv wh) (skip <> "0") (z_of_int (num t0)) (list_of ps pev) (list_of ios iev) in
    answer "N" (r_rc r) (r_w r) (wn_out (r_x r)) ""
  | ["R"; skip; wh; t0; n; peer; ps; ios] ->
    let r = fd_timed_read_n (nat_of_int (num n)) (data peer) (whenv wh) (skip <> "0") (z_of_int (num t0))
              (list_of ps pev) (list_of ios iev) in
    answer "R" (r_rc r) (r_w r) (rd_buf (r_x r)) (Printf.sprintf " left=%d" (List.length (rd_peer (r_x r))))
  | _ -> Printf.printf "? %s\n" (if Stdlib.String.length l > 60 then Stdlib.String.sub l 0 60 else l)

let () =
  try while true do line (input_line stdin); flush stdout done with End_of_file -> ()
